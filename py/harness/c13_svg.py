"""C13: viewBox -> viewport mapping of SVG images on the real svg/ code.

* `case_preserve_ratio`: the real `svg.utils.preserve_ratio` on a real `SVG` tree (root `<svg>`, nested
  `<svg>`, `<marker>`, explicit viewbox argument as `<image>` passes it), viewport sizes as exact `Q`s;
* `case_svg_draw`: the real `SVGImage.draw` on a real `Stream`: the two `cm` operators the root `<svg>`
  emits (what `draw_replacedbox` + `SVGImage.draw` paint the vector image with);
* `case_svg_image`: the real `svg.images.image` with a stub referenced image: clip rectangle, the size the
  image is drawn at, and the `cm` fitting it.
viewBox numbers are dyadic (they go through `float()`); everything else is rational.
"""
from fractions import Fraction

from harness import c13_real as real
from harness import docs
from harness.c13_real import fmt, ok
from harness.exactq import Q
from vlib import sx

ALIGNS = ['xMinYMin', 'xMidYMin', 'xMaxYMin', 'xMinYMid', 'xMidYMid', 'xMaxYMid', 'xMinYMax', 'xMidYMax',
          'xMaxYMax']
NS = "xmlns='http://www.w3.org/2000/svg'"


def gen_par(rng, adversarial):
    """A preserveAspectRatio attribute value (None = attribute absent)."""
    k = rng.random()
    if k < 0.12:
        return None
    if k < 0.22:
        return 'none' + rng.choice(['', ' meet', ' slice'])
    if k < 0.85 or not adversarial:
        return rng.choice(ALIGNS) + rng.choice(['', ' meet', ' slice', '  slice', '\tslice'])
    return rng.choice(['', ' ', 'XMIDYMID slice', 'xmaxymax', 'foo', 'xMaxYMi slice', 'xMidYMid bogus', 'slice',
                       ' xMinYMax   slice ', 'none slice'])


def dyadic(rng, positive=True, adversarial=False):
    v = Fraction(rng.choice([1, 2, 3, 4, 5, 8, 10, 16, 24, 50, 100])) / rng.choice([1, 1, 2, 4])
    if adversarial and rng.random() < 0.15:
        return Fraction(0)
    if not positive and rng.random() < 0.4:
        return -v if rng.random() < 0.5 else Fraction(0)
    return v


def num(v):
    return f'{float(v):g}'


def par_wire(par):
    """The attribute as the list of its code points (it may contain blanks)."""
    return [ord(c) for c in ('xMidYMid' if par is None else par)]


def attrs(**kw):
    return ' '.join(f"{k}='{v}'" for k, v in kw.items() if v is not None)


def build_svg(source):
    from xml.etree import ElementTree
    from weasyprint.images import SVGImage
    return SVGImage(ElementTree.fromstring(source), 'about:svg', None, None)


def gen_viewbox(rng, adversarial):
    k = rng.random()
    if k < 0.15:
        return None
    vb = [dyadic(rng, False), dyadic(rng, False), dyadic(rng, True, adversarial), dyadic(rng, True, adversarial)]
    if adversarial and rng.random() < 0.1:
        vb = vb[:3]                       # malformed viewBox: three numbers
    return vb


def case_preserve_ratio(rng, adversarial):
    kind = rng.choice(['root', 'root', 'root', 'nested', 'explicit', 'marker'])
    width, height = abs(real.length(rng, adversarial)), abs(real.length(rng, adversarial))
    params = {'kind': kind, 'par': gen_par(rng, adversarial), 'viewbox': gen_viewbox(rng, adversarial),
              'width': width, 'height': height, 'intrinsic': [None, None], 'marker': None, 'explicit': None}
    if kind == 'root':
        params['intrinsic'] = [rng.choice([None, dyadic(rng), dyadic(rng)]), rng.choice([None, dyadic(rng), dyadic(rng)])]
    elif kind == 'explicit':
        # svg/images.py::image passes (0, 0, intrinsic_width, intrinsic_height)
        params['viewbox'] = None
        params['explicit'] = [Fraction(0), Fraction(0), dyadic(rng, True, adversarial), dyadic(rng, True, adversarial)]
    elif kind == 'marker':
        params['marker'] = [dyadic(rng, False), dyadic(rng, False)]
    return run_preserve_ratio(params)


def run_preserve_ratio(params):
    from weasyprint.svg.utils import preserve_ratio
    kind, par, viewbox = params['kind'], params['par'], params['viewbox']
    width, height = Q(params['width']), Q(params['height'])
    intrinsic, marker, explicit = params['intrinsic'], params['marker'], params['explicit']
    vb_attr = None if viewbox is None else ' '.join(num(v) for v in viewbox)
    if kind == 'root':
        iw, ih = intrinsic
        source = (f"<svg {NS} {attrs(viewBox=vb_attr, preserveAspectRatio=par, width=None if iw is None else num(iw), height=None if ih is None else num(ih))}>"
                  "</svg>")
        pick = lambda svg: svg.tree  # noqa: E731
    elif kind == 'nested':
        source = (f"<svg {NS}><svg {attrs(viewBox=vb_attr, preserveAspectRatio=par, width='10', height='10')}>"
                  "</svg></svg>")
        pick = lambda svg: next(iter(svg.tree))  # noqa: E731
    elif kind == 'explicit':
        source = f"<svg {NS}><image {attrs(preserveAspectRatio=par)}/></svg>"
        pick = lambda svg: next(iter(svg.tree))  # noqa: E731
    else:
        source = (f"<svg {NS}><marker {attrs(viewBox=vb_attr, preserveAspectRatio=par, refX=num(marker[0]), refY=num(marker[1]))}>"
                  "</marker></svg>")
        pick = lambda svg: next(iter(svg.tree))  # noqa: E731

    def run():
        image = build_svg(source)
        svg = image._svg
        if kind == 'marker':
            svg.tree.set_svg_size(svg, Q(100), Q(100))      # svg.point() of a marker's refX/refY needs it
        node = pick(svg)
        result = preserve_ratio(svg, node, Q(16), width, height, None if explicit is None else tuple(explicit))
        return ok(' '.join(fmt(v) for v in result))
    out = docs.outcome(run)
    effective = list(explicit) if explicit is not None else ([] if viewbox is None else viewbox)
    line = sx.line('svgratio', effective, kind == 'root', intrinsic[0], intrinsic[1], par_wire(par),
                   'none' if marker is None else list(marker), width, height)
    tags = [f'svgratio:{kind}', 'svgratio:par-' + ('absent' if par is None else (par.split() or ['empty'])[0][:9])]
    if out.startswith('err'):
        tags.append('svgratio:' + out)
    return line, out, {'fn': 'preserve_ratio', 'svg': source, 'params': params}, bool(effective), tags


def case_svg_draw(rng, adversarial):
    """`SVGImage.draw(stream, concrete_width, concrete_height, …)`: the root's `cm` operators."""
    return run_svg_draw({'par': gen_par(rng, adversarial), 'viewbox': gen_viewbox(rng, adversarial),
                         'intrinsic': [rng.choice([None, dyadic(rng)]), rng.choice([None, dyadic(rng)])],
                         'width': real.positive(rng), 'height': real.positive(rng)})


def run_svg_draw(params):
    par, viewbox, (iw, ih) = params['par'], params['viewbox'], params['intrinsic']
    width, height = Q(params['width']), Q(params['height'])
    vb_attr = None if viewbox is None else ' '.join(num(v) for v in viewbox)
    source = (f"<svg {NS} {attrs(viewBox=vb_attr, preserveAspectRatio=par, width=None if iw is None else num(iw), height=None if ih is None else num(ih))}>"
              "<rect width='1' height='1'/></svg>")

    def run():
        image = build_svg(source)
        stream = real.new_stream()
        image.draw(stream, width, height, 'auto')          # SVGImage.draw: logs and swallows any exception
        ops = real.stream_tokens(stream)
        if len(ops) < 3 or not ops[2].endswith(' cm'):
            # the drawing was abandoned: ask the SVG object itself for the exception
            image._svg.draw(real.new_stream(), width, height, 'about:svg', None, None)
            raise AssertionError('SVGImage.draw stopped without an exception of SVG.draw')
        assert ops[0] == 'q' and ops[1] == '1 0 0 1 0 0 cm', ops[:3]
        a, b, c, d, e, f, cm = ops[2].split()
        assert (b, c, cm) == ('0', '0', 'cm')
        return ok(' '.join(fmt(Fraction(v)) for v in (a, d, e, f)))
    out = docs.outcome(run)
    line = sx.line('svgroot', [] if viewbox is None else viewbox, iw, ih, par_wire(par), width, height)
    return line, out, {'fn': 'SVG.draw', 'svg': source, 'params': params}, viewbox is not None, ['svgdraw' + (
        ':err' if out.startswith('err') else '')]


def case_svg_image(rng, adversarial):
    """`svg/images.py::image`: an `<image>` element referencing a (stub) image."""
    return run_svg_image({'par': gen_par(rng, False),
                          'width': rng.choice([None, dyadic(rng), dyadic(rng, True, adversarial)]),
                          'height': rng.choice([None, dyadic(rng), dyadic(rng, True, adversarial)]),
                          'intr': list(real.intrinsic(rng, adversarial))})


def run_svg_image(params):
    par, width, height = params['par'], params['width'], params['height']
    intr = tuple(None if v is None else Q(v) for v in params['intr'])
    source = (f"<svg {NS}><image href='data:,x' {attrs(preserveAspectRatio=par, width=None if width is None else num(width), height=None if height is None else num(height))}/>"
              "</svg>")
    stub = real.StubImage(intr)

    class Context:
        @staticmethod
        def get_image_from_uri(url, forced_mime_type=None):
            return stub
    state = {}

    def run():
        from weasyprint.svg.images import image as draw_image
        image = build_svg(source)
        svg = image._svg
        svg.tree.set_svg_size(svg, Q(100), Q(100))
        svg.stream = real.new_stream()
        svg.context = Context
        node = next(iter(svg.tree))
        recorded = []
        stream = svg.stream
        for name in ('transform', 'rectangle'):
            def wrap(original, name=name):
                def method(*args, **kwargs):
                    recorded.append((name, args, kwargs))
                    return original(*args, **kwargs)
                return method
            setattr(stream, name, wrap(getattr(stream, name)))
        draw_image(svg, node, Q(16))
        ops = real.stream_tokens(stream)
        (target, dw, dh, rendering), = stub.draws
        assert ops[0] == '1 0 0 1 0 0 cm' and ops[2:5] == ['W', 'n', 'q'] and ops[-1] == 'Q', ops
        (_, _, first), (_, rect, _), (_, _, fit) = recorded
        assert first == {'e': 0, 'f': 0} and rect[:2] == (0, 0) and set(fit) == {'a', 'd', 'e', 'f'}
        box = [real.exact(v) for v in (rect[2], rect[3], dw, dh)]
        values = [real.exact(fit[k]) for k in 'adef']
        if all(Fraction(v).denominator < 2 ** 30 for v in values):
            # (a float quotient such as 1.25 / 300 is not exact: then only the box is compared)
            state['cm'] = ' '.join(fmt(v) for v in values)
        state['box'] = box
        return ok(' '.join(fmt(v) for v in box))
    out = docs.outcome(run)
    cases = [(sx.line('svgimage', width or 0, height or 0, *intr), out, {'fn': 'svg.images.image', 'svg': source,
                                                                              'params': params},
              True, ['svgimage' + (':' + out if out.startswith('err') else '')])]
    if 'cm' in state:
        w, h, dw, dh = state['box']
        cases.append((sx.line('svgratio', [0, 0, dw, dh], False, None, None, par_wire(par), 'none', w, h),
                      ok(state['cm']), {'fn': 'svg.images.image.cm', 'svg': source, 'params': params}, True,
                      ['svgimage:cm']))
    return cases


def finding_par_inherited():
    """Known finding: a nested <svg> (or <image>) without preserveAspectRatio inherits its ancestor's value
    (the attribute is not inheritable in SVG).  True while it still fails."""
    source = (f"<svg {NS} viewBox='0 0 4 4' preserveAspectRatio='xMaxYMin slice'>"
              "<svg viewBox='0 0 2 2' width='3' height='1'><rect width='1' height='1'/></svg></svg>")
    image = build_svg(source)
    nested = next(iter(image._svg.tree))
    return nested.get('preserveAspectRatio', 'xMidYMid') != 'xMidYMid'


def _revive(x):
    """Parameters that went through JSON (Fractions as strings) -> numbers again."""
    import re
    if isinstance(x, dict):
        return {k: (v if k in ('kind', 'par') else _revive(v)) for k, v in x.items()}
    if isinstance(x, list):
        return [_revive(v) for v in x]
    if isinstance(x, str) and re.match(r'^-?\d+(/\d+)?$', x):
        return Fraction(x)
    return x


def replay(meta):
    """Re-run a case from its meta -> list of (line, out)."""
    params = _revive(meta['params'])
    if meta['fn'] == 'preserve_ratio':
        return [run_preserve_ratio(params)[:2]]
    if meta['fn'] == 'SVG.draw':
        return [run_svg_draw(params)[:2]]
    return [c[:2] for c in run_svg_image(params)]
