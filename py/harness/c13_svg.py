"""C13: viewBox -> viewport mapping of SVG images on the real svg/ code.

* `case_preserve_ratio`: the real `svg.utils.preserve_ratio` on a real `SVG` tree (root `<svg>`, nested
  `<svg>`, `<marker>`, explicit viewbox argument as `<image>` passes it), viewport sizes as exact `Q`s;
* `case_svg_draw`: the real `SVGImage.draw` on a real `Stream`: the two `cm` operators the root `<svg>`
  emits (what `draw_replacedbox` + `SVGImage.draw` paint the vector image with);
* `case_svg_image`: the real `svg.images.image` with a stub referenced image: clip rectangle, the size the
  image is drawn at, and the `cm` fitting it.
viewBox numbers are dyadic (they go through `float()`); everything else is rational.
"""
from fractions import Fraction

from harness import c13_real as real
from harness import docs
from harness.c13_real import fmt, ok
from harness.exactq import Q
from vlib import sx

ALIGNS = ['xMinYMin', 'xMidYMin', 'xMaxYMin', 'xMinYMid', 'xMidYMid', 'xMaxYMid', 'xMinYMax', 'xMidYMax',
          'xMaxYMax']
NS = "xmlns='http://www.w3.org/2000/svg'"


def gen_par(rng, adversarial):
    """A preserveAspectRatio attribute value (None = attribute absent)."""
    k = rng.random()
    if k < 0.12:
        return None
    if k < 0.22:
        return 'none' + rng.choice(['', ' meet', ' slice'])
    if k < 0.85 or not adversarial:
        return rng.choice(ALIGNS) + rng.choice(['', ' meet', ' slice', '  slice', '\tslice'])
    return rng.choice(['', ' ', 'XMIDYMID slice', 'xmaxymax', 'foo', 'xMaxYMi slice', 'xMidYMid bogus', 'slice',
                       ' xMinYMax   slice ', 'none slice'])


def dyadic(rng, positive=True, adversarial=False):
    v = Fraction(rng.choice([1, 2, 3, 4, 5, 8, 10, 16, 24, 50, 100])) / rng.choice([1, 1, 2, 4])
    if adversarial and rng.random() < 0.15:
        return Fraction(0)
    if not positive and rng.random() < 0.4:
        return -v if rng.random() < 0.5 else Fraction(0)
    return v


def num(v):
    return f'{float(v):g}'


def par_wire(par):
    """The attribute as the list of its code points (it may contain blanks)."""
    return [ord(c) for c in ('xMidYMid' if par is None else par)]


def attrs(**kw):
    return ' '.join(f"{k}='{v}'" for k, v in kw.items() if v is not None)


def build_svg(source):
    from xml.etree import ElementTree
    from weasyprint.images import SVGImage
    return SVGImage(ElementTree.fromstring(source), 'about:svg', None, None)


def gen_viewbox(rng, adversarial):
    k = rng.random()
    if k < 0.15:
        return None
    vb = [dyadic(rng, False), dyadic(rng, False), dyadic(rng, True, adversarial), dyadic(rng, True, adversarial)]
    if adversarial and rng.random() < 0.1:
        vb = vb[:3]                       # malformed viewBox: three numbers
    return vb


def case_preserve_ratio(rng, adversarial):
    kind = rng.choice(['root', 'root', 'root', 'nested', 'explicit', 'marker'])
    width, height = abs(real.length(rng, adversarial)), abs(real.length(rng, adversarial))
    params = {'kind': kind, 'par': gen_par(rng, adversarial), 'viewbox': gen_viewbox(rng, adversarial),
              'width': width, 'height': height, 'intrinsic': [None, None], 'marker': None, 'explicit': None,
              'parent_par': None}
    if kind != 'root' and rng.random() < 0.6:
        # the enclosing <svg> has its own preserveAspectRatio (and viewBox): neither is inherited (SVG 1.1
        # property index: preserveAspectRatio is an attribute, not a property)
        params['parent_par'] = rng.choice([a + m for a in ALIGNS + ['none'] for m in ('', ' slice')])
    if kind == 'root':
        params['intrinsic'] = [rng.choice([None, dyadic(rng), dyadic(rng)]), rng.choice([None, dyadic(rng), dyadic(rng)])]
    elif kind == 'explicit':
        # svg/images.py::image passes (0, 0, intrinsic_width, intrinsic_height)
        params['viewbox'] = None
        params['explicit'] = [Fraction(0), Fraction(0), dyadic(rng, True, adversarial), dyadic(rng, True, adversarial)]
    elif kind == 'marker':
        params['marker'] = [dyadic(rng, False), dyadic(rng, False)]
    return run_preserve_ratio(params)


def run_preserve_ratio(params):
    from weasyprint.svg.utils import preserve_ratio
    kind, par, viewbox = params['kind'], params['par'], params['viewbox']
    width, height = Q(params['width']), Q(params['height'])
    intrinsic, marker, explicit = params['intrinsic'], params['marker'], params['explicit']
    vb_attr = None if viewbox is None else ' '.join(num(v) for v in viewbox)
    parent = params.get('parent_par')
    outer = f"<svg {NS}>" if parent is None else f"<svg {NS} viewBox='0 0 40 20' preserveAspectRatio='{parent}'>"
    if kind == 'root':
        iw, ih = intrinsic
        source = (f"<svg {NS} {attrs(viewBox=vb_attr, preserveAspectRatio=par, width=None if iw is None else num(iw), height=None if ih is None else num(ih))}>"
                  "</svg>")
        pick = lambda svg: svg.tree  # noqa: E731
    elif kind == 'nested':
        source = (f"{outer}<svg {attrs(viewBox=vb_attr, preserveAspectRatio=par, width='10', height='10')}>"
                  "</svg></svg>")
        pick = lambda svg: next(iter(svg.tree))  # noqa: E731
    elif kind == 'explicit':
        source = f"{outer}<image {attrs(preserveAspectRatio=par)}/></svg>"
        pick = lambda svg: next(iter(svg.tree))  # noqa: E731
    else:
        source = (f"{outer}<marker {attrs(viewBox=vb_attr, preserveAspectRatio=par, refX=num(marker[0]), refY=num(marker[1]))}>"
                  "</marker></svg>")
        pick = lambda svg: next(iter(svg.tree))  # noqa: E731

    def run():
        image = build_svg(source)
        svg = image._svg
        if kind == 'marker':
            svg.tree.set_svg_size(svg, Q(100), Q(100))      # svg.point() of a marker's refX/refY needs it
        node = pick(svg)
        result = preserve_ratio(svg, node, Q(16), width, height, None if explicit is None else tuple(explicit))
        return ok(' '.join(fmt(v) for v in result))
    out = docs.outcome(run)
    effective = list(explicit) if explicit is not None else ([] if viewbox is None else viewbox)
    if parent is None:
        line = sx.line('svgratio', effective, kind == 'root', intrinsic[0], intrinsic[1], par_wire(par),
                       'none' if marker is None else list(marker), width, height)
    else:
        # nested under an element with its own preserveAspectRatio: the model applies Node.cascade itself
        line = sx.line('svgratioc', effective, [cps(parent), cps(par)], 'none' if marker is None else list(marker),
                       width, height)
    tags = [f'svgratio:{kind}', 'svgratio:par-' + ('absent' if par is None else (par.split() or ['empty'])[0][:9])]
    if parent is not None:
        tags.append('svgratio:parent-par' + ('-child-absent' if par is None else ''))
    if out.startswith('err'):
        tags.append('svgratio:' + out)
    return line, out, {'fn': 'preserve_ratio', 'svg': source, 'params': params}, bool(effective), tags


def case_svg_draw(rng, adversarial):
    """`SVGImage.draw(stream, concrete_width, concrete_height, …)`: the root's `cm` operators."""
    return run_svg_draw({'par': gen_par(rng, adversarial), 'viewbox': gen_viewbox(rng, adversarial),
                         'intrinsic': [rng.choice([None, dyadic(rng)]), rng.choice([None, dyadic(rng)])],
                         'width': real.positive(rng), 'height': real.positive(rng)})


def run_svg_draw(params):
    par, viewbox, (iw, ih) = params['par'], params['viewbox'], params['intrinsic']
    width, height = Q(params['width']), Q(params['height'])
    vb_attr = None if viewbox is None else ' '.join(num(v) for v in viewbox)
    source = (f"<svg {NS} {attrs(viewBox=vb_attr, preserveAspectRatio=par, width=None if iw is None else num(iw), height=None if ih is None else num(ih))}>"
              "<rect width='1' height='1'/></svg>")

    def run():
        image = build_svg(source)
        stream = real.new_stream()
        image.draw(stream, width, height, 'auto')          # SVGImage.draw: logs and swallows any exception
        ops = real.stream_tokens(stream)
        if len(ops) < 3 or not ops[2].endswith(' cm'):
            # the drawing was abandoned: ask the SVG object itself for the exception
            image._svg.draw(real.new_stream(), width, height, 'about:svg', None, None)
            raise AssertionError('SVGImage.draw stopped without an exception of SVG.draw')
        assert ops[0] == 'q' and ops[1] == '1 0 0 1 0 0 cm', ops[:3]
        a, b, c, d, e, f, cm = ops[2].split()
        assert (b, c, cm) == ('0', '0', 'cm')
        return ok(' '.join(fmt(Fraction(v)) for v in (a, d, e, f)))
    out = docs.outcome(run)
    line = sx.line('svgroot', [] if viewbox is None else viewbox, iw, ih, par_wire(par), width, height)
    return line, out, {'fn': 'SVG.draw', 'svg': source, 'params': params}, viewbox is not None, ['svgdraw' + (
        ':err' if out.startswith('err') else '')]


def case_svg_image(rng, adversarial):
    """`svg/images.py::image`: an `<image>` element referencing a (stub) image."""
    return run_svg_image({'par': gen_par(rng, False),
                          'parent_par': rng.choice([None, None] + [a + m for a in ALIGNS + ['none']
                                                                    for m in ('', ' slice')]),
                          'width': rng.choice([None, dyadic(rng), dyadic(rng, True, adversarial)]),
                          'height': rng.choice([None, dyadic(rng), dyadic(rng, True, adversarial)]),
                          'intr': list(real.intrinsic(rng, adversarial))})


def run_svg_image(params):
    par, width, height = params['par'], params['width'], params['height']
    intr = tuple(None if v is None else Q(v) for v in params['intr'])
    parent = params.get('parent_par')
    outer = f"<svg {NS}>" if parent is None else f"<svg {NS} preserveAspectRatio='{parent}'>"
    source = (f"{outer}<image href='data:,x' {attrs(preserveAspectRatio=par, width=None if width is None else num(width), height=None if height is None else num(height))}/>"
              "</svg>")
    stub = real.StubImage(intr)

    class Context:
        @staticmethod
        def get_image_from_uri(url, forced_mime_type=None):
            return stub
    state = {}

    def run():
        from weasyprint.svg.images import image as draw_image
        image = build_svg(source)
        svg = image._svg
        svg.tree.set_svg_size(svg, Q(100), Q(100))
        svg.stream = real.new_stream()
        svg.context = Context
        node = next(iter(svg.tree))
        recorded = []
        stream = svg.stream
        for name in ('transform', 'rectangle'):
            def wrap(original, name=name):
                def method(*args, **kwargs):
                    recorded.append((name, args, kwargs))
                    return original(*args, **kwargs)
                return method
            setattr(stream, name, wrap(getattr(stream, name)))
        draw_image(svg, node, Q(16))
        ops = real.stream_tokens(stream)
        (target, dw, dh, rendering), = stub.draws
        assert ops[0] == '1 0 0 1 0 0 cm' and ops[2:5] == ['W', 'n', 'q'] and ops[-1] == 'Q', ops
        (_, _, first), (_, rect, _), (_, _, fit) = recorded
        assert first == {'e': 0, 'f': 0} and rect[:2] == (0, 0) and set(fit) == {'a', 'd', 'e', 'f'}
        box = [real.exact(v) for v in (rect[2], rect[3], dw, dh)]
        values = [real.exact(fit[k]) for k in 'adef']
        if all(Fraction(v).denominator < 2 ** 30 for v in values):
            # (a float quotient such as 1.25 / 300 is not exact: then only the box is compared)
            state['cm'] = ' '.join(fmt(v) for v in values)
        state['box'] = box
        return ok(' '.join(fmt(v) for v in box))
    out = docs.outcome(run)
    cases = [(sx.line('svgimage', width or 0, height or 0, *intr), out, {'fn': 'svg.images.image', 'svg': source,
                                                                              'params': params},
              True, ['svgimage' + (':' + out if out.startswith('err') else '')])]
    if 'cm' in state:
        w, h, dw, dh = state['box']
        cases.append((sx.line('svgratio', [0, 0, dw, dh], False, None, None, par_wire(par), 'none', w, h),
                      ok(state['cm']), {'fn': 'svg.images.image.cm', 'svg': source, 'params': params}, True,
                      ['svgimage:cm']))
    return cases


# ---------------------------------------------------------------------------------------------
# Node.cascade: which attributes an element hands down to its children

VIEWPORT_ATTRIBUTES = ['preserveAspectRatio', 'viewBox', 'width', 'height', 'x', 'y', 'transform']
OTHER_NOT_INHERITED = ['opacity', 'id', 'clip-path', 'mask', 'filter', 'overflow', 'href', 'dx', 'rotate']
INHERITED_ATTRIBUTES = ['fill-opacity', 'stroke-width', 'font-size', 'visibility', 'stroke-linecap', 'data-x',
                        'fill-rule', 'text-anchor']
ATTRIBUTE_VALUES = ['a', 'b c', '1', 'xMaxYMin slice', '0 0 4 4', 'inherit', 'inherit', 'none', '']


def cps(text):
    return 'none' if text is None else [ord(c) for c in text]


def case_svg_attr(rng, adversarial=False):
    """The real `Node` tree: an attribute written (or not) on each element of a chain of nested elements, read
    on the innermost one after the cascade."""
    k = rng.random()
    key = rng.choice(VIEWPORT_ATTRIBUTES if k < 0.45 else OTHER_NOT_INHERITED if k < 0.65 else INHERITED_ATTRIBUTES)
    depth = rng.choice([2, 2, 3, 4])
    chain = [rng.choice([None, None] + ATTRIBUTE_VALUES) for _ in range(depth)]
    if all(v is None for v in chain):
        chain[rng.randrange(depth - 1)] = rng.choice(ATTRIBUTE_VALUES)
    tags = ['svg'] + [rng.choice(['g', 'svg', 'g']) for _ in range(depth - 1)]
    return run_svg_attr({'key': key, 'chain': chain, 'tags': tags})


def run_svg_attr(params):
    key, chain, tags = params['key'], params['chain'], params['tags']
    source = ''
    for index, (tag, value) in enumerate(zip(tags, chain)):
        source += f"<{tag}{' ' + NS if index == 0 else ''}{'' if value is None else f' {key}=' + chr(34) + value + chr(34)}>"
    source += ''.join(f'</{tag}>' for tag in reversed(tags))

    def run():
        node = build_svg(source)._svg.tree
        for _ in tags[1:]:
            node = next(iter(node))
        value = node.get(key)
        return 'ok none' if value is None else 'ok (' + ' '.join(str(ord(c)) for c in value) + ')'
    out = docs.outcome(run)
    line = sx.line('svgattr', cps(key), [cps(v) for v in chain])
    return (line, out, {'fn': 'svg.Node.cascade', 'svg': source, 'params': params}, chain[-1] is None,
            [f'svgattr:{key}' if key in VIEWPORT_ATTRIBUTES else 'svgattr:other',
             'svgattr:own-' + ('absent' if chain[-1] is None else 'inherit' if chain[-1] == 'inherit' else 'set')])


def case_svg_image_element(rng, adversarial=False):
    """`svg/images.py::image` with and without an `href`, with a loader that returns an image or `None`:
    is the loader asked, and is anything drawn."""
    return run_svg_image_element({
        'href': rng.choice(['data:,x', 'data:,x', None, '', 'xlink']), 'loaded': rng.random() < 0.8,
        'width': rng.choice([None, dyadic(rng)]), 'height': rng.choice([None, dyadic(rng)]),
        'intr': list(real.intrinsic(rng, adversarial))})


def run_svg_image_element(params):
    href, loaded, width, height = params['href'], params['loaded'], params['width'], params['height']
    intr = tuple(None if v is None else Q(v) for v in params['intr'])
    link = {None: '', '': "href=''", 'xlink': "xmlns:xlink='http://www.w3.org/1999/xlink' xlink:href='data:,y'"}.get(
        href, f"href='{href}'")
    source = (f"<svg {NS}><image {link} {attrs(width=None if width is None else num(width), height=None if height is None else num(height))}/>"
              "</svg>")
    stub = real.StubImage(intr)
    asked = []

    class Context:
        @staticmethod
        def get_image_from_uri(url, forced_mime_type=None):
            asked.append(url)
            return stub if loaded else None

    def run():
        from weasyprint.svg.images import image as draw_image
        image = build_svg(source)
        svg = image._svg
        svg.tree.set_svg_size(svg, Q(100), Q(100))
        svg.stream = real.new_stream()
        svg.context = Context
        node = next(iter(svg.tree))
        rects = []
        original = svg.stream.rectangle
        svg.stream.rectangle = lambda *a: (rects.append(a), original(*a))[1]
        draw_image(svg, node, Q(16))
        assert len(asked) <= 1 and all(asked), asked              # never asked for None / ''
        flag = str(bool(asked)).lower()
        if not stub.draws:
            assert not rects
            return f'ok {flag} none'
        (target, dw, dh, rendering), = stub.draws
        (x0, y0, w, h), = rects
        return 'ok ' + flag + ' ' + ' '.join(fmt(real.exact(v)) for v in (w, h, dw, dh))
    out = docs.outcome(run)
    has_href = bool(href)
    line = sx.line('svgimagee', has_href, loaded, width or 0, height or 0, *intr)
    return (line, out, {'fn': 'svg.images.image.element', 'svg': source, 'params': params}, not has_href or not loaded,
            ['svgimagee:' + ('no-href' if not has_href else 'not-loaded' if not loaded else 'drawn')] +
            (['svgimagee:' + out] if out.startswith('err') else []))


def regression_par_inherited():
    """Fixed finding svg-preserveaspectratio-inherited (358a995): a nested <svg> / <image> / <marker> without
    preserveAspectRatio took its ancestor's value.  -> regression cases: the input of the former replay
    (nested <svg viewBox='0 0 2 2'> of 3 x 1 inside a root with 'xMaxYMin slice') and its <image> / <marker>
    variants, through the ordinary `svgratio` protocol."""
    cases = []
    for kind in ('nested', 'explicit', 'marker'):
        params = {'kind': kind, 'par': None, 'viewbox': [Fraction(0), Fraction(0), Fraction(2), Fraction(2)],
                  'width': Fraction(3), 'height': Fraction(1), 'intrinsic': [None, None], 'marker': None,
                  'explicit': None, 'parent_par': 'xMaxYMin slice'}
        if kind == 'explicit':
            params['viewbox'], params['explicit'] = None, [Fraction(0), Fraction(0), Fraction(2), Fraction(2)]
        if kind == 'marker':
            params['marker'] = [Fraction(1), Fraction(1)]
        line, out, meta, _, _ = run_preserve_ratio(params)
        meta['regression'] = 'svg-preserveaspectratio-inherited'
        cases.append((line, out, meta, True, ['regression:svg-preserveaspectratio-inherited']))
    return cases


def _revive(x):
    """Parameters that went through JSON (Fractions as strings) -> numbers again."""
    import re
    if isinstance(x, dict):
        return {k: (v if k in ('kind', 'par', 'parent_par', 'key', 'chain', 'tags', 'href') else _revive(v)) for k, v in x.items()}
    if isinstance(x, list):
        return [_revive(v) for v in x]
    if isinstance(x, str) and re.match(r'^-?\d+(/\d+)?$', x):
        return Fraction(x)
    return x


def replay(meta):
    """Re-run a case from its meta -> list of (line, out)."""
    params = _revive(meta['params'])
    if meta['fn'] == 'preserve_ratio':
        return [run_preserve_ratio(params)[:2]]
    if meta['fn'] == 'svg.Node.cascade':
        return [run_svg_attr(params)[:2]]
    if meta['fn'] == 'svg.images.image.element':
        return [run_svg_image_element(params)[:2]]
    if meta['fn'] == 'SVG.draw':
        return [run_svg_draw(params)[:2]]
    return [c[:2] for c in run_svg_image(params)]
