"""C15 helpers, list-style-type half: the real single-token validator `list_style_type`
(css/validation/properties.py: identifiers, strings, `symbols()`) on real tinycss2 tokens, against
`Model/ListStyleType.lean`; the grammar of css-counter-styles-3 §7 (`symbols()`) for `judge`; and a document-level
clause: a `symbols()` style the validator accepts renders every value without falling back to decimal for want
of symbols."""
import tinycss2

from harness import c15_content as CF
from harness import c15_styles as S
from vlib import sx

SYSTEMS = ['cyclic', 'numeric', 'alphabetic', 'symbolic', 'fixed']
HEADS = SYSTEMS + ['additive', 'Cyclic', 'NUMERIC', 'extends', 'x']
STRINGS = ['"a"', '"b"', '"*"', '"0"', '"1"', '""', '"x y"', '"é"']
SOUP = ['a', '3', ',', 'url(http://x.invalid/i.png)', 'f(x)', '1.5', 'cyclic']


def gen_value(rng):
    r = rng.random()
    if r < 0.12:
        return rng.choice(['disc', 'Decimal', 'lower-roman', 'none', 'NONE', 'ca', 'inherit-ish', '"» "', '""', '3', '1.5',
                           'a b', '"a" "b"', 'url(http://x.invalid/i.png)', 'f(x)'])
    name = 'symbols' if rng.random() < 0.92 else rng.choice(['SYMBOLS', 'Symbols', 'symbol'])
    parts = []
    if rng.random() < 0.7:
        parts.append(rng.choice(HEADS) if rng.random() < 0.85 else rng.choice(SOUP))
    for _ in range(rng.choice([0, 1, 1, 2, 2, 3, 5])):
        parts.append(rng.choice(STRINGS) if rng.random() < 0.9 else rng.choice(SOUP))
    if rng.random() < 0.05:
        parts.insert(rng.randrange(len(parts) + 1), rng.choice(SYSTEMS))
    return f'{name}({" ".join(parts)})'


def w_stok(token):
    if token.type == 'function':
        return ['f', S.enc(token.name), [w_arg(t) for t in token.arguments if t.type not in ('whitespace', 'comment')]]
    return ['t', w_arg(token)]


def w_arg(token):
    if token.type == 'function':
        return 'attr' if token.name == 'attr' else 'other'
    return CF.w_atok(token)


def lst_case(text):
    """-> (line, impl_out) for a one-token value, None otherwise."""
    from weasyprint.css.validation.properties import list_style_type
    tokens = [t for t in tinycss2.parse_component_value_list(text) if t.type not in ('whitespace', 'comment')]
    if len(tokens) != 1:
        return None
    line = sx.line('lst', w_stok(tokens[0]))
    try:
        value = list_style_type(tokens)
    except Exception as exc:  # noqa: BLE001
        return line, f'err:{type(exc).__name__}'
    return line, 'none' if value is None else sx.dumps(S.w_name(value))


# ---------------------------------------------------------------- judge only

def spec_symbols(text):
    """css-counter-styles-3 §7: symbols( <symbols-type>? [ <string> | <image> ]+ ), numeric / alphabetic with at
    least two symbols.  -> ('symbols()', (type, strings…)), None (invalid), or 'decline' (images, odd case)."""
    tokens = [t for t in tinycss2.parse_component_value_list(text) if t.type not in ('whitespace', 'comment')]
    if len(tokens) != 1 or tokens[0].type != 'function' or tokens[0].lower_name != 'symbols':
        return 'decline'
    if tokens[0].name != 'symbols':
        return 'decline'
    args = [t for t in tokens[0].arguments if t.type not in ('whitespace', 'comment')]
    if any(t.type in ('url', 'function') for t in args):
        return 'decline'
    system = 'symbolic'
    if args and args[0].type == 'ident':
        if args[0].value.lower() in SYSTEMS and args[0].value not in SYSTEMS:
            return 'decline'
        if args[0].value not in SYSTEMS:
            return None
        system, args = args[0].value, args[1:]
    if not args or any(t.type != 'string' for t in args):
        return None
    if system in ('numeric', 'alphabetic') and len(args) < 2:
        return None
    return ('symbols()', (system,) + tuple(t.value for t in args))


def lst_clause(text):
    from weasyprint.css.validation.properties import list_style_type
    tokens = [t for t in tinycss2.parse_component_value_list(text) if t.type not in ('whitespace', 'comment')]
    if len(tokens) != 1:
        return None
    want = spec_symbols(text)
    if want == 'decline':
        return None
    got = list_style_type(tokens)
    if got == want:
        return None
    if want is None:
        shown = ''
        if got is not None and got[0] == 'symbols()':
            from weasyprint.css.counters import CounterStyle
            cs = CounterStyle()
            cs.update(S.ua_styles())
            shown = '; it renders 1, 2, 3 as ' + ', '.join(repr(cs.render_value(v, got)) for v in (1, 2, 3))
        return f'`list-style-type: {text}` is accepted as {got!r}; css-counter-styles-3 makes it invalid{shown}'
    if got is None:
        return f'`list-style-type: {text}` is rejected; css-counter-styles-3 reads it as {want!r}'
    return f'`list-style-type: {text}` is stored as {got!r}; css-counter-styles-3 reads it as {want!r}'
