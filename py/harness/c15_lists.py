"""C15 helpers, HTML-attribute half: generated list documents (`ol start=…`, `li value=…`, nested lists, `ul`,
`div`) rendered by the real pipeline *with the real HTML5 UA sheet and presentational hints*; the list tree is
read back from the parsed document with the **raw attribute strings** (tokenised by the real tinycss2), so that
`find_style_attributes`, the `counter()` validator and the cascade of the counter properties are inside the tie
(the model derives the counter declarations itself, `Model/ListHints.lean`); direct calls of the real
`counter()` validator; an HTML-rules reference for `judge`."""
import re

import tinycss2

from harness import c15_dom as D
from harness import c15_styles as S
from vlib import sx

AFTER_CSS = 'li::after { content: "[" counter(list-item) "|" counters(list-item, ".") "]" }'
MARKER_CSS = 'li::marker { content: counter(list-item) "|" counters(list-item, ".") " " }'

# integers in every spelling HTML and CSS agree on, then what only one of them reads as an integer
INT_ATTRS = ['0', '0', '1', '2', '3', '5', '10', '99', '-1', '-2', '-7', '+4', '007', '-0', ' 6', '8 ', '12']
ODD_ATTRS = ['', ' ', 'abc', '1.5', '3.0', '1e1', '2x', 'none', 'x 5', '3 c 7', '٣', '--', '+', '5 5']


def gen_attr(rng, odd=0.12):
    r = rng.random()
    if r < odd:
        return rng.choice(ODD_ATTRS)
    return rng.choice(INT_ATTRS)


def gen_li(rng, depth, budget):
    budget[0] -= 1
    attrs = f' value="{gen_attr(rng)}"' if rng.random() < 0.25 else ''
    kids = ''
    if depth > 0 and budget[0] > 0 and rng.random() < 0.35:
        kids = gen_list(rng, depth - 1, budget) if rng.random() < 0.8 else f'<div>{gen_list(rng, depth - 1, budget)}</div>'
    return f'<li{attrs}>i{kids}</li>'


def gen_list(rng, depth, budget):
    tag = 'ol' if rng.random() < 0.75 else 'ul'
    attrs = f' start="{gen_attr(rng)}"' if tag == 'ol' and rng.random() < 0.6 else ''
    items = ''
    for _ in range(rng.choice([1, 2, 3, 3, 4, 6])):
        if budget[0] <= 0:
            break
        items += gen_li(rng, depth, budget)
        if rng.random() < 0.06:
            items += '<div>t</div>'
    return f'<{tag}{attrs}>{items}</{tag}>'


def gen_document(rng):
    budget = [rng.choice([5, 10, 18, 30])]
    body = ''.join(gen_list(rng, rng.choice([0, 1, 2, 3]), budget) for _ in range(rng.choice([1, 1, 2, 3])))
    extra = rng.choice(['', '', 'ol { list-style-type: lower-roman }', 'ol ol { list-style-type: upper-alpha }',
                        'ul { list-style-type: "- " }', 'ol ol li::marker { display: none }',
                        'ul li::marker { display: none }'])
    css = (AFTER_CSS if rng.random() < 0.6 else '') + (MARKER_CSS if rng.random() < 0.4 else '') + extra
    return f'<html><head><style>{css}</style></head><body>{body}</body></html>'


# ---------------------------------------------------------------- the real pipeline, real UA sheet

def build(html_text):
    from weasyprint import DEFAULT_OPTIONS, HTML
    from weasyprint.css.counters import CounterStyle
    from weasyprint.document import Document
    from weasyprint.text.fonts import FontConfiguration
    html = HTML(string=html_text, base_url='http://x.invalid/')
    counter_style = CounterStyle()
    options = dict(DEFAULT_OPTIONS, presentational_hints=True)
    context = Document._build_layout_context(html, FontConfiguration(), counter_style, options)
    return html, context, counter_style


def w_htok(token):
    if token.type == 'ident':
        return ['i', S.enc(token.value)]
    if token.type == 'number' and token.int_value is not None:
        return ['n', token.int_value]
    return 'other'


UNSAFE = re.compile(r'[;!{}()\[\]"\'\\/*<>@#:,]')


def w_attr(raw):
    """The raw attribute as the model sees it: `none` when absent or empty, else its tinycss2 tokens."""
    if not raw:
        return 'none'
    if UNSAFE.search(raw):
        raise D.Unsupported('attribute text that does not stay inside one declaration')
    return [w_htok(t) for t in tinycss2.parse_component_value_list(raw) if t.type not in ('whitespace', 'comment')]


def w_node(style_for, element):
    kids = [w_node(style_for, child) for child in element if isinstance(child.tag, str)]
    if element.tag == 'ol':
        return ['ol', w_attr(element.get('start')), kids]
    if element.tag == 'ul':
        return ['ul', kids]
    if element.tag == 'li':
        style = style_for(element)
        if style['list_style_image'][0] == 'url':
            raise D.Unsupported('marker image')
        list_style = style['list_style_type']
        after = style_for(element, 'after')
        items = None if after is None or after['content'] in ('normal', 'inhibit', 'none') else D.plain_items(after['content'])
        marker = style_for(element, 'marker')
        if marker['content'] == 'none' and marker['display'] != ('none',):
            raise D.Unsupported('marker content none')
        if marker['display'] == ('none',):
            # marker_to_box returns before creating any box (848642f): no marker, whatever the list style
            list_style, marker_items = 'none', None
        else:
            marker_items = None if marker['content'] in ('normal', 'inhibit') else D.plain_items(marker['content'])
        return ['li', w_attr(element.get('value')), 'none' if list_style == 'none' else S.w_name(list_style),
                'none' if marker_items is None else D.w_items(marker_items),
                'none' if items is None else D.w_items(items), kids]
    if element.tag == 'div':
        return ['div', kids]
    raise D.Unsupported(element.tag)


def list_case(html_text):
    """-> dict(line, impl, hints=[(line, impl)]) or None when outside the model."""
    html, context, counter_style = build(html_text)
    body = html.etree_element.find('body')
    try:
        nodes = [w_node(context.style_for, child) for child in body if isinstance(child.tag, str)]
    except D.Unsupported:
        return None
    hints = []
    for element in body.iter():
        if element.tag in ('ol', 'li'):
            raw = element.get('start' if element.tag == 'ol' else 'value')
            hints.append((sx.line('hint', element.tag, w_attr(raw)),
                          sx.dumps(D.w_ops(D.plain_ops(context.style_for(element)))), raw))
    line = sx.line('lists', 'ua', S.w_table(S.custom_part(counter_style, 'ua')), nodes)
    try:
        obs = [(k, t) for k, t in D.impl_texts(html, context, counter_style) if k in ('marker', 'after')]
        out = D.show_obs(obs)
    except Exception as exc:  # noqa: BLE001
        obs, out = None, f'err:{type(exc).__name__}'
    return {'line': line, 'impl': out, 'obs': obs, 'hints': hints, 'body': body, 'context': context,
            'styles': counter_style}


# ---------------------------------------------------------------- counter() directly

PIECES = ['list-item', 'c', 'd', 'none', 'None', 'initial', 'inherit', '0', '1', '-3', '+2', '7', '1.5', '1e1', '2x',
          '"s"', 'f(x)', '#h', ',']


def cprop_case(rng):
    from weasyprint.css.utils import InvalidValues
    from weasyprint.css.validation.properties import counter
    default = rng.choice([0, 0, 1])
    text = ' '.join(rng.choice(PIECES) for _ in range(rng.choice([1, 1, 2, 2, 3, 4, 5])))
    tokens = [t for t in tinycss2.parse_component_value_list(text) if t.type not in ('whitespace', 'comment')]
    try:
        value = counter(tokens, default)
        out = 'none' if value is None else sx.dumps(D.w_pairs(value))
    except InvalidValues:
        out = 'none'
    except Exception as exc:  # noqa: BLE001
        out = f'err:{type(exc).__name__}'
    return sx.line('cprop', default, [w_htok(t) for t in tokens]), out, text


# ---------------------------------------------------------------- reference (judge only): HTML rules

HTML_INTEGER = re.compile(r'[ \t\n\f\r]*([+-]?[0-9]+)')


def html_integer(raw):
    """https://html.spec.whatwg.org/#rules-for-parsing-integers; None = error."""
    match = HTML_INTEGER.match(raw or '')
    return int(match.group(1)) if match else None


def reference_numbers(body):
    """-> ({li element: ordinal value}, plain): the HTML "ordinal value" algorithm (`reversed` absent) on the
    parsed tree; `plain` = every start / value attribute met is an integer for HTML and CSS alike."""
    numbers, plain = {}, [True]

    def css_integer(raw):
        return re.fullmatch(r'[ \t\n\f\r]*[+-]?[0-9]+[ \t\n\f\r]*', raw or '') is not None

    def walk(element):
        if element.tag in ('ol', 'ul'):
            current = 1
            if element.tag == 'ol' and element.get('start'):
                plain[0] = plain[0] and css_integer(element.get('start'))
                parsed = html_integer(element.get('start'))
                current = 1 if parsed is None else parsed
            for child in element:
                if not isinstance(child.tag, str):
                    continue
                if child.tag == 'li':
                    raw = child.get('value')
                    if raw:
                        plain[0] = plain[0] and css_integer(raw)
                        value = html_integer(raw)
                        if value is not None:
                            current = value
                    numbers[child] = current
                    current += 1
                walk_children(child)
        else:
            walk_children(element)

    def walk_children(element):
        for child in element:
            if isinstance(child.tag, str):
                walk(child)

    walk_children(body)
    return numbers, plain[0]


def pre_order_items(body):
    return [e for e in body.iter() if e.tag == 'li']


def list_clause(html_text):
    """The list clause of C15 on one document: the marker of every `li` prints the ordinal value HTML gives the
    item (in the item's list style, or as the first number of the generated `::marker` content).  None when it
    holds, when the document is outside the model, or when an attribute is not an integer for HTML and CSS alike
    (known finding ol-start-not-integer)."""
    from harness import c15_spec as SP
    case = list_case(html_text)
    if case is None:
        return None
    if case['obs'] is None:
        return f'build_formatting_structure raised {case["impl"]}'
    numbers, plain = reference_numbers(case['body'])
    if not plain:
        return None
    items = pre_order_items(case['body'])
    markers = [t for k, t in case['obs'] if k == 'marker']
    if len(markers) != len(items):
        return None
    parents = {child: parent for parent in case['body'].iter() for child in parent}
    for index, (element, printed) in enumerate(zip(items, markers)):
        if element not in numbers:
            continue
        style = case['context'].style_for(element)
        content = case['context'].style_for(element, 'marker')['content']
        if content in ('normal', 'inhibit'):
            expected = SP.marker(case['styles'], numbers[element], style['list_style_type'])
            if expected is None:
                continue
            ok = printed == expected
        else:
            expected = str(numbers[element])
            ok = printed.split('|')[0] == expected
        if not ok:
            attrs = ''.join(f' {k}="{v}"' for k, v in element.items())
            parent = parents[element]
            pattrs = ''.join(f' {k}="{v}"' for k, v in parent.items())
            return (f'<li{attrs}> (item #{index + 1} of the document, child of <{parent.tag}{pattrs}>) has the marker '
                    f'{printed!r}; HTML gives it the ordinal value {numbers[element]} ({expected!r})')
    return None
