"""A correspondence section that compares numbers exactly first and, failing that, within 1e-9
(DESIGN.md §2.2: such cases are counted as `float_rounding`, never as agreement of a different
structure: the token skeleton must be identical)."""
from fractions import Fraction

from vlib import lean
from vlib.framework import Section


def _num(tok):
    body = tok.split('=', 1)[1] if '=' in tok else tok
    try:
        return Fraction(body)
    except (ValueError, ZeroDivisionError):
        return None


def close(impl, model, tol=Fraction(1, 10**9)):
    """Same token skeleton and every numeric token within tol (relative to max(1, |x|))."""
    a = impl.replace('(', ' ( ').replace(')', ' ) ').split()
    b = model.replace('(', ' ( ').replace(')', ' ) ').split()
    if len(a) != len(b):
        return False
    for x, y in zip(a, b):
        if x == y:
            continue
        if ('=' in x) != ('=' in y) or ('=' in x and x.split('=')[0] != y.split('=')[0]):
            return False
        p, q = _num(x), _num(y)
        if p is None or q is None:
            return False
        if abs(p - q) > tol * max(1, abs(q)):
            return False
    return True


class TolerantSection(Section):
    def __init__(self, run, name, rule):
        super().__init__(run, name, rule)
        self.float_rounding = 0

    def flush(self):
        if not self.lines:
            return
        outs = lean.run_driver(self.run.prop.driver, self.lines)
        for line, impl_out, model_out, meta, nontrivial in zip(
                self.lines, self.impl, outs, self.meta, self.nontrivial):
            self.evaluations += 1
            if nontrivial:
                self.distinct.add(hash(line))
            if len(self.samples) < 3:
                self.samples.append({'section': self.name, 'input': line[:400], 'impl': impl_out[:300],
                                     'model': model_out[:300]})
            if impl_out != model_out:
                if close(impl_out, model_out):
                    self.float_rounding += 1
                    continue
                self.disagreements.append({
                    'section': self.name, 'line': line, 'impl': impl_out, 'model': model_out, 'meta': meta})
        self.lines, self.impl, self.meta, self.nontrivial = [], [], [], []


def tolerant_section(run, name, rule):
    sec = TolerantSection(run, name, rule)
    run.sections.append(sec)
    return sec
