"""C06 document level: generated DOM x stylesheets -> box.style[prop] of the rendered boxes vs the model.

A generated document is a plain dict (JSON-able, kept in replay files):
  device, ph, elements [{id, tag, classes, data, style, align, parent}], sheets [{kind, place, media_text, media,
  tree}], styles {rule id: [selectors, declarations text]}, store {file name: css text}
Rule trees are nested lists:
  ['s', id] style rule | ['e'] rule without valid declaration | ['x'] rule with an invalid selector |
  ['i', media, media_text, sheet | None, variant] @import | ['m', media, media_text, body] @media |
  ['o', text] at-rule that sets ignore_imports | ['g', text] ignored rule
"""
import itertools
import json
from fractions import Fraction

from harness import docs
from harness.cssval import canon, enc, opt, outcome
from harness.snap import SnapSection
from vlib import sx

MEDIA = [('print', ['print']), ('screen', ['screen']), ('all', ['all']), ('screen, print', ['screen', 'print']),
         ('', ['all']), ('PRINT', ['print']), ('speech', ['speech']), ('screen and (x)', None), ('(x)', None)]
OTHER_AT = ['@page{margin:1px}', '@font-face{font-family:zz}', '@counter-style zz{system:cyclic;symbols:a}',
            '@page :first{margin:2px}']
IGNORED = ['@unknown x;', '@unknown{a:b}', '@charset "utf-8";', '@media;', '@counter-style none{system:cyclic;symbols:a}',
           '@page :bogus{margin:1px}', '@import;', '@namespace x "y";']


# ---------------------------------------------------------------------------------------------
# rule trees

def random_rule_tree(rng, counter, depth, top=False, style_ids=None):
    """style_ids: list collecting the ids of the style rules created (document level)."""
    nodes = []
    for _ in range(rng.choice([1, 2, 3, 4] if top else [0, 1, 2, 3])):
        r = rng.random()
        if r < 0.45 or depth == 0 and r < 0.8:
            rid = next(counter)
            if style_ids is not None:
                style_ids.append(rid)
            nodes.append(['s', rid])
        elif r < 0.52:
            nodes.append(['e'])
        elif r < 0.58:
            nodes.append(['x'])
        elif r < 0.75 and depth > 0:
            text, media = rng.choice(MEDIA)
            variant = rng.choice(['string', 'url', 'string', 'missing', 'nourl'])
            sheet = None if variant in ('missing', 'nourl') else random_rule_tree(rng, counter, depth - 1, True, style_ids)
            nodes.append(['i', media, text, sheet, variant])
        elif r < 0.9 and depth > 0:
            text, media = rng.choice(MEDIA)
            nodes.append(['m', media, text, random_rule_tree(rng, counter, depth - 1, False, style_ids)])
        elif r < 0.95:
            nodes.append(['o', rng.choice(OTHER_AT)])
        else:
            nodes.append(['g', rng.choice(IGNORED)])
    if top and rng.random() < 0.5:
        # imports are only honoured at the beginning: make that case frequent
        imports = [n for n in nodes if n[0] == 'i']
        nodes = imports + [n for n in nodes if n[0] != 'i']
    return nodes


def rule_tree_css(tree, store, marker=False, styles=None):
    """CSS text of a rule tree; imported sheets are added to `store`."""
    out = []
    for node in tree:
        kind = node[0]
        if kind == 's':
            rid = node[1]
            if marker:
                n = 1 + rid % 2
                out.append(','.join(f't{rid}s{j}' for j in range(n)) + f'{{z-index:{rid}}}')
            else:
                selectors, decls = styles[str(rid)]
                out.append(', '.join(selectors) + '{' + decls + '}')
        elif kind == 'e':
            out.append('div{bogus-property:1}')
        elif kind == 'x':
            out.append('div:::{z-index:1}')
        elif kind == 'i':
            _, media, text, sheet, variant = node
            name = f's{len(store)}.css'
            if variant == 'nourl':
                out.append(f'@import 3 {text};')
            elif variant == 'missing':
                out.append(f'@import "missing{len(store)}.css" {text};')
            else:
                store[name] = None   # reserve the name
                store[name] = rule_tree_css(sheet, store, marker, styles)
                out.append(f'@import "{name}" {text};' if variant == 'string' else f'@import url({name}) {text};')
        elif kind == 'm':
            _, media, text, body = node
            out.append(f'@media {text}{{' + rule_tree_css(body, store, marker, styles) + '}')
        else:
            out.append(node[1])
    return '\n'.join(out)


def rule_tree_wire(tree, nsel=None):
    out = []
    for node in tree:
        kind = node[0]
        if kind == 's':
            rid = node[1]
            out.append(['s', rid, (1 + rid % 2) if nsel is None else nsel[str(rid)]])
        elif kind in ('e', 'x'):
            out.append(kind)
        elif kind == 'i':
            _, media, _, sheet, _ = node
            out.append(['i', opt(media), 'none' if sheet is None else rule_tree_wire(sheet, nsel)])
        elif kind == 'm':
            out.append(['m', opt(node[1]), rule_tree_wire(node[3], nsel)])
        else:
            out.append(kind)
    return out


def matcher_entries(matcher):
    entries = list(matcher.other_selectors) + list(matcher.lang_attr_selectors)
    for table in (matcher.id_selectors, matcher.class_selectors, matcher.lower_local_name_selectors,
                  matcher.namespace_selectors):
        for group in table.values():
            entries.extend(group)
    return sorted(entries, key=lambda e: e[2])


def matcher_sequence(matcher):
    """The add_selector calls of the marker sheets, in order, as `id.selector-index`."""
    seq = []
    for name, group in matcher.lower_local_name_selectors.items():
        for test, spec, order, pseudo, payload in group:
            rid = payload[0][1]
            seq.append((order, f'{rid}.{name.split("s")[1]}'))
    return [s for _, s in sorted(seq)]


# ---------------------------------------------------------------------------------------------
# documents

ATTR_MEDIA = ['print', 'screen', 'all', 'screen, print', '', 'speech', ' print ', 'screen,speech', 'tv, all',
              'PRINT', 'Print', 'SCREEN', 'Screen, PRINT', 'ALL', ' All ', 'screen ,Print', 'tv,,print', ',', 'print,',
              '\tprint', 'pr int', 'SPEECH,TV']


def attr_media(text):
    """The media list of a media attribute as HTML / media queries define it (comma-separated, ASCII
    case-insensitive media types): used by the oracle.  The model derives its own list from the raw text
    (`StyleDoc.attrMedia`, mirror of the three lines of `find_stylesheets`)."""
    return [m.strip().lower() for m in (text.strip() or 'all').split(',')]


def w_attr_media(text):
    """The raw attribute text on the wire: (attr <code point> ...)."""
    return ['attr'] + [ord(c) for c in text]


TAGS = ['div', 'p', 'span', 'section', 'article', 'div', 'p']
DECLS = {
    'color': ['red', 'blue', 'green', 'inherit', 'initial', 'currentcolor'],
    'font-size': ['10px', '20px', '1.5em', '2rem', '150%', '50%', 'larger', 'smaller', 'small', 'x-large', 'inherit',
                  'initial', '0.5in', '12pt', '0.75em', '1cm', '5mm', '1pc', 'xx-small', 'large', '2ex', '1.5ch'],
    'font-weight': ['normal', 'bold', 'bolder', 'lighter', '100', '500', '900', 'inherit', 'initial'],
    'width': ['auto', '10px', '2em', '50%', '1rem', 'inherit', 'initial', '1in', '0', '2cm', '15mm', '40q', '6pt',
              '3ex', '2ch', '0.5ch'],
    'margin-left': ['auto', '4px', '1.5em', '25%', '-1rem', 'inherit', '2ex', '1ch'],
    'font-family': ['DejaVu Sans', 'DejaVu Serif', 'DejaVu Sans Mono', 'monospace', 'inherit'],
    'font-style': ['normal', 'italic'],
    'margin': ['1px 2px', '1em', 'auto', '0 auto 1rem'],
    'padding-top': ['0', '4px', '1em', '12.5%'],
    'text-indent': ['8px', '2em', '1rem', '50%', 'inherit', 'initial', '1.5ex', '2ch'],
    'letter-spacing': ['normal', '2px', '0.25em', 'inherit'],
    'word-spacing': ['normal', '4px', '0.5em'],
    'line-height': ['normal', '1.5', '2', '150%', '20px', '2em', 'inherit', '3ex'],
    'border-top-width': ['thin', 'medium', 'thick', '2px', '0.5em', 'inherit'],
    'border-top-style': ['none', 'solid', 'hidden', 'dotted', 'inherit'],
    'border-top': ['2px solid red', 'thick dotted', 'none', '1em double'],
    'outline-width': ['thin', '4px', '1em'],
    'outline-style': ['none', 'solid'],
    'break-before': ['auto', 'always', 'page', 'avoid', 'left'],
    'break-after': ['auto', 'always', 'right', 'avoid-page'],
    'page-break-before': ['always', 'avoid', 'auto'],
    'display': ['block', 'inline', 'inline-block', 'inline-flex', 'list-item', 'flex', 'inline list-item', 'flow-root',
                'inherit', 'initial'],
    'float': ['none', 'left', 'right', 'inherit'],
    'position': ['static', 'relative', 'absolute', 'inherit'],
    'visibility': ['visible', 'hidden', 'collapse', 'inherit', 'initial'],
    'white-space': ['normal', 'pre', 'nowrap', 'pre-line', 'inherit'],
    'text-align': ['left', 'center', 'justify', 'right'],
    'orphans': ['1', '3', 'inherit'],
    'z-index': ['auto', '1', '7', '-2'],
    'opacity': ['1', '0.5', '0.25'],
    'column-gap': ['normal', '8px', '1em'],
    'tab-size': ['8', '2', '12px', '1em'],
    'vertical-align': ['baseline', 'super', 'sub', 'top', '2px', '0.5em'],
    'text-decoration-line': ['none', 'underline', 'overline underline', 'line-through'],
    'text-decoration-style': ['solid', 'double', 'wavy'],
    'min-height': ['auto', '4px', '1em', '0'],
    'top': ['auto', '3px', '1em', '10%'],
    'text-underline-offset': ['auto', '2px', '0.25em'],
    'page': ['auto', 'chapter', 'index'],
    'border-spacing': ['0', '2px', '1em 0.5em', '1rem', 'inherit'],
    'border-top-left-radius': ['0', '4px', '1em 50%', '25%'],
    'border-radius': ['2px', '1em / 10%'],
    'background-position': ['left top', 'left 1em top 10%', '50% 2px', 'right 1rem bottom 0'],
    'transform-origin': ['1em 2em', 'left top', '50% 50% 2px'],
    'background-size': ['auto', 'cover', '1em auto, contain', '50% 2rem'],
    'border-image-slice': ['10', '10 20% fill', '1 2 3 4'],
    'border-image-width': ['1', 'auto', '2 10% auto', '2em', '1ex 2ch', '3pt 1rem 0'],
    'border-image-outset': ['0', '1 2px', '0.5em'],
    'border-image-repeat': ['stretch', 'round space'],
    'transform': ['none', 'translate(1em, 2px)', 'translate(10%) scale(2)'],
    'bookmark-label': ['content(text)', 'attr(id) "z"', '"a"'],
    'string-set': ['none', 'a content(text)', 'b "x" attr(id)'],
    'clip': ['auto', 'rect(1px, auto, 1em, 2px)'],
    '-weasy-lang': ['none', '"fr"', 'attr(lang)'],
    'grid-template-columns': ['none', '1fr 2em', '[a] 10px [b c] minmax(1em, 1fr)', 'repeat(2, 1em auto)', 'fit-content(2rem) auto',
                              'minmax(min-content, 2em) 10%', 'repeat(auto-fill, minmax(3em, 1fr))'],
    'grid-template-rows': ['none', '2em', '[r] 1em [s] 2rem', 'subgrid'],
    'grid-auto-rows': ['auto', '2em', 'minmax(1em, auto) 3rem', 'fit-content(1em)', 'min-content 1fr'],
    'grid-auto-columns': ['auto', '1.5em 10px'],
    # commit c151619: a negative factor is invalid and must not replace an earlier valid declaration
    'flex-grow': ['0', '1', '2.5', '-1', '-0.5'],
    'flex-shrink': ['1', '0', '3', '-1'],
    'flex': ['1', '2 1', '-1', '1 -1', 'none'],
    'text-overflow': ['clip', 'ellipsis'],
    'image-orientation': ['none', 'from-image', '90deg', '180deg flip'],
    'unicode-bidi': ['normal', 'embed', 'isolate'],
    # not `overflow`: build.set_viewport_overflow moves it from <html> / <body> to the viewport (CSS 2.1 11.1.1),
    # so box.style of those boxes is not the cascade's result
    'box-sizing': ['content-box', 'border-box'],
    'caption-side': ['top', 'bottom'],
    'empty-cells': ['show', 'hide'],
    'hyphens': ['manual', 'none', 'auto'],
    'text-transform': ['none', 'uppercase'],
    'list-style-position': ['outside', 'inside'],
    # commit e161f80: `image` is the computing function of these three (lengths inside gradients; other values unchanged)
    'list-style-image': ['none', 'url(x.png)', 'inherit'],
    'border-image-source': ['none', 'url(y.png)'],
}
# keys read on every element whatever the declarations
ALWAYS_KEYS = ['color', 'font_size', 'font_weight', 'width', 'text_indent', 'line_height', 'display', 'float',
               'position', 'visibility', 'border_top_width', 'break_before', 'text_decoration_line', 'page', 'z_index',
               'anchor', 'lang', 'content', 'border_spacing', 'text_align_all', 'margin_left']


def random_document(rng):
    counter = itertools.count(1)
    n = rng.randint(1, 6)
    elements = []
    for k in range(n):
        parent = None if k == 0 or rng.random() < 0.3 else rng.randrange(k)
        tag = rng.choice(TAGS)
        if parent is not None and elements[parent]['tag'] in ('p', 'span'):
            tag = 'span'      # the HTML parser would move a block out of a <p>
        elements.append({
            'id': f'e{k}', 'tag': tag, 'parent': parent,
            'classes': sorted(rng.sample(['c0', 'c1', 'c2'], rng.choice([0, 1, 1, 2]))),
            'data': rng.choice([None, None, 'u', 'v']), 'style': None, 'lang': rng.choice([None, None, None, 'de', 'en']),
            'align': rng.choice([None, None, None, 'center', 'right', 'middle', 'justify']) if tag in ('div', 'p') else None})
    styles = {}

    def selector_for(target):
        el = elements[target]
        simple = [el['tag'], f'#{el["id"]}', '*', f'{el["tag"]}#{el["id"]}', ':not(.zz)', f':is({el["tag"]}, .zz)']
        simple += [f'.{c}' for c in el['classes']] + [f'{el["tag"]}.{c}' for c in el['classes']]
        if len(el['classes']) == 2:
            simple.append('.' + '.'.join(el['classes']))
        if el['data']:
            simple += ['[data-k]', f'[data-k={el["data"]}]', f'{el["tag"]}[data-k="{el["data"]}"]']
        sel = rng.choice(simple)
        r = rng.random()
        if r < 0.3:
            anc = el['parent']
            if anc is not None:
                a = elements[anc]
                left = rng.choice([a['tag'], f'#{a["id"]}', '*'] + [f'.{c}' for c in a['classes']])
                sel = f'{left} {rng.choice([">", " "])} {sel}'
            else:
                sel = f'{rng.choice(["body", "html body", "body >", "html"])} {sel}'
        elif r < 0.4:
            sel += rng.choice([':first-child', ':last-child', ':only-child', ':nth-child(2)', ':empty', ':root'])
        if rng.random() < 0.15:
            sel += rng.choice(['::before', '::after'])
        return sel

    def declarations(pseudo=False):
        parts = []
        for _ in range(rng.choice([1, 1, 2, 3])):
            name = rng.choice(list(DECLS))
            parts.append(f'{name}:{rng.choice(DECLS[name])}{" !important" if rng.random() < 0.25 else ""}')
        if rng.random() < 0.04:
            parts.append('bogus-property:1')
        return ';'.join(parts)

    def make_styles(ids):
        for rid in ids:
            selectors = [selector_for(rng.randrange(n)) for _ in range(rng.choice([1, 1, 1, 2]))]
            decls = declarations()
            if any('::' in s for s in selectors):
                decls += ';content:"x"'
            styles[str(rid)] = [selectors, decls]

    sheets = []
    for kind in ['ua'] * rng.choice([0, 1, 1]) + ['author'] * rng.choice([1, 1, 2, 3]) + ['user'] * rng.choice([0, 1, 1]):
        ids = []
        tree = random_rule_tree(rng, counter, depth=1 if kind != 'author' else 2, top=True, style_ids=ids)
        make_styles(ids)
        text = rng.choice(ATTR_MEDIA) if kind == 'author' and rng.random() < 0.35 else None
        media = None if text is None else attr_media(text)
        sheet = {'kind': kind, 'place': rng.choice(['style', 'link']) if kind == 'author' else kind,
                 'media_text': text, 'media': media, 'tree': tree}
        if kind == 'author' and rng.random() < 0.3:
            # attributes find_stylesheets looks at: type, rel, href
            sheet['type'] = rng.choice([None, 'text/css', 'text/css; charset=utf-8', ' text/css ', 'text/plain', 'text/x-css'])
            if sheet['place'] == 'link':
                sheet['rel'] = rng.choice(['stylesheet', 'STYLESHEET', 'alternate stylesheet', 'stylesheet Alternate',
                                           'icon', 'x stylesheet y', 'style-sheet'])
                sheet['href'] = rng.choice(['ok', 'ok', 'ok', 'none', 'missing'])
        sheets.append(sheet)
    for el in elements:
        if rng.random() < 0.35:
            el['style'] = declarations()
    return {'device': rng.choice(['print', 'print', 'screen']), 'ph': rng.random() < 0.4, 'elements': elements,
            'sheets': sheets, 'styles': styles, 'store': {}}


def element_html(doc, k):
    el = doc['elements'][k]
    attrs = f' id={el["id"]}'
    if el['classes']:
        attrs += f' class="{" ".join(el["classes"])}"'
    if el['data']:
        attrs += f' data-k={el["data"]}'
    if el['align']:
        attrs += f' align={el["align"]}'
    if el.get('lang'):
        attrs += f' lang={el["lang"]}'
    if el['style']:
        attrs += ' style="' + el['style'].replace('"', '&quot;') + '"'
    kids = ''.join(element_html(doc, j) for j, e in enumerate(doc['elements']) if e['parent'] == k)
    return f'<{el["tag"]}{attrs}>t{k}{kids}</{el["tag"]}>'


def build(doc):
    """-> (html text, ua css texts, user css texts, store); fills doc['store']."""
    store = doc['store'] = {}
    head, ua, user = [], [], []
    for sheet in doc['sheets']:
        text = rule_tree_css(sheet['tree'], store, styles=doc['styles'])
        sheet['text'] = text
        media = '' if sheet['media_text'] is None else f' media="{sheet["media_text"]}"'
        if sheet.get('type') is not None:
            media += f' type="{sheet["type"]}"'
        if sheet['kind'] == 'ua':
            ua.append(text)
        elif sheet['kind'] == 'user':
            user.append(text)
        elif sheet['place'] == 'style':
            head.append(f'<style{media}>{text}</style>')
        else:
            name = f'l{len(store)}.css'
            store[name] = text if sheet.get('href', 'ok') != 'missing' else None
            href = '' if sheet.get('href') == 'none' else f' href="{name}"'
            head.append(f'<link rel="{sheet.get("rel", "stylesheet")}"{href}{media}>')
    body = ''.join(element_html(doc, k) for k, e in enumerate(doc['elements']) if e['parent'] is None)
    return f'<html><head>{"".join(head)}</head><body>{body}</body></html>', ua, user


def run_pipeline(doc):
    """The steps of Document._render, keeping the LayoutContext.  -> (html object, style_for, page boxes)."""
    from weasyprint import CSS, DEFAULT_OPTIONS
    from weasyprint.css.counters import CounterStyle
    from weasyprint.document import Document
    from weasyprint.formatting_structure.build import build_formatting_structure
    from weasyprint.layout import layout_document
    from weasyprint.urls import URLFetchingError
    text, ua_texts, user_texts = build(doc)
    store = doc['store']

    def fetch(url):
        name = url.rsplit('/', 1)[-1]
        if store.get(name) is None:
            raise URLFetchingError('no such sheet')
        return {'string': store[name].encode(), 'mime_type': 'text/css'}
    VHTML, _, font_config = docs._env()
    device = doc['device']
    extra_ua = [CSS(string=t, media_type=device, url_fetcher=fetch, base_url='http://mem/') for t in ua_texts]

    class H(VHTML):
        def _ua_stylesheets(self, forms=False):
            return super()._ua_stylesheets(forms) + extra_ua
    html = H(string=text, base_url='http://mem/', url_fetcher=fetch, media_type=device)
    user = [CSS(string=t, media_type=device, url_fetcher=fetch, base_url='http://mem/') for t in user_texts]
    options = dict(DEFAULT_OPTIONS)
    options['stylesheets'] = user
    options['presentational_hints'] = doc['ph']
    counter_style = CounterStyle()
    context = Document._build_layout_context(html, font_config, counter_style, options)
    root_box = build_formatting_structure(
        html.etree_element, context.style_for, context.get_image_from_uri, html.base_url,
        context.target_collector, counter_style, context.footnotes)
    pages = list(layout_document(html, root_box, context))
    return html, context.style_for, pages, extra_ua, user


def real_sheet_rules(css, counter):
    """A real CSS object's matcher as model rules: [(rule id, test, specificity, pseudo, payload)] in order."""
    return [(next(counter), test, spec, pseudo, payload) for test, spec, order, pseudo, payload in
            matcher_entries(css.matcher)]


def declarations_of(text):
    """[(name, value, important)] of a declaration block text, through the real validators."""
    import tinycss2
    from weasyprint.css.validation import preprocess_declarations
    return list(preprocess_declarations('http://mem/', tinycss2.parse_blocks_contents(text)))


def w_decl(name, value, important):
    return [name, ['val', enc(value)], bool(important)]


EX_CH = __import__('re').compile(r'[0-9.](ex|ch)\b')


def uses_ex_ch(doc):
    texts = [decls for _, decls in doc['styles'].values()] + [e['style'] for e in doc['elements'] if e['style']]
    return any(EX_CH.search(t) for t in texts)


def model_input(doc, html, observed=None):
    """The model's view of the document: (doc s-expression, {element id: element s-expression}, paths).
    observed: {(element key, pseudo): (style, where)}; when the document uses ex / ch lengths every element carries
    the character ratios of its own style, measured on an empty cache (Pango is a parameter of the model)."""
    import cssselect2
    from weasyprint.css.utils import Pending
    from weasyprint.html import HTML5_PH_STYLESHEET
    wrappers = {w.etree_element.get('id'): w for w in html.wrapper_element.iter_subtree()
                if w.etree_element.get('id')}
    root = html.wrapper_element
    body = next(w for w in root.iter_subtree() if w.local_name == 'body')
    wrappers['@html'], wrappers['@body'] = root, body
    counter = itertools.count(100000)
    sheets_w, rule_decls, hits = [], [], {key: [] for key in wrappers}
    VHTML, _, _ = docs._env()
    base_ua = VHTML(string='<p>')._ua_stylesheets()
    fixed = [('ua', css) for css in base_ua] + ([('ph', HTML5_PH_STYLESHEET)] if doc['ph'] else [])

    def add_hits(index, rid, sel_index, test, spec, pseudo):
        for key, wrapper in wrappers.items():
            if test(wrapper):
                hits[key].append([index, rid, sel_index, list(spec), opt(pseudo)])
    for kind, css in fixed:
        index = len(sheets_w)
        rules = []
        for rid, test, spec, pseudo, payload in real_sheet_rules(css, counter):
            if any(isinstance(v, Pending) for _, v, _ in payload):
                continue
            rules.append(['s', rid, 1])
            rule_decls.append([rid, [w_decl(*d) for d in payload]])
            add_hits(index, rid, 0, test, spec, pseudo)
        sheets_w.append([kind, 'none', rules])
    nsel = {}
    for rid, (selectors, decl_text) in doc['styles'].items():
        decls = declarations_of(decl_text)
        rule_decls.append([int(rid), [w_decl(*d) for d in decls]])
        nsel[rid] = len(selectors)
    for sheet in doc['sheets']:
        index = len(sheets_w)
        sheets_w.append([sheet['kind'], 'none' if sheet['kind'] != 'author' or sheet['media_text'] is None
                         else w_attr_media(sheet['media_text']),
                         rule_tree_wire(sheet['tree'], nsel)] + ([sheet_elem_wire(sheet)] if sheet['kind'] == 'author' else []))
        for rid in style_ids_of(sheet['tree']):
            selectors, _ = doc['styles'][str(rid)]
            for j, selector in enumerate(cssselect2.compile_selector_list(', '.join(selectors))):
                add_hits(index, rid, j, selector.test, selector.specificity, selector.pseudo_element)
    doc_w = [doc['device'], doc['ph'], sheets_w, rule_decls]
    elems_w = {}
    ratios = None
    if observed is not None and uses_ex_ch(doc):
        from harness.c06_real import Ratios
        ratios = Ratios()
    for key in wrappers:
        blocks = []
        el = next((e for e in doc['elements'] if e['id'] == key), None)
        if el is not None:
            if el['style']:
                blocks.append([[1, 0, 0, 0], [w_decl(*d) for d in declarations_of(el['style'])]])
            if doc['ph'] and el['tag'] == 'div' and el['align']:
                align = 'center' if el['align'] == 'middle' else el['align']
                blocks.append([[0, 0, 0, 0], [w_decl(*d) for d in declarations_of(f'text-align:{align}')]])
        elems_w[key] = [blocks, hits[key], [[k, enc(v)] for k, v in wrappers[key].etree_element.attrib.items()
                                            if k in ('id', 'lang', 'title', 'name')]]
        if ratios is not None and (key, None) in observed:
            elems_w[key].append(['%', *ratios.of(observed[(key, None)][0])])
    return doc_w, elems_w


def pseudo_ratios(doc, style):
    """The (ex, ch) arguments of `docstyle`: the ratios of the pseudo-element's own style."""
    if uses_ex_ch(doc):
        from harness.c06_real import Ratios
        return Ratios().of(style)
    return Fraction(1, 2), Fraction(1, 2)


def sheet_elem_wire(sheet):
    """(mime isLink hasHref (rel tokens) fetchOk): the attribute values as find_stylesheets extracts them."""
    mime = (sheet.get('type') if sheet.get('type') is not None else 'text/css').split(';', 1)[0].strip()
    return [mime.replace(' ', '_') or '_', sheet['place'] == 'link', sheet.get('href', 'ok') != 'none',
            sheet.get('rel', 'stylesheet').split(), sheet.get('href', 'ok') != 'missing']


def sheet_applies_by_spec(sheet, device):
    """HTML: a <style>/<link> sheet applies iff its type is text/css, its media matches, and (for <link>) rel
    contains `stylesheet` (ASCII case-insensitively) without `alternate`, with an href that can be fetched."""
    mime = (sheet.get('type') if sheet.get('type') is not None else 'text/css').split(';', 1)[0].strip()
    if mime != 'text/css':
        return False
    if sheet['media'] is not None and not ('all' in sheet['media'] or device in sheet['media']):
        return False
    if sheet['place'] == 'link':
        rels = [r.lower() for r in sheet.get('rel', 'stylesheet').split()]
        return 'stylesheet' in rels and 'alternate' not in rels and sheet.get('href', 'ok') == 'ok'
    return True


def style_ids_of(tree):
    out = []
    for node in tree:
        if node[0] == 's':
            out.append(node[1])
        elif node[0] == 'i' and node[3] is not None:
            out.extend(style_ids_of(node[3]))
        elif node[0] == 'm':
            out.extend(style_ids_of(node[3]))
    return out


def path_of(doc, key):
    """Element keys from the element up to the root."""
    if key == '@html':
        return ['@html']
    if key == '@body':
        return ['@body', '@html']
    path, k = [], int(key[1:])
    while k is not None:
        path.append(f'e{k}')
        k = doc['elements'][k]['parent']
    return path + ['@body', '@html']


def declared_keys(doc):
    keys = set(ALWAYS_KEYS)
    texts = [decls for _, decls in doc['styles'].values()] + [e['style'] for e in doc['elements'] if e['style']]
    for text in texts:
        for name, value, _ in declarations_of(text):
            keys.add(name)
    return sorted(keys)


def observed_styles(doc, html, style_for, pages):
    """{(element key, pseudo): (style, 'box' | 'style_for')} for every computed style of the document."""
    by_obj = {}
    for page in pages:
        for box in page.descendants():
            by_obj.setdefault(id(box.style), box.style)
    out = {}
    for (element, pseudo), style in style_for._computed_styles.items():
        if not hasattr(element, 'tag'):
            continue        # page types
        if element is html.etree_element:
            key = '@html'
        elif element.tag == 'body':
            key = '@body'
        else:
            key = element.get('id')
        if key is None or pseudo not in (None, 'before', 'after'):
            continue
        out[(key, pseudo)] = (style, 'box' if id(style) in by_obj else 'style_for')
    return out


def document_section(run):
    sec = SnapSection(
        run, 'documents',
        'generated DOMs (1..6 elements) x UA / user / author (<style>, <link> and @import served by a memory '
        'fetcher, @media, media attributes, style attributes, presentational hints) sheets of 1..8 rules whose '
        'selectors (type, class, id, attribute, descendant, child, structural pseudo-classes, :is/:not, ::before / '
        '::after) are drawn for elements of the document, with and without !important; rendered through the steps of '
        'Document._render; box.style[key] of the laid-out boxes (style_for(element) when the element generates no '
        'box) for every declared key and 15 fixed keys vs the model fed with the rule trees, the cssselect2 match '
        'facts and the validated declarations; non-trivial = the element has a cascaded declaration for the key, or '
        'the key is inherited')
    from weasyprint.css.properties import INHERITED
    done = 0
    for _ in range(run.n(190, 4000)):
        doc = random_document(run.rng)
        try:
            html, style_for, pages, _, _ = run_pipeline(doc)
        except Exception as exc:  # noqa: BLE001
            run.notes.append(f'document pipeline raised {type(exc).__name__}: {exc}; doc={json.dumps(doc)[:300]}')
            continue
        done += 1
        observed = observed_styles(doc, html, style_for, pages)
        doc_w, elems_w = model_input(doc, html, observed)
        keys = declared_keys(doc)
        for (key, pseudo), (style, where) in sorted(observed.items(), key=str):
            path = path_of(doc, key)
            out = ' '.join(f'{k}=' + outcome(lambda: style[k]) for k in keys)
            cascaded = getattr(style, 'cascaded', {})
            ex, ch = pseudo_ratios(doc, style) if pseudo else (Fraction(1, 2), Fraction(1, 2))
            sec.add(sx.line('docstyle', doc_w, ex, ch, [elems_w[p] for p in path], opt(pseudo), keys),
                    out, meta={'doc': doc, 'element': key, 'pseudo': pseudo, 'keys': keys,
                               'signature': f'doc:{key}:{pseudo}:{hash(out) % 10 ** 8}'},
                    nontrivial=any(k in cascaded or k in INHERITED for k in keys),
                    tags=[where, f'depth{len(path)}', 'pseudo' if pseudo else 'element',
                          f'cascaded{min(len(cascaded), 9)}'] + (['ex-ch'] if len(elems_w[path[0]]) == 4 else []))
    run.extra['documents_rendered'] = done
    sec.flush()


# ---------------------------------------------------------------------------------------------
# conflicting declarations: every ordered pair / triple of carriers competing for one property of one element

PLACES = ['ua', 'user', 'A', 'A-import', 'A-media', 'B', 'C', 'attr', 'ph']
SELECTORS = ['p', '.c', '#e0', '*', 'body p', 'p.c']
VALUES = ['left', 'right', 'justify', 'end']


def carrier_kinds():
    kinds = []
    for place in PLACES:
        if place == 'ph':
            kinds.append(('ph', None, False))
        elif place == 'attr':
            kinds += [('attr', None, False), ('attr', None, True)]
        else:
            kinds += [(place, sel, imp) for sel in SELECTORS for imp in (False, True)]
    return kinds


def conflict_document(carriers, device='print'):
    """carriers: [(place, selector, important)]; the i-th one declares text-align: VALUES[i]
    (`ph` is <p align=center>).  Skeleton: UA sheet; author <style> A = @import I, rules, @media print {rules};
    author <link> B; author <style> C; user sheet; style attribute."""
    styles, trees, counter = {}, {p: [] for p in PLACES}, itertools.count(1)
    attr = []
    for i, (place, selector, imp) in enumerate(carriers):
        decl = f'text-align:{VALUES[i]}{" !important" if imp else ""}'
        if place == 'attr':
            attr.append(decl)
        elif place != 'ph':
            rid = next(counter)
            styles[str(rid)] = [[selector], decl]
            trees[place].append(['s', rid])
    sheets = []
    if trees['ua']:
        sheets.append({'kind': 'ua', 'place': 'ua', 'media_text': None, 'media': None, 'tree': trees['ua']})
    tree_a = []
    if trees['A-import']:
        tree_a.append(['i', ['all'], 'all', trees['A-import'], 'string'])
    tree_a += trees['A']
    if trees['A-media']:
        tree_a.append(['m', ['print'], 'print', trees['A-media']])
    if tree_a:
        sheets.append({'kind': 'author', 'place': 'style', 'media_text': None, 'media': None, 'tree': tree_a})
    if trees['B']:
        sheets.append({'kind': 'author', 'place': 'link', 'media_text': None, 'media': None, 'tree': trees['B']})
    if trees['C']:
        sheets.append({'kind': 'author', 'place': 'style', 'media_text': 'print', 'media': ['print'], 'tree': trees['C']})
    if trees['user']:
        sheets.append({'kind': 'user', 'place': 'user', 'media_text': None, 'media': None, 'tree': trees['user']})
    has_ph = any(c[0] == 'ph' for c in carriers)
    element = {'id': 'e0', 'tag': 'p', 'parent': None, 'classes': ['c'], 'data': None,
               'style': ';'.join(attr) or None, 'align': 'center' if has_ph else None}
    return {'device': device, 'ph': has_ph, 'elements': [element], 'sheets': sheets, 'styles': styles, 'store': {}}


def conflict_section(run):
    sec = SnapSection(
        run, 'conflict-documents',
        'documents in which 2 (thorough: all ordered pairs; also triples) declarations of text-align compete on one '
        'element, each carried by one of: UA sheet, user sheet, author <style> (rule / @import-ed rule / rule inside '
        '@media), author <link>, a second <style media>, the style attribute, a presentational hint; x selector '
        '(type, class, id, universal, descendant, compound) x !important; box.style of the rendered <p>; '
        'non-trivial = all')
    kinds = carrier_kinds()
    combos = []
    if run.thorough:
        combos = list(itertools.product(kinds, repeat=2))
        triples = list(itertools.product(kinds, repeat=3))
        combos += run.rng.sample(triples, 4000)
    else:
        def pick():
            place = run.rng.choice(PLACES)
            return run.rng.choice([k for k in kinds if k[0] == place])
        for _ in range(240):
            k = run.rng.choice([2, 2, 3])
            first = pick()
            combo = [first]
            for _ in range(k - 1):
                nxt = pick()
                if nxt[1] is not None and first[1] is not None and run.rng.random() < 0.5:
                    nxt = (nxt[0], first[1], first[2] if run.rng.random() < 0.6 else nxt[2])   # equal weight: order decides
                combo.append(nxt)
            combos.append(tuple(combo))
    keys = ['text_align_all', 'text_align_last']
    for combo in combos:
        if sum(1 for c in combo if c[0] == 'ph') > 1:
            continue
        doc = conflict_document(list(combo))
        try:
            html, style_for, pages, _, _ = run_pipeline(doc)
        except Exception as exc:  # noqa: BLE001
            run.notes.append(f'conflict document raised {type(exc).__name__}: {exc}; {combo}')
            continue
        doc_w, elems_w = model_input(doc, html)
        observed = observed_styles(doc, html, style_for, pages)
        style, where = observed[('e0', None)]
        out = ' '.join(f'{k}=' + outcome(lambda: style[k]) for k in keys)
        sec.add(sx.line('docstyle', doc_w, Fraction(1, 2), Fraction(1, 2), [elems_w[p] for p in path_of(doc, 'e0')], 'none', keys),
                out, meta={'doc': doc, 'element': 'e0', 'pseudo': None, 'keys': keys, 'combo': [list(map(str, c)) for c in combo],
                           'signature': f'conflict:{combo}'},
                tags=[where, f'arity{len(combo)}'] + sorted({c[0] for c in combo}))
    sec.flush()


# ---------------------------------------------------------------------------------------------
# oracle: the property statement on a generated document, independent of the Lean model

ORACLE_KEYS = ['color', 'visibility', 'white_space', 'orphans', 'z_index', 'font_size', 'font_weight', 'width',
               'text_indent', 'break_before', 'border_top_style', 'opacity', 'float', 'border_top_width', 'text_align_all',
               'margin_left', 'line_height', 'text_decoration_line', 'page', 'background_position', 'border_spacing',
               'border_top_left_radius']


# CSS 2.1 / css-values / css-fonts-3 constants of the oracle (its own copy, not the implementation's tables)
SPEC_LENGTHS = {'px': 1, 'in': 96, 'pt': 96 / 72, 'pc': 16, 'cm': 96 / 2.54, 'mm': 96 / 25.4, 'q': 96 / 101.6}
SPEC_FONT_SIZES = {'xx-small': 16 * 3 / 5, 'x-small': 16 * 3 / 4, 'small': 16 * 8 / 9, 'medium': 16, 'large': 16 * 6 / 5,
                   'x-large': 16 * 3 / 2, 'xx-large': 32}
SPEC_FONT_WEIGHT = {
    'bolder': {100: 400, 200: 400, 300: 400, 400: 700, 500: 700, 600: 900, 700: 900, 800: 900, 900: 900},
    'lighter': {100: 100, 200: 100, 300: 100, 400: 100, 500: 100, 600: 400, 700: 400, 800: 700, 900: 700}}
SPEC_BORDER_WIDTHS = {'thin': 1, 'medium': 3, 'thick': 5}      # unspecified beyond thin <= medium <= thick
SPEC_INHERITED = {'color', 'visibility', 'white_space', 'orphans', 'font_size', 'font_weight', 'text_indent',
                  'text_align_all', 'line_height', 'border_spacing'}
SPEC_INITIAL = {'color': 'black', 'visibility': 'visible', 'white_space': 'normal', 'orphans': 2, 'z_index': 'auto',
                'font_size': 16, 'font_weight': 400, 'width': 'auto', 'text_indent': ('px', 0), 'break_before': 'auto',
                'border_top_style': 'none', 'opacity': 1, 'float': 'none', 'position': 'static',
                'border_top_width': 3, 'text_align_all': 'start', 'margin_left': ('px', 0), 'line_height': 'normal',
                'text_decoration_line': 'none', 'page': 'auto'}


def spec_initial(name):
    from tinycss2.color4 import parse_color
    from weasyprint.css.properties import Dimension
    if name == 'background_position':
        return (('left', Dimension(0, '%'), 'top', Dimension(0, '%')),)
    if name == 'border_spacing':
        return (0, 0)
    if name == 'border_top_left_radius':
        return (Dimension(0, 'px'), Dimension(0, 'px'))
    value = SPEC_INITIAL[name]
    if name == 'color':
        return parse_color('black')
    if isinstance(value, tuple):
        return Dimension(value[1], value[0])
    return value


def oracle_flatten(tree, device, allow_imports=True):
    """css-cascade: @import only before any other rule; @media by media type.  -> style rule ids in order."""
    out = []
    for node in tree:
        kind = node[0]
        if kind == 's':
            out.append(node[1])
            allow_imports = False
        elif kind == 'e':
            allow_imports = False
        elif kind == 'i':
            _, media, _, sheet, _ = node
            if allow_imports and sheet is not None and media is not None and ('all' in media or device in media):
                out.extend(oracle_flatten(sheet, device, True))
        elif kind == 'm':
            if node[1] is not None:
                allow_imports = False
                if 'all' in node[1] or device in node[1]:
                    out.extend(oracle_flatten(node[3], device, False))
        elif kind == 'o':
            allow_imports = False
    return out


def oracle_styles(doc, html, rank, reference_winner, observed=None):
    """{(element key, None): {key: expected value}} for ORACLE_KEYS on the generated elements.
    observed: the real styles, used only to ask Pango (on an empty cache) for the ex / ch ratios of an element's font."""
    import cssselect2
    from weasyprint.css.properties import Dimension
    INHERITED, INITIAL_VALUES = SPEC_INHERITED, SPEC_INITIAL
    FONT_SIZE_KEYWORDS, FONT_WEIGHT_RELATIVE, LENGTHS_TO_PIXELS = SPEC_FONT_SIZES, SPEC_FONT_WEIGHT, SPEC_LENGTHS
    from weasyprint.html import HTML5_PH_STYLESHEET
    wrappers = {w.etree_element.get('id'): w for w in html.wrapper_element.iter_subtree()
                if w.etree_element.get('id')}
    wrappers['@html'] = html.wrapper_element
    wrappers['@body'] = next(w for w in html.wrapper_element.iter_subtree() if w.local_name == 'body')
    VHTML, _, _ = docs._env()
    candidates = {(key, pseudo): [] for key in wrappers for pseudo in (None, 'before', 'after')}
    # (name, value, origin, important, is_attr, spec)
    fixed = [('user agent', css) for css in VHTML(string='<p>')._ua_stylesheets()]
    if doc['ph']:
        fixed.append(('ph', HTML5_PH_STYLESHEET))

    def add(key, origin, spec, decls, is_attr=False, pseudo=None):
        if pseudo not in (None, 'before', 'after'):
            return
        for name, value, imp in decls:
            candidates[(key, pseudo)].append((name, value, 'author' if origin == 'ph' else origin, bool(imp), is_attr,
                                    (0, 0, 0) if origin == 'ph' else tuple(spec)))
    # source order: UA sheets, then hints (lowest author), then author sheets in document order, user sheets
    ordered = [s for s in doc['sheets'] if s['kind'] == 'ua']
    for origin, css in fixed:
        if origin == 'ph':
            continue
        for test, spec, order, pseudo, payload in matcher_entries(css.matcher):
            for key, w in wrappers.items():
                if test(w):
                    add(key, origin, spec, payload, pseudo=pseudo)
    origin_of = {'ua': 'user agent', 'author': 'author', 'user': 'user'}

    def add_sheet(sheet):
        if sheet['kind'] == 'author' and not sheet_applies_by_spec(sheet, doc['device']):
            return
        for rid in oracle_flatten(sheet['tree'], doc['device']):
            selectors, decl_text = doc['styles'][str(rid)]
            decls = declarations_of(decl_text)
            for selector in cssselect2.compile_selector_list(', '.join(selectors)):
                for key, w in wrappers.items():
                    if selector.test(w):
                        add(key, origin_of[sheet['kind']], selector.specificity, decls, pseudo=selector.pseudo_element)
    for sheet in ordered:
        add_sheet(sheet)
    if doc['ph']:
        for el in doc['elements']:
            if el['tag'] == 'div' and el['align']:
                align = 'center' if el['align'] == 'middle' else el['align']
                add(el['id'], 'ph', (0, 0, 0), declarations_of(f'text-align:{align}'))
        for test, spec, order, pseudo, payload in matcher_entries(HTML5_PH_STYLESHEET.matcher):
            for key, w in wrappers.items():
                if test(w):
                    add(key, 'ph', (0, 0, 0), payload, pseudo=pseudo)
    for sheet in doc['sheets']:
        if sheet['kind'] == 'author':
            add_sheet(sheet)
    for el in doc['elements']:
        if el['style']:
            add(el['id'], 'author', (0, 0, 0), declarations_of(el['style']), is_attr=True)
    for sheet in doc['sheets']:
        if sheet['kind'] == 'user':
            add_sheet(sheet)

    expected = {}

    def computed(key, name):
        """key = (element key, pseudo) or None (no parent)."""
        if isinstance(key, str):
            key = (key, None)
        if (key, name) in expected:
            return expected[(key, name)]
        if key[1] is not None:
            parent = (key[0], None)         # a pseudo-element inherits from its element
        else:
            path = path_of(doc, key[0])
            parent = (path[1], None) if len(path) > 1 else None
        decls = [(v, o, i, a, s) for n, v, o, i, a, s in candidates[key] if n == name]
        value = reference_winner(decls) if decls else ('inherit' if name in INHERITED else 'initial')
        def olen(v, pixels=False):
            """css-values: a <length> computes to px (em / rem against the element's / the root's font size)."""
            if not isinstance(v, Dimension):
                return v
            if v.value == 0:
                return 0 if pixels else Dimension(0, 'px')
            if v.unit == 'em':
                px = v.value * computed(key, 'font_size')
            elif v.unit == 'rem':
                px = v.value * computed('@html', 'font_size')
            elif v.unit in LENGTHS_TO_PIXELS:
                px = v.value * LENGTHS_TO_PIXELS[v.unit]
            elif v.unit in ('ex', 'ch') and observed is not None and key in observed:
                # css-values: 1ex = the x-height, 1ch = the advance of "0", of the element's own font
                from harness.c06_real import fresh_ratio
                px = v.value * computed(key, 'font_size') * fresh_ratio(observed[key][0], 'x' if v.unit == 'ex' else '0')
            else:
                return v
            return px if pixels else Dimension(px, 'px')
        if name == 'page':
            # css-page-3: `auto` uses the value of the nearest ancestor, the empty name at the root
            own = 'auto' if value in ('initial', 'inherit') else value
            result = own if own != 'auto' else (computed(parent, name) if parent else '')
        elif name == 'background_position' and value not in ('inherit', 'initial'):
            result = tuple((ox, olen(px), oy, olen(py)) for ox, px, oy, py in value)
        elif name == 'border_spacing' and value not in ('inherit', 'initial'):
            result = tuple(olen(v, pixels=True) for v in value)
        elif name == 'border_top_left_radius' and value not in ('inherit', 'initial'):
            result = tuple(olen(v) for v in value)
        elif name == 'text_decoration_line':
            # propagated to descendants (css-text-decor-3 §2.1), modelled by the code as a union
            own = 'none' if value in ('initial', 'none') else value
            above = computed(parent, name) if parent else 'none'
            result = own if above == 'none' else (above if own == 'none' else set(own) | set(above))
        elif value == 'inherit' and name == 'float':
            result = None       # `float: inherit` is stored without applying CSS 2.1 9.7 (not judged)
        elif value == 'inherit':
            result = computed(parent, name) if parent else spec_initial(name)
        elif value == 'initial':
            result = spec_initial(name)
        elif name == 'font_size':
            base = computed(parent, 'font_size') if parent else INITIAL_VALUES['font_size']
            sizes = list(FONT_SIZE_KEYWORDS.values())
            if value in FONT_SIZE_KEYWORDS:
                result = FONT_SIZE_KEYWORDS[value]
            elif value == 'larger':
                result = next((s for s in sizes if s > base), base * 1.2)
            elif value == 'smaller':
                result = next((s for s in reversed(sizes) if s < base), base * 0.8)
            elif value.unit == '%':
                result = value.value * base / 100
            elif value.unit == 'em':
                result = value.value * base
            elif value.unit == 'rem':
                result = value.value * (computed('@html', 'font_size') if parent else INITIAL_VALUES['font_size'])
            elif value.unit in ('ex', 'ch'):
                if observed is None or key not in observed:
                    result = None
                else:
                    from harness.c06_real import fresh_ratio
                    result = value.value * base * fresh_ratio(observed[key][0], 'x' if value.unit == 'ex' else '0')
            else:
                result = value.value * LENGTHS_TO_PIXELS[value.unit]
        elif name == 'font_weight':
            base = computed(parent, 'font_weight') if parent else INITIAL_VALUES['font_weight']
            if value in ('bolder', 'lighter'):
                result = FONT_WEIGHT_RELATIVE[value][base]
            else:
                result = {'normal': 400, 'bold': 700}.get(value, value)
        elif name == 'line_height':
            if value == 'normal':
                result = value
            elif value.unit is None:
                result = ('NUMBER', value.value)
            elif value.unit == '%':
                result = ('PIXELS', value.value / 100 * computed(key, 'font_size'))
            elif value.unit == 'em':
                result = ('PIXELS', value.value * computed(key, 'font_size'))
            elif value.unit in ('ex', 'ch'):
                result = ('PIXELS', olen(value, pixels=True)) if value.value else ('PIXELS', 0)
            elif value.unit == 'rem':
                result = ('PIXELS', value.value * computed('@html', 'font_size'))
            else:
                result = ('PIXELS', value.value * LENGTHS_TO_PIXELS[value.unit])
        elif name in ('width', 'text_indent', 'margin_left') and isinstance(value, Dimension):
            result = olen(value)
        elif name == 'break_before':
            result = 'page' if value == 'always' else value
        elif name == 'border_top_width':
            if value in SPEC_BORDER_WIDTHS:
                result = SPEC_BORDER_WIDTHS[value]
            elif value.value == 0:
                result = 0
            elif value.unit == 'em':
                result = value.value * computed(key, 'font_size')
            elif value.unit == 'rem':
                result = value.value * computed('@html', 'font_size')
            else:
                result = value.value * LENGTHS_TO_PIXELS[value.unit]
        elif name == 'float':
            result = value
        else:
            result = value
        if name == 'float' and result is not None and computed(key, 'position') in ('absolute', 'fixed'):
            result = 'none'
        if name == 'border_top_width':
            if value == 'inherit':
                result = None       # stored without computing (known finding inherit-skips-computed-value)
            elif computed(key, 'border_top_style') in ('none', 'hidden'):
                result = 0
        expected[(key, name)] = result
        return result
    out = {}
    for el in doc['elements']:
        for pseudo in (None, 'before', 'after'):
            if pseudo is None or candidates[(el['id'], pseudo)]:
                out[(el['id'], pseudo)] = {name: computed((el['id'], pseudo), name) for name in ORACLE_KEYS}
    return out


def same(a, b):
    from weasyprint.css.properties import Dimension
    if isinstance(a, tuple) and isinstance(b, tuple) and not isinstance(a, Dimension) and not isinstance(b, Dimension):
        return len(a) == len(b) and all(same(x, y) for x, y in zip(a, b))
    if isinstance(a, (set, frozenset)) or isinstance(b, (set, frozenset)):
        return not isinstance(a, str) and not isinstance(b, str) and set(a) == set(b)
    if isinstance(a, Dimension) and isinstance(b, Dimension):
        return a.unit == b.unit and same(a.value, b.value)
    if isinstance(a, (int, float)) and isinstance(b, (int, float)):
        return abs(a - b) <= 1e-9 * max(1, abs(a), abs(b))
    return a == b


def css_related(exc):
    """Did the exception come out of weasyprint/css (cascade, computed values)?  Layout crashes on the
    generated documents belong to C02, not to this property."""
    import traceback
    frames = traceback.extract_tb(exc.__traceback__)
    return any('/weasyprint/css/' in f.filename for f in frames)


UNRELATED_CRASHES = []
CRASH_DOCS = []


LEFTOVER = __import__('re').compile(r'dim:[-0-9/]+:(em|rem|ex|ch|pt|pc|in|cm|mm|q)\b')


def leftover_unit(style, keys):
    """css-values §4: the computed value of a <length> is an absolute length (px): no em / rem / ex / ch / pt / …
    may be left in any computed value.  -> (key, canonical value) | None"""
    for name in keys:
        try:
            text = canon(style[name])
        except Exception:  # noqa: BLE001 - reported by the other clauses
            continue
        if LEFTOVER.search(text):
            return name, text
    return None


def leftover_unit_violation(doc, observed):
    keys = [k for k in declared_keys(doc) if k != 'border_top_width']     # inherit-skips-computed-value is about widths
    for (key, pseudo), (style, where) in sorted(observed.items(), key=str):
        hit = leftover_unit(style, keys)
        if hit:
            return (f'{where}.style[{hit[0]!r}] of #{key}{"::" + pseudo if pseudo else ""} is {hit[1]}: a length in a relative '
                    f'or non-px unit is left in the computed value (the computed value of a <length> is in px)')
    return None


def document_violation(doc, rank, reference_winner):
    """Render the document and compare box.style with the oracle.  -> text | None"""
    try:
        html, style_for, pages, _, _ = run_pipeline(doc)
    except Exception as exc:  # noqa: BLE001
        if css_related(exc):
            return f'computing the styles of the document raised {type(exc).__name__}: {exc}'
        UNRELATED_CRASHES.append(f'{type(exc).__name__}: {exc}')
        CRASH_DOCS.append(doc)
        return None
    observed = observed_styles(doc, html, style_for, pages)
    want = oracle_styles(doc, html, rank, reference_winner, observed)
    leftover = leftover_unit_violation(doc, observed)
    if leftover:
        return leftover
    for (key, pseudo), (style, where) in sorted(observed.items(), key=str):
        if (key, pseudo) not in want:
            continue
        for name, expected in want[(key, pseudo)].items():
            if expected is None:
                continue
            try:
                got = style[name]
            except Exception as exc:  # noqa: BLE001
                return f'{where}.style[{name!r}] of #{key} raised {type(exc).__name__}: {exc}'
            if not same(got, expected):
                return (f'{where}.style[{name!r}] of #{key}{"::" + pseudo if pseudo else ""} is {got!r}, the cascade / inheritance / computed-value '
                        f'rules of CSS give {expected!r}')
    return None


# ---------------------------------------------------------------------------------------------
# judge / search / replay

def judge_all_properties(meta, impl):
    """absence / inherit / initial / failed var() for any property, stated directly."""
    from weasyprint.css.computed_values import COMPUTER_FUNCTIONS
    from weasyprint.css.properties import INHERITED, INITIAL_NOT_COMPUTED, INITIAL_VALUES
    key, own, parent = meta['key'], meta['own'], meta['parent']
    has_parent = parent is not None
    parent_declares = bool(parent)
    if key.startswith('text_decoration_') or key == 'page':
        return None             # propagated, not inherited
    inherits = own == 'inherit' or (own in ('absent', 'pending-invalid', 'anonymous') and key in INHERITED)
    if inherits and has_parent and parent_declares and key not in COMPUTER_FUNCTIONS:
        want = 'kw:sentinel-value'
    elif key in INITIAL_NOT_COMPUTED or (inherits and has_parent):
        return None             # needs the computing functions: judged elsewhere
    else:
        want = canon(INITIAL_VALUES[key])
    got = impl.split('=', 1)[1]
    if got != want:
        return (f'{key} with {own} on {"a child of a root that " + ("declares it" if parent_declares else "does not declare it") if has_parent else "the root"}: '
                f'value {got}, inheritance / initial value rules give {want}')
    return None


def judge(d, reference_winner, reference_page_match, rank):
    section, meta = d['section'], d.get('meta') or {}
    impl = d['impl']
    if section == 'all-properties':
        return judge_all_properties(meta, impl)
    if section == 'regressions':
        from harness.c06_real import judge_regression
        return judge_regression(meta, impl)
    if section == 'spec-tables':
        from harness.c06_real import judge_spec
        return judge_spec(meta, impl, d['model'])
    if section == 'presentational-hints':
        from harness.c06_real import judge_hints
        return judge_hints(meta, impl)
    if section == 'css-wide-keywords':
        from harness.c06_real import judge_css_wide
        return judge_css_wide(meta, impl, d['model'])
    if section == 'character-ratio-cache':
        from harness.c06_real import judge_ratio
        return judge_ratio(meta, impl)
    if section == 'var-documents':
        from harness.c06_real import ex_ch_violation
        if meta.get('crash'):
            return f'computing the styles of {meta["html"]} raised {meta["crash"]}' if meta.get('css_related') else None
        return ex_ch_violation(meta['html'])
    if section == 'declaration-precedence':
        key = (meta['origin'], meta['importance'])
        if key in rank and impl != str(rank[key]):
            others = {k: v for k, v in rank.items()}
            return (f'declaration_precedence{key} = {impl}: the order user agent < user < author < author !important < '
                    f'user !important requires the rank of {others}')
        return None
    if section == 'cascade-pairs':
        return judge_pair(meta, impl, reference_winner)
    if section == 'page-type-match':
        from weasyprint.css import PageSelectorType
        from weasyprint.layout.page import PageType
        sel = PageSelectorType(*[tuple(x) if isinstance(x, list) else x for x in meta['sel']])
        p = meta['page']
        page = PageType(p[0], p[1], p[2], p[3], tuple(tuple(g) for g in p[4]))
        want = reference_page_match(sel, page)
        if impl.startswith('err:'):
            return f'_page_type_match({sel}, {page}) raised {impl}; css-page-3 gives {want}'
        if impl != ('true' if want else 'false'):
            return f'_page_type_match({sel}, {page}) = {impl}; css-page-3 gives {want}'
        return None
    if section in ('documents', 'conflict-documents'):
        return document_violation(meta['doc'], rank, reference_winner)
    if section == 'computed-values':
        return judge_computed(meta, impl)
    return None


def judge_pair(meta, impl, reference_winner):
    decls = []
    attrs = [c for c in meta['combo'] if c[0] == 'attr']
    others = [c for c in meta['combo'] if c[0] != 'attr']
    values = {id(c): i for i, c in enumerate(meta['combo'], start=1)}
    # source order: hints sheet, author sheets; the style attribute outranks selectors anyway
    for c in others + attrs:
        kind, origin, imp, spec = c
        imp = imp == 'True'
        if kind == 'attr':
            decls.append((values[id(c)], 'author', imp, True, (0, 0, 0)))
        else:
            spec3 = (0, 0, 0) if kind == 'phsheet' else tuple(int(x) for x in spec.strip('()').split(','))
            decls.append((values[id(c)], origin, imp, False, spec3))
    # within equal keys the later *applied* wins: sheets are applied in list order, attributes first
    want = reference_winner(decls)
    got = impl.split('=num:')[1].split('@')[0] if '=num:' in impl else impl
    if got != str(want):
        return f'declarations {meta["combo"]} (values 1..n in this order): value {got} wins, the cascade selects {want}'
    return None


def judge_computed(meta, impl):
    """A few clauses stated directly on single values."""
    fn, value = meta.get('fn'), meta.get('value', '')
    sig = meta.get('signature', '')
    if not impl.startswith('err:') and LEFTOVER.search(impl):
        # css-values §4 (theorem C06.length_absolute_result on the model): no computing function may leave a
        # font-relative or non-px absolute length in its result
        return (f'{fn}({meta.get("key") or "width"}, {value}) returns {impl}: a length in a relative or non-px unit is left '
                f'in the computed value')
    if fn == 'border_width' and sig.split(':')[1:2] and sig.split(':')[1] in ('none', 'hidden') and impl != 'num:0':
        return f'{meta.get("key")} computes to {impl} although the border style is {sig.split(":")[1]} (must be 0)'
    if fn == 'compute_float' and ("'absolute'" in sig or "'fixed'" in sig or sig.endswith(':absolute') or
                                  sig.endswith(':fixed')) and impl != 'kw:none':
        return f'float computes to {impl} on an absolutely positioned box (must be none)'
    if fn == 'break_before_after' and value == "'always'" and impl != 'kw:page':
        return f'break-*: always computes to {impl}, not page'
    if fn in ('border_image_slice', 'border_image_width', 'border_image_outset') and impl.startswith('tup['):
        # four-value expansion: 1 value -> all sides, 2 -> (vertical, horizontal), 3 -> left = right
        try:
            from fractions import Fraction
            from weasyprint.css.properties import Dimension
            given = eval(value, {'Dimension': Dimension, 'Fraction': Fraction})     # noqa: S307 - repr of a generated value
        except Exception:  # noqa: BLE001
            given = None
        if isinstance(given, tuple):
            n = len([v for v in given if v != 'fill'])
            out = impl[4:-1].split('|')
            sides = out[:4]
            want = {1: [0, 0, 0, 0], 2: [0, 1, 0, 1], 3: [0, 1, 2, 1]}.get(n)
            if want and len(sides) == 4 and any(sides[i] != sides[j] for i, j in enumerate(want)):
                return (f'{meta.get("key")}: {value} expands to {sides}; top/right/bottom/left must be taken from the '
                        f'given values at positions {want}')
    if fn == 'content' and value in ("('normal',)", "('none',)"):
        want = 'kw:inhibit' if value == "('none',)" or meta.get('pseudo') else 'kw:contents'
        if impl != want:
            return f'content {value} on {"a pseudo-element" if meta.get("pseudo") else "an element"} computes to {impl}, not {want}'
    if fn == 'font_weight' and value in ("'bolder'", "'lighter'") and 'parent_weight' in meta:
        # css-fonts-3 §3.2: relative weights against the inherited weight (400 on the root)
        parent = 400 if meta['parent_weight'] is None else meta['parent_weight']
        want = SPEC_FONT_WEIGHT[value.strip("'")].get(parent) if isinstance(parent, int) else None
        if want is not None and impl != f'num:{want}':
            return (f'font-weight: {value.strip(chr(39))} with an inherited weight of {parent} computes to {impl}; '
                    f'CSS gives {want}')
    if fn == 'border_image_width' and impl.startswith('tup['):
        # css-backgrounds-3: a <length> item computes to an absolute length (px), numbers / percentages / auto are kept
        for side in impl[4:-1].split('|'):
            parts = side.split(':')
            if parts[0] == 'dim' and parts[2] not in ('px', '%'):
                return f'{meta.get("key")}: {value} computes to {impl}: the length {side} is not computed to px'
    if fn in ('grid_template', 'grid_auto') and impl.startswith(('tup[', 'strs:')):
        # css-grid-1 §7.2: a <length> track size computes to an absolute length; fr / % / keywords are kept
        import re
        left = re.findall(r'dim:[-0-9/]+:(em|rem|ex|ch|pt|pc|in|cm|mm|q)\b', impl)
        if left:
            return f'{meta.get("key")}: {value} computes to {impl}: a track size in {left[0]} is not computed to px'
    if fn == 'font_weight' and value in ("'normal'", "'bold'"):
        want = {"'normal'": 'num:400', "'bold'": 'num:700'}[value]
        if impl != want:
            return f'font-weight {value} computes to {impl}, not {want}'
    return None


PAGE_SELECTORS = [('', (0, 0, 0)), (':first', (0, 1, 0)), (':left', (0, 0, 1)), (':right', (0, 0, 1)),
                  (':first:right', (0, 1, 1)), (':first:left', (0, 1, 1))]


def page_selector_matches(selector, index):
    side = 'right' if index % 2 == 0 else 'left'
    if ':first' in selector and index != 0:
        return False
    if ':left' in selector and side != 'left':
        return False
    if ':right' in selector and side != 'right':
        return False
    return True


def page_document_violation(rng, reference_winner):
    """Three pages, @page rules from author (two sheets) and user origins competing for margin-top."""
    from weasyprint import CSS
    counter = itertools.count(1)
    sheets = {'author1': [], 'author2': [], 'user': []}
    decls = []      # (value, origin, important, False, specificity, selector) in source order
    for place in ('author1', 'author2', 'user'):
        for _ in range(rng.randint(0, 3)):
            selector, spec = rng.choice(PAGE_SELECTORS)
            imp = rng.random() < 0.3
            value = next(counter)
            sheets[place].append(f'@page {selector}{{margin-top:{value}px{" !important" if imp else ""}}}')
            decls.append((value, 'user' if place == 'user' else 'author', imp, False, spec, selector))
    html = (f'<style>{" ".join(sheets["author1"])}</style><style>{" ".join(sheets["author2"])}</style>'
            '<p>a</p><p style="break-before:page">b</p><p style="break-before:page">c</p>')
    case = {'html': html, 'user_stylesheet': ' '.join(sheets['user']), 'decls': [list(d) for d in decls],
            'section': 'pages'}
    return page_case_violation(case, reference_winner), case


def page_case_violation(case, reference_winner):
    from weasyprint import CSS
    decls = [(d[0], d[1], d[2], d[3], tuple(d[4]), d[5]) for d in case['decls']]
    user = [CSS(string=case['user_stylesheet'])] if case['user_stylesheet'] else []
    try:
        document = docs.html(case['html']).render(stylesheets=user)
    except Exception as exc:  # noqa: BLE001
        return f'rendering raised {type(exc).__name__}: {exc}' if css_related(exc) else None
    for index, page in enumerate(document.pages):
        candidates = [d[:5] for d in decls if page_selector_matches(d[5], index)]
        if not candidates:
            continue
        want = reference_winner(candidates)
        got = page._page_box.style['margin_top']
        if getattr(got, 'value', got) != want:
            return (f'page {index + 1}: margin-top is {got!r}, the cascade over the matching @page rules '
                    f'{[(d[5], d[0], d[1], d[2]) for d in decls if page_selector_matches(d[5], index)]} gives {want}px')
    return None


def search(run, failures, reference_winner):
    """Fresh generated documents judged by the oracle (document level, implementation only)."""
    import time
    from props.c06 import RANK
    docs.quiet()
    found, start = [], time.time()
    budget = 40 if not run.thorough else 240
    # the initial values themselves (theorem C06.initial_values_absolute on the generated table)
    from weasyprint.css.properties import INITIAL_VALUES
    for key, value in INITIAL_VALUES.items():
        if LEFTOVER.search(canon(value)):
            html = '<p>x</p>'
            what = (f'INITIAL_VALUES[{key!r}] is {canon(value)}: box.style[{key!r}] of the <p> of {html} (no declaration) '
                    f'holds a length in a relative or non-px unit (the computed value of a <length> is in px)')
            found.append({'what': what, 'input': {'meta': {'html': html, 'key': key}, 'html': html, 'section': 'initial-values'},
                          'signature': f'initial-leftover:{key}'})
    while time.time() - start < budget and len(found) < 3:
        doc = random_document(run.rng)
        run.search_stats['evaluations'] += 1
        what = document_violation(doc, RANK, reference_winner)
        if what:
            html, _, _ = build(doc)
            found.append({'what': what, 'input': {'meta': {'doc': doc}, 'html': html, 'section': 'documents'},
                          'signature': what[:80]})
        if run.search_stats['evaluations'] % 4 == 0:
            what, case = page_document_violation(run.rng, reference_winner)
            if what:
                found.append({'what': what, 'input': case, 'signature': what[:80]})
        if run.search_stats['evaluations'] % 2 == 0:
            from harness import c06_real
            text = c06_real.var_document(run.rng)
            what = c06_real.ex_ch_violation(text)
            if what:
                found.append({'what': what, 'input': {'meta': {'html': text}, 'html': text, 'section': 'var-documents'},
                              'signature': what[:80]})
    return found


def replay(data, reference_winner, reference_page_match, rank):
    """Re-run the recorded input on the implementation; -> what fails | None."""
    inp = data.get('input', {})
    meta = inp.get('meta') or {}
    section = inp.get('section')
    if 'doc' in meta:
        return document_violation(meta['doc'], rank, reference_winner)
    if section == 'regressions':
        from harness import c06_real
        _, out = c06_real.run_case(meta['case'])
        return c06_real.judge_regression(meta, out)
    if section == 'css-wide-keywords':
        from harness import c06_real
        return c06_real.replay_css_wide(meta)
    if section == 'initial-values':
        from weasyprint.css.properties import INITIAL_VALUES
        value = INITIAL_VALUES[meta['key']]
        return f'INITIAL_VALUES[{meta["key"]!r}] is {canon(value)}' if LEFTOVER.search(canon(value)) else None
    if section == 'spec-tables':
        from harness import c06_real
        return c06_real.replay_spec(meta)
    if section == 'character-ratio-cache':
        from harness import c06_real
        return c06_real.replay_ratio(meta)
    if section in ('var-documents', 'ex-ch-documents'):
        from harness import c06_real
        return c06_real.ex_ch_violation(meta['html'])
    if section == 'computed-values' and meta.get('fn') == 'font_weight' and isinstance(meta.get('parent_weight', ''), (int, type(None))):
        from weasyprint.css import computed_values as cv
        from props.c06 import FakeStyle
        parent = None if meta['parent_weight'] is None else {'font_weight': meta['parent_weight']}
        style = FakeStyle({}, parent_style=parent, root_style={'font_size': 16})
        value = eval(meta['value'], {})     # noqa: S307 - repr of a generated keyword / integer
        out = outcome(lambda: cv.font_weight(style, 'font_weight', value))
        return judge_computed(meta, out)
    if section == 'pages':
        return page_case_violation(inp, reference_winner)
    if section == 'page-type-match':
        from weasyprint.css import PageSelectorType, StyleFor
        from weasyprint.layout.page import PageType
        sel = PageSelectorType(*[tuple(x) if isinstance(x, list) else x for x in meta['sel']])
        p = meta['page']
        page = PageType(p[0], p[1], p[2], p[3], tuple(tuple(g) for g in p[4]))
        out = outcome(lambda: StyleFor._page_type_match(sel, page), render=lambda b: 'true' if b else 'false')
        return judge(dict(inp, impl=out), reference_winner, reference_page_match, rank)
    if section == 'declaration-precedence':
        from weasyprint import css
        out = outcome(lambda: css.declaration_precedence(meta['origin'], meta['importance']), render=str)
        return judge(dict(inp, impl=out), reference_winner, reference_page_match, rank)
    if section == 'cascade-pairs':
        from props.c06 import run_pair
        combo = [(c[0], None if c[1] == 'None' else c[1], c[2] == 'True',
                  None if c[3] == 'None' else tuple(int(x) for x in c[3].strip('()').split(','))) for c in meta['combo']]
        out = run_pair(combo)[0]
        return judge(dict(inp, impl=out), reference_winner, reference_page_match, rank)
    return None


def replay_inherit_skips_computing():
    """known finding: an inherited value is stored without applying the computing function."""
    doc = docs.render('<body><div style="border-top:5px solid"><p id=x style="border-top-width:inherit">a</p></div>')
    for box in doc.pages[0]._page_box.descendants():
        if box.element_tag == 'p' and box.element is not None and box.element.get('id') == 'x':
            return box.style['border_top_style'] == 'none' and box.style['border_top_width'] != 0
    return False
