"""C05: export the used values of every box of a rendered document as the tree read by the verified checker
`lean/WpModel/Model/UsedCheck.lean` (command `used`), and classify what the checker rejects.

A box is a *flow* box when `block_level_width` / `block_container_layout` laid it out as an in-flow child of a
block container: a non-replaced BlockBox (not a table wrapper, not a flex / grid item, not a column box, not
relatively positioned) whose parent is a BlockBox that is not a multi-column container, a table cell, an
inline-block or the page.
"""
import collections
import math
from fractions import Fraction as F

from vlib import sx

EPS = F(1, 1024)

FIELDS = ['position_x', 'position_y', 'width', 'height', 'margin_left', 'margin_right', 'margin_top',
          'margin_bottom', 'padding_left', 'padding_right', 'padding_top', 'padding_bottom',
          'border_left_width', 'border_right_width', 'border_top_width', 'border_bottom_width']


def num(v, default=0):
    """Exact rational of a used value; `auto` / missing -> default."""
    if isinstance(v, str) or v is None:
        return F(default)
    if isinstance(v, float):
        if math.isnan(v) or math.isinf(v):
            raise ValueError(f'non-finite used value {v}')
        return F(v)
    return F(v)


def opt_max(v):
    if v is None or isinstance(v, str):
        return 'inf'
    if isinstance(v, float) and (math.isinf(v) or math.isnan(v)):
        return 'inf'
    return F(v)


def is_multicol(box):
    style = box.style
    return style['column_width'] != 'auto' or style['column_count'] != 'auto'


def kind_of(box, parent, boxes):
    if isinstance(box, boxes.LineBox):
        return 'line'
    if not box.is_in_normal_flow():
        return 'oof'
    if not isinstance(box, boxes.BlockBox) or box.is_table_wrapper or box.is_flex_item or box.is_grid_item:
        return 'other'
    if box.is_column or box.style['position'] == 'relative' or box.is_running():
        return 'other'
    if isinstance(parent, boxes.PageBox):
        return 'flow'
    if isinstance(parent, (boxes.BlockBox, boxes.TableCellBox, boxes.InlineBlockBox)):
        if isinstance(parent, boxes.BlockBox) and is_multicol(parent) and not parent.is_column:
            return 'other'
        return 'flow'
    return 'other'


def export(box, parent, boxes, counts, stats):
    style = box.style
    kind = kind_of(box, parent, boxes)
    stats[kind] += 1
    vals = [num(getattr(box, f, 0)) for f in FIELDS]

    def auto(name):
        try:
            return style[name] == 'auto'
        except Exception:  # noqa: BLE001
            return False
    whole = counts[id(box.element)] == 1 and box.element is not None and not box.remove_decoration_sides
    row = vals + [num(getattr(box, 'min_width', 0)), opt_max(getattr(box, 'max_width', None)),
                  num(getattr(box, 'min_height', 0)), opt_max(getattr(box, 'max_height', None)),
                  auto('margin_left'), auto('margin_right'), auto('width'), auto('height'),
                  kind, style['direction'] == 'rtl', bool(whole)]
    kids = []
    if not isinstance(box, boxes.LineBox) and hasattr(box, 'children'):
        for child in box.children:
            if hasattr(child, 'position_x') and hasattr(child, 'width') and not isinstance(child, boxes.TextBox):
                kids.append(export(child, box, boxes, counts, stats))
    return [row, kids]


def page_lines(document):
    """-> [(protocol line, stats)] one per page."""
    from weasyprint.formatting_structure import boxes
    counts = collections.Counter()
    for page in document.pages:
        seen = set()
        for box in page._page_box.descendants():
            if isinstance(box, boxes.BlockBox) and box.element is not None and id(box) not in seen:
                seen.add(id(box))
                counts[id(box.element)] += 1
    out = []
    for page in document.pages:
        page_box = page._page_box
        root = page_box.children[0]
        stats = collections.Counter()
        tree = export(root, page_box, boxes, counts, stats)
        cx = num(page_box.position_x) + num(page_box.margin_left) + num(page_box.border_left_width) + \
            num(page_box.padding_left)
        line = sx.line('used', EPS, cx, num(page_box.width), page_box.style['direction'] == 'rtl', tree)
        out.append((line, stats))
    return out


def flat(tree, out=None):
    """Preorder rows of an exported tree."""
    out = [] if out is None else out
    out.append(tree[0])
    for k in tree[1]:
        flat(k, out)
    return out


# ---------------------------------------------------------------------------------------------
# cases and classification

def wide_cases(rng, adversarial=False):
    """Render one wide-grammar document (harness/widegen.py; rtl and roomier pages mixed in here) and return
    [(line, meta, tags)] one per page, or [(None, meta, tags)] when rendering raised (C02's business)."""
    import re
    from harness import docs, widegen
    doc = widegen.gen(rng, adversarial=adversarial)
    html = doc['html']
    rtl = rng.random() < .35
    if rtl:
        html = html.replace('body{font-size', 'body{direction:rtl;font-size', 1)
    if rng.random() < .6:       # a page that holds several lines: the stacking clauses are about placed content
        height = rng.choice([60, 100, 200, 400])
        html = re.sub(r'@page\{size:(\d+)px \d+px', lambda m: f'@page{{size:{m.group(1)}px {height}px', html, 1)
    try:
        with docs.time_limit(20):
            document = docs.render(html)
            pages = page_lines(document)
    except Exception as exc:  # noqa: BLE001
        return [(None, {'html': html, 'error': type(exc).__name__}, ['render-error'])]
    out = []
    for index, (line, stats) in enumerate(pages):
        info = page_info(document.pages[index])
        meta = {'html': html, 'page_index': index, 'rtl': rtl, 'features': doc['features'], **info}
        tags = list(doc['features']) + ['rtl' if rtl else 'ltr', f'flow{min(stats["flow"] // 5 * 5, 30)}']
        if info['line_overflows']:
            tags.append('first-line-overflows-page')
        out.append((line, meta, tags, stats))
    return out


# ---------------------------------------------------------------------------------------------
# metamorphic pair "uniform translation" (Model/UsedShift.lean, command `shifted`)

SHIFTS = [(16, 0), (0, 8), (32, 64), (8, 24), (64, 16)]


def shifted_html(html, dx, dy):
    """The same document with its page area moved by (dx, dy): page size and left / top page margins grown by
    (dx, dy), so the content box keeps its size and every box must move by exactly (dx, dy)."""
    import re

    def rep(m):
        w, h, mg = int(m.group(1)), int(m.group(2)), int(m.group(3))
        return f'@page{{size:{w + dx}px {h + dy}px;margin:{mg + dy}px {mg}px {mg}px {mg + dx}px}}'
    out, n = re.subn(r'@page\{size:(\d+)px (\d+)px;margin:(\d+)px\}', rep, html, 1)
    if n != 1:
        raise ValueError('no @page rule of the expected form')
    return out


def shift_lines(html, dx, dy):
    """Render `html` and its translated twin -> [(line, stats)] one per page, or a string when the two
    renderings do not have the same number of pages."""
    from harness import docs
    first = docs.render(html)
    second = docs.render(shifted_html(html, dx, dy))
    if len(first.pages) != len(second.pages):
        return f'pages {len(first.pages)} {len(second.pages)}'
    out = []
    for (line_a, stats), (line_b, _) in zip(page_lines(first), page_lines(second)):
        tree_a, tree_b = sx.loads_line(line_a)[5], sx.loads_line(line_b)[5]
        out.append((sx.line('shifted', EPS, dx, dy, tree_a, tree_b), stats))
    return out


def position_doc(rng):
    """A small document made of the constructs whose placement reads absolute coordinates: empty and zero-height
    floats, floats on both sides, clearance, absolutely / fixed / relatively positioned boxes with auto and
    explicit offsets, nested in blocks with margins and paddings (float.py avoid_collisions, get_clearance,
    absolute.py, block.py relative_positioning)."""
    def px(*choices):
        return f'{rng.choice(choices)}px'

    def item(depth):
        r = rng.random()
        side = rng.choice(['left', 'right'])
        if r < .2:
            return (f'<div style="float:{side};width:{px(0, 10, 30)};height:{px(0, 0, 8)};'
                    f'margin:{px(0, 0, 3)}"></div>')
        if r < .35:
            return f'<div style="float:{side};width:{px(20, 40)}">f{rng.randrange(9)}</div>'
        if r < .5:
            offs = ''.join(f'{k}:{px(0, 4, 12)};' for k in ('left', 'top', 'right', 'bottom') if rng.random() < .3)
            return (f'<div style="position:{rng.choice(["absolute", "absolute", "fixed"])};{offs}'
                    f'width:{px(10, 25)};height:{px(0, 5)}"></div>')
        if r < .6:
            return f'<div style="position:relative;left:{px(0, 3, -2)};top:{px(0, 5)}">r{rng.randrange(9)}</div>'
        if r < .7:
            return f'<div style="clear:{rng.choice(["both", "left", "right"])}">c{rng.randrange(9)}</div>'
        if r < .85 or depth >= 2:
            return f'<p>w{rng.randrange(99)} w{rng.randrange(99)} w{rng.randrange(99)}</p>'
        inner = ''.join(item(depth + 1) for _ in range(rng.choice([1, 2, 3])))
        rel = 'position:relative;' if rng.random() < .3 else ''
        return f'<div style="{rel}margin:{px(0, 4)} {px(0, 6)};padding:{px(0, 0, 3)}">{inner}</div>'
    body = ''.join(item(0) for _ in range(rng.choice([2, 3, 4, 6])))
    width, height, margin = rng.choice([100, 160]), rng.choice([60, 120, 300]), rng.choice([0, 2, 5])
    html = (f'<html><head><style>@page{{size:{width}px {height}px;margin:{margin}px}}'
            f'html,body{{margin:0}}body{{font-size:10px;line-height:10px}}p{{margin:0}}</style></head>'
            f'<body>{body}</body></html>')
    return {'html': html, 'features': ['position-probe']}


def shift_cases(rng, adversarial=False, probe=False):
    """One document (wide grammar, or `position_doc` when `probe`) rendered twice
    -> [(line, impl, meta, tags, stats)] one per page."""
    from harness import docs, widegen
    doc = position_doc(rng) if probe else widegen.gen(rng, adversarial=adversarial)
    html = doc['html']
    rtl = rng.random() < .35
    if rtl:
        html = html.replace('body{font-size', 'body{direction:rtl;font-size', 1)
    dx, dy = rng.choice(SHIFTS)
    meta = {'html': html, 'dx': dx, 'dy': dy, 'rtl': rtl, 'features': doc['features']}
    try:
        with docs.time_limit(30):
            pages = shift_lines(html, dx, dy)
    except Exception as exc:  # noqa: BLE001
        return [(None, None, dict(meta, error=type(exc).__name__), ['render-error'], {})]
    tags = list(doc['features']) + ['rtl' if rtl else 'ltr', f'shift{dx}x{dy}']
    if isinstance(pages, str):
        return [(sx.line('shifted', EPS, dx, dy, [], []), pages, dict(meta, page_index=0), tags, {'flow': 0})]
    return [(line, 'ok', dict(meta, page_index=index), tags, stats) for index, (line, stats) in enumerate(pages)]


# ---------------------------------------------------------------------------------------------
# metamorphic pair "neutral wrapper div" (same comparator, translation (0, 0))

def wrapped_html(html):
    """The same document with the content of <body> wrapped in a plain <div> (no margin, border, padding, auto
    width and height, everything inherited)."""
    import re
    out, n = re.subn(r'<body>(.*)</body>', lambda m: '<body><div>' + m.group(1) + '</div></body>', html, 1,
                     flags=re.S)
    if n != 1:
        raise ValueError('no <body>…</body>')
    return out


def tall_html(html):
    """One tall page: the wrapper pair is stated for unfragmented content."""
    import re
    return re.sub(r'@page\{size:(\d+)px \d+px', lambda m: f'@page{{size:{m.group(1)}px 3000px', html, 1)


def wrap_line(html):
    """Render `html` and its wrapped twin -> (line, stats) comparing the <body> subtree of the first with the
    wrapper <div> subtree of the second (the wrapper must have exactly the geometry of <body>, whose margins are 0,
    and every descendant must stay where it was), or None when the first rendering is not a single page, or a
    string describing a page-count / shape change."""
    from harness import docs
    first = docs.render(html)
    if len(first.pages) != 1:
        return None
    second = docs.render(wrapped_html(html))
    if len(second.pages) != 1:
        return f'pages 1 {len(second.pages)}'
    (line_a, stats), (line_b, _) = page_lines(first)[0], page_lines(second)[0]
    root_a, root_b = sx.loads_line(line_a)[5], sx.loads_line(line_b)[5]
    try:
        body_a = root_a[1][0]
        wrapper_b = root_b[1][0][1][0]
    except (IndexError, TypeError):
        return 'shape'
    return sx.line('shifted', EPS, 0, 0, body_a, wrapper_b), stats


def wrap_cases(rng, adversarial=False, probe=False):
    """One document on a tall page, rendered with and without a neutral wrapper -> [(line, impl, meta, tags, stats)]
    (empty when the document needs more than one page: forced breaks)."""
    from harness import docs, widegen
    doc = position_doc(rng) if probe else widegen.gen(rng, adversarial=adversarial)
    html = tall_html(doc['html'])
    rtl = rng.random() < .35
    if rtl:
        html = html.replace('body{font-size', 'body{direction:rtl;font-size', 1)
    meta = {'html': html, 'rtl': rtl, 'features': doc['features'], 'page_index': 0}
    try:
        with docs.time_limit(30):
            res = wrap_line(html)
    except Exception as exc:  # noqa: BLE001
        return [(None, None, dict(meta, error=type(exc).__name__), ['render-error'], {})]
    tags = list(doc['features']) + ['rtl' if rtl else 'ltr']
    if res is None:
        return []
    if isinstance(res, str):
        return [(sx.line('shifted', EPS, 0, 0, [], []), res, meta, tags, {'flow': 0})]
    line, stats = res
    return [(line, 'ok', meta, tags, stats)]


def explain_wrap(line, impl, model_out):
    if impl != 'ok':
        return (f'metamorphic pair "neutral wrapper div": wrapping the content of <body> in a plain <div> changes the '
                f'page count or the shape of the tree ({impl})')
    parts = sx.loads_line(line)
    if model_out == 'bad shape':
        return (f'metamorphic pair "neutral wrapper div": the subtree of the wrapper does not have the shape of the '
                f'subtree of <body> ({len(flat(parts[4]))} boxes, then {len(flat(parts[5]))})')
    index = int(model_out.split()[2])
    a, b = flat(parts[4])[index], flat(parts[5])[index]
    moved = [(name, str(F(x)), str(F(y))) for name, x, y in zip(FIELDS, a[:16], b[:16]) if F(x) != F(y)]
    return (f'metamorphic pair "neutral wrapper div": box #{index} below <body> (kind {a[24]}; #0 is <body> itself '
            f'against the wrapper) changes when the content of <body> is wrapped in a plain <div>; fields that differ '
            f'(name, without, with the wrapper): {moved}')


def explain_shift(line, impl, model_out):
    """Human-readable description of a translation failure."""
    parts = sx.loads_line(line)
    dx, dy = parts[2], parts[3]
    if impl.startswith('pages'):
        _, a, b = impl.split()
        return (f'metamorphic pair "uniform translation": moving the page area by ({dx}, {dy}) changes the number of '
                f'pages from {a} to {b}')
    if model_out == 'bad shape':
        return (f'metamorphic pair "uniform translation": moving the page area by ({dx}, {dy}) changes the box tree '
                f'of the page ({len(flat(parts[4]))} boxes, then {len(flat(parts[5]))})')
    index = int(model_out.split()[2])
    a, b = flat(parts[4])[index], flat(parts[5])[index]
    moved = [(name, str(F(x)), str(F(y))) for name, x, y in zip(FIELDS, a[:16], b[:16]) if F(x) != F(y)]
    return (f'metamorphic pair "uniform translation": the page area moved by ({dx}, {dy}); box #{index} (kind {a[24]}) '
            f'went from ({a[0]}, {a[1]}) to ({b[0]}, {b[1]}) instead of ({F(a[0]) + F(dx)}, {F(a[1]) + F(dy)}); '
            f'fields that differ (name, before, after): {moved}')


def page_info(page):
    """Facts about a page used to recognise the known deviation classes."""
    from weasyprint.formatting_structure import boxes
    page_box = page._page_box
    bottom = page_box.content_box_y() + page_box.height
    overflow = False

    def walk(box):
        nonlocal overflow
        for child in getattr(box, 'children', []):
            if isinstance(child, boxes.LineBox):
                if child.position_y + child.height > bottom + 1e-6:
                    overflow = True
                if isinstance(box, boxes.BlockBox) and child.position_y < box.content_box_y() - 1e-6:
                    overflow = True
            else:
                walk(child)
    walk(page_box)
    # the hack of _linebox_layout leaves a paragraph with used margin-top 0 although its computed one is not
    # (continuation fragments have their top decoration removed: not those)
    for box in page_box.descendants():
        if (isinstance(box, boxes.BlockBox) and box.children and isinstance(box.children[0], boxes.LineBox)
                and 'top' not in box.remove_decoration_sides and getattr(box, 'margin_top', 0) == 0):
            computed = box.style['margin_top']
            if computed != 'auto' and computed.value != 0:
                overflow = True
    types = []

    def names(box):
        types.append(type(box).__name__)
        if not isinstance(box, boxes.LineBox):
            for child in getattr(box, 'children', []):
                if hasattr(child, 'position_x') and hasattr(child, 'width') and not isinstance(child, boxes.TextBox):
                    names(child)
    names(page_box.children[0])
    return {'line_overflows': overflow, 'bottom': str(F(bottom)), 'types': types}


def classify(meta, line, model_out):
    """Finding id explaining a rejection of the checker, or None."""
    if not model_out.startswith('bad '):
        return None
    _, index, clause = model_out.split()
    if clause == 'nonneg':
        tree = sx.loads_line(line)[5]
        row = flat(tree)[int(index)]
        trees = []

        def sub(t):
            trees.append(t)
            for k in t[1]:
                sub(k)
        sub(tree)
        kids = trees[int(index)][1]
        # a fragment without in-flow content (no child, or only out-of-flow ones: the float / absolutely positioned box
        # that was the block's first child) whose margin box starts at or below the page bottom: its height is
        # page bottom - position_y < 0
        if F(row[3]) < 0 and all(k[0][24] == 'oof' for k in kids) and F(row[1]) >= F(meta['bottom']):
            return 'empty-fragment-below-page-bottom'
        if F(row[3]) < 0 and meta['types'][int(index)] in ('TableRowBox', 'TableRowGroupBox'):
            return 'table-row-group-negative-height'
    if clause in ('nonneg', 'stack', 'contain') and meta['line_overflows']:
        return 'first-line-overflow-margin-hack'
    if clause == 'stack' and empty_first_children_explain(sx.loads_line(line)[5], int(index)):
        return 'empty-first-child-above-parent'
    return None


def empty_first_children_explain(tree, index):
    """Is the `stack` rejection of subtree #index (index among the subtrees, preorder) due only to empty in-flow
    children that precede every child with content, in a parent without top padding / border (a parent that
    collapses with its children)?  The walk of `UsedCheck.stackKids` is redone here with those children left
    out: the rejection is explained iff the walk then passes and at least one of them lies above the parent's
    content box."""
    trees = []

    def sub(t):
        trees.append(t)
        for k in t[1]:
            sub(k)
    sub(tree)
    box, kids = trees[index]
    x, y, w, h, ml, mr, mt, mb, pl, pr, pt, pb, bl, br, bt, bb = (F(v) for v in box[:16])
    if pt != 0 or bt != 0:
        return False
    content_top = y + mt + bt + pt

    def nonneg(t):
        return F(t[0][6]) >= 0 and F(t[0][7]) >= 0 and all(nonneg(k) for k in t[1])

    def empty(t):
        b = t[0]
        return (all(k[0][24] == 'oof' for k in t[1]) and F(b[3]) == 0 and
                all(F(b[i]) == 0 for i in (10, 11, 14, 15)))
    pos, seen_content, above = content_top, False, False
    for k in kids:
        kind = k[0][24]
        if kind == 'oof':
            continue
        if kind == 'other' or not nonneg(k):
            pos = None
            continue
        top = F(k[0][1]) + F(k[0][6])
        bottom = top + F(k[0][14]) + F(k[0][10]) + F(k[0][3]) + F(k[0][11]) + F(k[0][15])
        if empty(k) and not seen_content:
            if top < content_top:
                above = True
            continue                      # left out of the walk
        if pos is not None and pos > top + EPS:
            return False
        if not empty(k):
            seen_content = True
            pos = bottom
    return above


def explain_row(line, model_out):
    """Human-readable description of the rejected box."""
    _, index, clause = model_out.split()
    parts = sx.loads_line(line)
    tree = parts[5]
    if clause in ('stack', 'contain'):
        trees = []

        def sub(t):
            trees.append(t)
            for k in t[1]:
                sub(k)
        sub(tree)
        t = trees[int(index)]
        b = t[0]
        top = F(b[1]) + F(b[6]) + F(b[14]) + F(b[10])
        kids = [(k[0][24], str(F(k[0][1]) + F(k[0][6])),
                 str(F(k[0][1]) + F(k[0][6]) + F(k[0][14]) + F(k[0][10]) + F(k[0][3]) + F(k[0][11]) + F(k[0][15])))
                for k in t[1]]
        return (f'clause (g) {clause}: box #{index} (content top {top}, height {b[3]}): its in-flow children '
                f'(kind, border top, border bottom) {kids} are not stacked top-down inside it')
    row = flat(tree)[int(index)]
    names = FIELDS + ['min_width', 'max_width', 'min_height', 'max_height', 'ml auto', 'mr auto', 'w auto',
                      'h auto', 'kind', 'rtl', 'whole']
    return (f'clause {clause}: box #{index} in a parent content box x={parts[2]} width={parts[3]} '
            f'rtl={parts[4]} (page root context; nested boxes use their parent): '
            f'{dict(zip(names, row))}')
