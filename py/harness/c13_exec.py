"""C13: execute a protocol line on the REAL implementation (replay of a function-level case).

`execute(line)` rebuilds the mock objects from the line alone and returns the implementation's
canonical output, exactly as the generators of `c13_real` produced it.
"""
from harness import c13_real as real
from harness import docs
from harness.c13_oracle import parse
from harness.exactq import Q


def q(v):
    from fractions import Fraction
    if isinstance(v, Fraction):
        return Q(v)
    if isinstance(v, list):
        return [q(x) for x in v]
    return v


def as_dim(d):
    return 'auto' if d == 'auto' else (d[0], q(d[1]))


def as_position(p):
    return (p[0], as_dim(p[1]), p[2], as_dim(p[3]))


def as_geom(values):
    return dict(zip(real.GEOM_FIELDS, q(values)))


def as_rbox(values):
    return dict(zip(real.RBOX_FIELDS, q(values)))


def execute(line):
    from weasyprint.formatting_structure import boxes
    from weasyprint.layout import replaced
    cmd, args = parse(line)
    args = [q(a) for a in args]
    ok, fmt, fmt_pair = real.ok, real.fmt, real.fmt_pair
    if cmd == 'dis':
        (iw, ih, ir), sw, sh, dw, dh = args
        return docs.outcome(lambda: ok(fmt_pair(replaced.default_image_sizing(iw, ih, ir, sw, sh, dw, dh))))
    if cmd == 'constraint':
        cw, ch, r, cover = args
        fn = replaced.cover_constraint_image_sizing if cover else replaced.contain_constraint_image_sizing
        return docs.outcome(lambda: ok(fmt_pair(fn(cw, ch, r))))
    if cmd == 'rlayout':
        g, fit, pos, intr = args
        fit = 'none' if fit is None else fit
        style = {'object_fit': fit, 'object_position': (real.position_real(as_position(pos)),),
                 'image_resolution': Q(1), 'font_size': Q(16)}
        box = real.apply_geom(boxes.InlineReplacedBox('img', style, None, real.StubImage(tuple(intr))), as_geom(g))
        return docs.outcome(lambda: ok(' '.join(fmt(v) for v in replaced.replacedbox_layout(box))))
    if cmd in ('blwcore', 'blw'):
        b, cb = args
        return real.call_used_size(cmd, as_rbox(b), (None, None, None), tuple(cb), None, False)
    if cmd in ('rbwcore', 'rbw', 'brwcore', 'brw'):
        intr, cb, b = args
        return real.call_used_size(cmd, as_rbox(b), tuple(intr), tuple(cb), None, False)
    if cmd in ('rbhcore', 'rbh'):
        intr, b = args
        return real.call_used_size(cmd, as_rbox(b), tuple(intr), (Q(0), False), None, False)
    if cmd == 'mmar':
        return real.call_used_size(cmd, as_rbox(args[0]), (None, None, None), (Q(0), False), None, False)
    if cmd in ('irwh', 'irl'):
        auto, intr, cb, b = args
        return real.call_used_size(cmd, as_rbox(b), tuple(intr), tuple(cb), auto, False)
    if cmd == 'brl':
        auto, intr, cb, cx, py, b = args
        return real.call_used_size(cmd, as_rbox(b), tuple(intr), tuple(cb), auto, False, cx, py)
    if cmd == 'absrep':
        auto, intr, cbx, cby, cbw, cbh, b = args
        return real.call_absolute_replaced(as_rbox(b), tuple(intr), auto, cbx, cby, cbw, cbh, 'auto', 'auto', 'auto',
                                           'auto')
    if cmd in ('bglayer', 'bgdraw'):
        g, kind, page_g, image, size, clip, rx, ry, origin, pos, fixed = args
        layer = {'image': None if image is None else tuple(image),
                 'size': size if isinstance(size, str) else (as_dim(size[0]), as_dim(size[1])),
                 'clip': clip, 'origin': origin, 'repeat': (rx, ry), 'position': as_position(pos), 'fixed': fixed}
        return real.call_layer(cmd, as_geom(g), kind, as_geom(page_g), layer)
    if cmd == 'dedupe':
        base, draws = args
        import pydyf
        pages = int(base) - (len(pydyf.PDF().objects) + 1)       # PDF header objects + the Resources dictionary
        try:
            return ok(real.dedupe_out(_draws(draws), max(pages, 1))[1])
        except Exception as exc:  # noqa: BLE001
            return f'err:{type(exc).__name__}'
    if cmd == 'svgintr':
        w, h, vb = args
        return real.call_svg_intrinsic(None if w is None else ('px', w), None if h is None else ('px', h),
                                       None if vb is None else tuple(vb))
    if cmd == 'rdraw':
        return real.call_raster_draw(*args)
    if cmd == 'drawrep':
        args[2] = 'none' if args[2] is None else args[2]
        return real.call_draw_replacedbox(*args)
    return None


def _draws(draws):
    out = []
    for d in draws:
        if d[0] == 'i':
            out.append(['i', str(d[1]), d[2], q(d[3]), d[4]])
        else:
            out.append([d[0]] + _draws(d[1:]))
    return out
