"""C14: the sheet of a page — `size`, `marks`, `bleed` from declaration text to `Page.width/height/bleed`.

Function level: the real validators (`validate_non_shorthand` → `properties.size / marks / bleed`) on tinycss2
tokens of generated declaration values and the real computers (`computed_values.length_tuple`, `bleed`) vs
`Model/PageSheet.lean`.  Document level: `<style>@page { size: …; marks: …; bleed: … }` rendered by the real
pipeline (test user-agent sheet: `@page { bleed: 0 }`) → `Page.width`, `Page.height`, `Page.bleed`.
The css-page-3 clauses are stated directly in `judge` with the spec's own size table.
Every random choice comes from the `rng` passed in."""
from fractions import Fraction as F

from harness import c14_gen as g
from harness import docs
from vlib import sx

FONT_SIZE, ROOT_FONT_SIZE = F(12), F(20)

SIZE_NAMES = None


def size_names():
    global SIZE_NAMES
    if SIZE_NAMES is None:
        from weasyprint.css import computed_values
        SIZE_NAMES = list(computed_values.PAGE_SIZES)
    return SIZE_NAMES


LENGTHS = ['10px', '200px', '350.5px', '5in', '8.5in', '210mm', '297mm', '148mm', '21cm', '29.7cm', '600q', '40pc',
           '300pt', '612pt', '0', '0px', '0mm', '1.5cm', '100.25px']
ODD_LENGTHS = ['-5px', '-0px', '10%', '50%', '3em', '2rem', '4ex', '5ch', '10PX', '5IN', '12', '1', '10foo', '1e2px', '.5in']
KEYWORDS = ['portrait', 'landscape', 'auto']
ODD_KEYWORDS = ['foo', 'none', 'inherit-x', 'crop', 'A4', 'Letter', 'LANDSCAPE', 'Portrait', 'JIS-B5', 'a11', 'b', 'legal2']
JUNK = ['"a4"', '#a4', 'a4()', ',', '/', '10px,', '(a4)']


def size_text(rng):
    r = rng.random()
    names = size_names()
    if r < 0.25:
        parts = [rng.choice(LENGTHS) for _ in range(rng.choice([1, 2, 2]))]
    elif r < 0.5:
        parts = [rng.choice(names)]
        if rng.random() < 0.7:
            parts.insert(rng.choice([0, 1]), rng.choice(KEYWORDS[:2]))
    elif r < 0.6:
        parts = [rng.choice(KEYWORDS)]
    else:
        pool = LENGTHS + ODD_LENGTHS + names[:6] + names[-5:] + KEYWORDS + ODD_KEYWORDS + (JUNK if rng.random() < 0.3 else [])
        parts = [rng.choice(pool) for _ in range(rng.choice([1, 2, 2, 2, 3]))]
    return rng.choice([' ', '  ', ' /**/ ']).join(parts) if rng.random() < 0.1 else ' '.join(parts)


def marks_text(rng):
    pool = ['crop', 'cross', 'none', 'CROP', 'Cross', 'foo', 'auto', '0', '"crop"']
    return ' '.join(rng.choice(pool[:3] if rng.random() < 0.7 else pool) for _ in range(rng.choice([1, 1, 2, 2, 3])))


def bleed_text(rng):
    pool = ['auto', 'AUTO', '0', '10px', '6pt', '3mm', '-4px', '0.25in', '8px', '1em', '2rem', '10%', 'none', '5', '2ex',
            '10px 5px', 'auto auto', '1.5pc']
    return rng.choice(pool[:9] if rng.random() < 0.6 else pool)


# ---- tokens ------------------------------------------------------------------------------------------------

def tokens_of(text):
    import tinycss2
    from weasyprint.css.utils import remove_whitespace
    return remove_whitespace(tinycss2.parse_component_value_list(text))


def wire_tokens(tokens):
    out = []
    for tok in tokens:
        if tok.type == 'dimension' and g.safe(tok.unit):
            out.append(['dim', F(tok.value), g.s(tok.unit)])
        elif tok.type == 'number':
            out.append(['num', F(tok.value)])
        elif tok.type == 'percentage':
            out.append(['pct', F(tok.value)])
        elif tok.type == 'ident' and g.safe(tok.lower_value):
            out.append(['id', g.s(tok.lower_value)])
        else:
            out.append('ot')
    return out


class _Style(dict):
    """What `computed_values.length` / `bleed` read from a style."""
    root_style = {'font_size': ROOT_FONT_SIZE}


def style(marks=()):
    return _Style(font_size=FONT_SIZE, marks=tuple(marks))


def validate(name, tokens):
    """-> the validated value or None (InvalidValues); css-wide keywords and var() are not generated."""
    from weasyprint.css.utils import InvalidValues
    from weasyprint.css.validation.properties import validate_non_shorthand
    try:
        return validate_non_shorthand(tokens, name)[0][1]
    except InvalidValues:
        return None


def show_dim(d):
    return f"({sx.atom(F(d.value))} {'none' if d.unit is None else g.s(d.unit)})"


def show_px(v):
    return sx.atom(F(v) if isinstance(v, float) else v)


def impl_sizev(text):
    value = validate('size', tokens_of(text))
    return 'none' if value is None else f'({show_dim(value[0])} {show_dim(value[1])})'


def impl_sizec(text):
    """-> list of two numbers | 'none' | 'needs-font'"""
    from weasyprint.css import computed_values
    value = validate('size', tokens_of(text))
    if value is None:
        return 'none'
    if any(d.unit in ('ex', 'ch') and d.value != 0 for d in value):
        return 'needs-font'
    return list(computed_values.length_tuple(style(), 'size', value))


def impl_marksv(text):
    value = validate('marks', tokens_of(text))
    return 'none' if value is None else '(' + ' '.join(g.s(k) for k in value) + ')'


def impl_bleedv(text):
    value = validate('bleed-top', tokens_of(text))
    if value is None:
        return 'none'
    return 'auto' if value == 'auto' else show_dim(value)


def impl_bleedc(marks, text):
    from weasyprint.css import computed_values
    value = validate('bleed-top', tokens_of(text))
    if value is None:
        return 'none'
    if value != 'auto' and value.unit in ('ex', 'ch') and value.value != 0:
        return 'needs-font'
    out = computed_values.bleed(style(marks), 'bleed_top', value)
    return out.value if out.unit == 'px' else f'{out.value}{out.unit}'


def sheet_html(size, marks, bleed):
    sides = [(f'bleed-{side}', bleed) for side in ('top', 'right', 'bottom', 'left')]
    decls = ''.join(f' {n}: {v};' for n, v in [('size', size), ('marks', marks)] + sides if v is not None)
    return f'<style>html {{ font-size: {ROOT_FONT_SIZE}px }} @page {{ margin: 0;{decls} }}</style><body>'


def impl_sheet(size, marks, bleed):
    page = docs.render(sheet_html(size, marks, bleed)).pages[0]
    bleeds = {page.bleed[s] for s in ('top', 'right', 'bottom', 'left')}
    assert len(bleeds) == 1, page.bleed
    return [page.width, page.height, bleeds.pop(), tuple(page._page_box.style['marks'])]


SIDES = ('top', 'right', 'bottom', 'left')


def box_html(size, dims):
    decls = ''.join(f' margin-{side}: {v};' for side, v in zip(SIDES, dims[:4]))
    decls += ''.join(f' padding-{side}: {v};' for side, v in zip(SIDES, dims[4:]))
    return (f'<style>html {{ font-size: {ROOT_FONT_SIZE}px }} @page {{{"" if size is None else f" size: {size};"}{decls} }}'
            f'</style><body>')


def impl_sheetbox(size, dims):
    page = docs.render(box_html(size, dims)).pages[0]
    pb = page._page_box
    return [page.width, page.height, pb.width, pb.height, pb.margin_top, pb.margin_right, pb.margin_bottom, pb.margin_left,
            pb.padding_top, pb.padding_right, pb.padding_bottom, pb.padding_left]


def css_dim_wire(text):
    if text == 'auto':
        return 'auto'
    if text.endswith('%'):
        return ['pct', F(text[:-1])]
    return F(text[:-2])


# ---- correspondence ----------------------------------------------------------------------------------------

def snapped(values, model_out, snap):
    """Implementation numbers rendered like the model's `(a b …)` where they agree within 1e-9 relative."""
    try:
        atoms = [a for grp in sx.loads_line(model_out) for a in (grp if isinstance(grp, list) else [grp])]
    except ValueError:
        atoms = []
    flat = [a for a in atoms if not isinstance(a, list)]
    if len(flat) < len(values):
        return [show_px(v) for v in values]
    return [snap.num(v, a) for v, a in zip(values, flat)]


def correspondence(prop, run):
    from vlib import lean
    rng = run.rng
    collecting = getattr(run, 'found', None) is not None
    snap = g.Snap()

    def model(lines):
        return ['bad-op'] * len(lines) if collecting else lean.run_driver(prop.driver, lines)

    sec = run.section(
        'size-values', "validation of `size` (validate_non_shorthand → properties.size) on tinycss2 tokens of generated "
        'values — lengths in every unit, page-size names, orientations, odd and ill-formed values — and the computed '
        'value (computed_values.length_tuple; floats within 1e-9 of the exact model value count as rounding); '
        'non-trivial = the declaration is valid')
    seen, cases = set(), []
    for _ in range(run.n(1200, 15000)):
        text = size_text(rng)
        if text in seen:
            continue
        seen.add(text)
        toks = wire_tokens(tokens_of(text))
        out = docs.outcome(lambda: impl_sizev(text))
        sec.add(sx.line('sizev', toks), out, meta={'fn': 'sizev', 'args': [text]}, nontrivial=out != 'none',
                tags=['valid' if out != 'none' else 'invalid'])
        cases.append((sx.line('sizec', FONT_SIZE, ROOT_FONT_SIZE, toks), docs.outcome(lambda: impl_sizec(text)), text))
    for (line, res, text), mout in zip(cases, model([c[0] for c in cases])):
        if isinstance(res, list):
            w, h = snapped(res, mout, snap)
            out = f'({w} {h})'
        else:
            # (which of the two components needs font metrics is the model's detail)
            out = mout if res == 'needs-font' and 'needs-font' in mout else res
        sec.add(line, out, meta={'fn': 'sizec', 'args': [text], 'result': [float(v) for v in res] if isinstance(res, list) else res},
                nontrivial=isinstance(res, list), tags=['computed' if isinstance(res, list) else str(res)])

    sec = run.section(
        'marks-bleed-values', 'validation of `marks` and `bleed-*` on generated values and the computed `bleed-*` '
        '(computed_values.bleed) under every valid `marks` value; non-trivial = valid')
    seen = set()
    for _ in range(run.n(300, 3000)):
        text = marks_text(rng)
        if text in seen:
            continue
        seen.add(text)
        out = docs.outcome(lambda: impl_marksv(text))
        sec.add(sx.line('marksv', wire_tokens(tokens_of(text))), out, meta={'fn': 'marksv', 'args': [text]},
                nontrivial=out != 'none', tags=['marks'])
    cases = []
    bleed_pool = sorted({bleed_text(rng) for _ in range(200)})
    for text in bleed_pool:
        toks = wire_tokens(tokens_of(text))
        out = docs.outcome(lambda: impl_bleedv(text))
        sec.add(sx.line('bleedv', toks), out, meta={'fn': 'bleedv', 'args': [text]}, nontrivial=out != 'none',
                tags=['bleed'])
        for marks in ((), ('crop',), ('cross',), ('crop', 'cross'), ('cross', 'crop')):
            cases.append((sx.line('bleedc', FONT_SIZE, ROOT_FONT_SIZE, [g.s(m) for m in marks], toks),
                          docs.outcome(lambda: impl_bleedc(marks, text)), marks, text))
    for (line, res, marks, text), mout in zip(cases, model([c[0] for c in cases])):
        out = res if isinstance(res, str) else snap.num(res, mout)
        sec.add(line, out, meta={'fn': 'bleedc', 'args': [list(marks), text],
                                 'result': res if isinstance(res, str) else float(res)},
                nontrivial=not isinstance(res, str), tags=['bleed-computed', 'marks:' + ('+'.join(marks) or 'none')])

    sec = run.section(
        'sheet-documents', 'documents `@page { size: …; marks: …; bleed: … }` rendered by the real pipeline (test UA '
        'sheet: bleed 0): Page.width, Page.height, Page.bleed vs the model; non-trivial = some declaration is valid')
    cases = []
    for _ in range(run.n(60, 800)):
        size = size_text(rng) if rng.random() < 0.85 else None
        marks = marks_text(rng) if rng.random() < 0.7 else None
        bleed = bleed_text(rng) if rng.random() < 0.7 else None
        if any(u in (size or '') + (bleed or '') for u in ('ex', 'ch', 'em')):     # font-relative: outside this section
            continue

        def w(text):
            return 'none' if text is None else wire_tokens(tokens_of(text))
        line = sx.line('sheet', ROOT_FONT_SIZE, ROOT_FONT_SIZE, 0, w(size), w(marks), w(bleed))
        cases.append((line, docs.outcome(lambda: impl_sheet(size, marks, bleed)), [size, marks, bleed]))
    for (line, res, args), mout in zip(cases, model([c[0] for c in cases])):
        if isinstance(res, list):
            w_, h_, b_ = snapped(res[:3], mout, snap)
            out = f"({w_} {h_} {b_} ({' '.join(g.s(m) for m in res[3])}))"
        else:
            out = res
        sec.add(line, out, meta={'fn': 'sheet', 'args': args, 'html': sheet_html(*args),
                                 'result': [float(v) for v in res[:3]] + [list(res[3])] if isinstance(res, list) else res},
                nontrivial=True, tags=['doc'])
    sec = run.section(
        'sheet-page-boxes', 'documents `@page { size: <name / orientation / lengths>; margin-*: px | % | auto; padding-*: '
        'px | % }` rendered by the real pipeline: Page.width/height, content size, used margins and paddings vs the model '
        '(computed size → resolve_percentages → page_width / page_height); non-trivial = a percentage refers to a sheet '
        'given by a keyword')
    cases = []
    names = size_names()
    for _ in range(run.n(60, 800)):
        r = rng.random()
        if r < 0.6:
            parts = [rng.choice(names[4:11] + names[15:22] + names[-14:])]
            if rng.random() < 0.6:
                parts.insert(rng.choice([0, 1]), rng.choice(['portrait', 'landscape']))
            size = ' '.join(parts)
        elif r < 0.75:
            size = rng.choice(['landscape', 'portrait', 'auto', None])
        else:
            size = ' '.join(rng.choice(['200px', '5in', '148mm', '21cm', '600q', '40pc', '612pt', '350.5px'])
                            for _ in range(rng.choice([1, 2])))

        def one(auto):
            r2 = rng.random()
            if r2 < auto:
                return 'auto'
            if r2 < auto + 0.45:
                return rng.choice(['5%', '10%', '12.5%', '2.5%', '0%', '6.25%'])
            return rng.choice(['0px', '10px', '12.5px', '30px', '7.25px'])
        dims = [one(0.2) for _ in range(4)] + [one(0.0) for _ in range(4)]
        line = sx.line('sheetbox', ROOT_FONT_SIZE, ROOT_FONT_SIZE, 'none' if size is None else wire_tokens(tokens_of(size)),
                       [css_dim_wire(v) for v in dims])
        cases.append((line, docs.outcome(lambda: impl_sheetbox(size, dims)), [size, dims]))
    for (line, res, args), mout in zip(cases, model([c[0] for c in cases])):
        if isinstance(res, list):
            atoms = snapped(res, mout, snap)
            out = ' '.join('(' + ' '.join(atoms[a:b]) + ')' for a, b in ((0, 2), (2, 4), (4, 8), (8, 12)))
        else:
            out = res
        sec.add(line, out, meta={'fn': 'sheetbox', 'args': args, 'html': box_html(*args),
                                 'result': [float(v) for v in res] if isinstance(res, list) else res},
                nontrivial=any(v.endswith('%') for v in args[1]) and args[0] is not None and not args[0][0].isdigit(),
                tags=['keyword' if args[0] and not args[0][0].isdigit() else 'lengths'])
    run.extra['float_rounding_sheet'] = snap.rounded


# ---- the clauses (css-page-3 §5.1 `size`, §6 `marks`, `bleed`) -------------------------------------------------

MM, IN = F(96 * 10, 254), F(96)
SPEC_SIZES = {       # css-page-3: page size names (portrait)
    'a5': (148 * MM, 210 * MM), 'a4': (210 * MM, 297 * MM), 'a3': (297 * MM, 420 * MM), 'b5': (176 * MM, 250 * MM),
    'b4': (250 * MM, 353 * MM), 'jis-b5': (182 * MM, 257 * MM), 'jis-b4': (257 * MM, 364 * MM),
    'letter': (F(17, 2) * IN, 11 * IN), 'legal': (F(17, 2) * IN, 14 * IN), 'ledger': (11 * IN, 17 * IN)}


def _iso_series():
    """ISO 216 (A, B, C) and JIS P 0138 (JIS B): size n+1 is size n cut in half, rounded down to the millimetre."""
    out = {}
    for prefix, (w, h) in (('a', (841, 1189)), ('b', (1000, 1414)), ('c', (917, 1297)), ('jis-b', (1030, 1456))):
        for n in range(11):
            out[f'{prefix}{n}'] = (w * MM, h * MM)
            w, h = h // 2, w
    return out


for _name, _size in _iso_series().items():
    assert SPEC_SIZES.get(_name, _size) == _size, _name
    SPEC_SIZES[_name] = _size
UNIT_PX = {'px': F(1), 'pt': F(4, 3), 'pc': F(16), 'in': F(96), 'cm': F(9600, 254), 'mm': F(960, 254), 'q': F(240, 254)}


def spec_length(word):
    """A well-formed absolute <length> (lower-case unit, no sign) -> px, else None."""
    import re
    m = re.fullmatch(r'(\d+(?:\.\d+)?|\.\d+)(px|pt|pc|in|cm|mm|q)', word)
    if m:
        return F(m.group(1)) * UNIT_PX[m.group(2)]
    return F(0) if word == '0' else None


def spec_size(text):
    """css-page-3 `size` for the simple well-formed values -> (w, h) px, 'invalid', or None (no verdict)."""
    import re
    words = text.replace('/**/', ' ').split()
    lower = [w.lower() for w in words]
    lengths = [spec_length(w) for w in words]
    # a negative length or a percentage is not a valid component of `size`
    signed = [spec_length(w[1:]) if w[:1] == '-' else spec_length(w) for w in words]
    if len(words) <= 2 and all(v is not None or re.fullmatch(r'\d+(\.\d+)?%', w) for v, w in zip(signed, words)):
        if any((w[:1] == '-' and v != 0) or w.endswith('%') for v, w in zip(signed, words)):
            return 'invalid'
    if all(v is not None for v in lengths):
        if len(words) == 1:
            return lengths[0], lengths[0]
        if len(words) == 2:
            return lengths[0], lengths[1]
        return 'invalid' if len(words) > 2 else None
    orient = [w for w in lower if w in ('portrait', 'landscape')]
    names = [w for w in lower if w in SPEC_SIZES]
    if len(words) == 1 and lower[0] in ('auto', 'portrait'):
        return SPEC_SIZES['a4']
    if lower == ['landscape']:
        return SPEC_SIZES['a4'][::-1]
    if len(names) == 1 and len(orient) == len(words) - 1 and len(words) <= 2:
        w, h = SPEC_SIZES[names[0]]
        return (h, w) if orient == ['landscape'] else (w, h)
    return None


def close(a, b):
    return abs(F(a) - F(b)) <= F(1, 10 ** 9) * max(1, abs(F(b)))


def spec_marks(text):
    words = text.lower().split() if all(w.isalpha() for w in text.split()) else None
    if words is None:
        return None
    if words in (['crop'], ['cross']):
        return tuple(words)
    if words == ['none']:
        return ()
    if sorted(words) == ['crop', 'cross']:
        return tuple(words)
    return 'invalid'


def judge(meta, impl):
    fn, args = meta['fn'], meta['args']
    if impl.startswith('err:'):
        return f'{fn}: implementation raised {impl} on {args}'
    if fn == 'sizec':
        want = spec_size(args[0])
        res = meta.get('result')
        if want is None:
            return None
        if want == 'invalid':
            return None if res == 'none' else f'size: {args[0]!r} (more than two lengths, a negative length or a percentage) accepted: {res}'
        if not isinstance(res, list):
            return f'size: {args[0]!r} rejected or not computed ({res}); css-page-3 gives {float(want[0])} x {float(want[1])} px'
        if not (close(res[0], want[0]) and close(res[1], want[1])):
            return f'size: {args[0]!r} computes to {res[0]} x {res[1]} px; css-page-3 gives {float(want[0])} x {float(want[1])} px'
        return None
    if fn == 'marksv':
        want = spec_marks(args[0])
        if want is None:
            return None
        have = None if impl == 'none' else tuple(g.uns(a) for a in sx.loads_line(impl)[0])
        if want == 'invalid':
            return None if have is None else f'marks: {args[0]!r} accepted as {have}'
        if have != want:
            return f'marks: {args[0]!r} gives {have}, css-page-3 gives {want}'
        return None
    if fn == 'bleedc':
        marks, text = args
        res = meta.get('result')
        if text.lower() == 'auto':
            want = 8.0 if 'crop' in marks else 0.0      # css-page-3: 6pt if marks has crop, otherwise zero
            if res != want:
                return f'bleed: auto with marks: {" ".join(marks) or "none"} computes to {res}px; css-page-3: {want}px'
        else:
            px = spec_length(text.lstrip('-'))
            if px is not None and '%' not in text:
                px = -px if text.startswith('-') else px
                if isinstance(res, str) or not close(res, px):
                    return f'bleed: {text} computes to {res}; expected {float(px)}px'
        return None
    if fn == 'sheetbox':
        size, dims = args
        res = meta.get('result')
        if not isinstance(res, list):
            return f'rendering {meta.get("html")!r} raised {res}'
        want = spec_size(size) if size is not None else SPEC_SIZES['a4']
        if not isinstance(want, tuple):
            return None
        if not (close(res[0], want[0]) and close(res[1], want[1])):
            return (f'@page {{ size: {size} }}: Page.width x height = {res[0]} x {res[1]}; css-page-3 gives '
                    f'{float(want[0])} x {float(want[1])}')
        # percentages of the page box refer to the sheet: width for left / right, height for top / bottom
        for k, (side, text) in enumerate(zip(SIDES * 2, dims)):
            if text == 'auto':
                continue
            referent = want[1] if side in ('top', 'bottom') else want[0]
            px = referent * F(text[:-1]) / 100 if text.endswith('%') else F(text[:-2])
            if not close(res[4 + k], px):
                what = 'margin' if k < 4 else 'padding'
                return (f'@page {{ size: {size}; {what}-{side}: {text} }}: used {what}-{side} is {res[4 + k]}, expected '
                        f'{float(px)} ({text} of the sheet {"height" if side in ("top", "bottom") else "width"} '
                        f'{float(referent)})')
        mt, mr, mb, ml, pt, pr, pb_, pl = res[4:12]
        if abs(ml + pl + res[2] + pr + mr - res[0]) > 1e-6 or abs(mt + pt + res[3] + pb_ + mb - res[1]) > 1e-6:
            return f'@page {{ size: {size} }}: the content area {res[2]} x {res[3]} is not what remains of the sheet: {res}'
        return None
    if fn == 'sheet':
        size, marks, bleed = args
        res = meta.get('result')
        if not isinstance(res, list):
            return f'rendering {meta.get("html")!r} raised {res}'
        want = spec_size(size) if size is not None else SPEC_SIZES['a4']
        if isinstance(want, tuple) and not (close(res[0], want[0]) and close(res[1], want[1])):
            return (f'@page {{ size: {size} }}: Page.width x height = {res[0]} x {res[1]}; css-page-3 gives '
                    f'{float(want[0])} x {float(want[1])}')
        if want == 'invalid' and not (close(res[0], SPEC_SIZES['a4'][0]) and close(res[1], SPEC_SIZES['a4'][1])):
            return f'@page {{ size: {size} }} is invalid but the page is {res[0]} x {res[1]}, not the initial A4'
        wm = spec_marks(marks) if marks is not None else ()
        if isinstance(wm, tuple) or wm == 'invalid':
            want_marks = list(wm) if isinstance(wm, tuple) else []
            if len(res) > 3 and list(res[3]) != want_marks:
                return f'@page {{ marks: {marks} }}: the page box has marks {res[3]}, css-page-3 gives {want_marks}'
        if bleed is not None and bleed.lower() == 'auto' and isinstance(wm, tuple):
            wb = 8.0 if 'crop' in wm else 0.0
            if res[2] != wb:
                return f'@page {{ marks: {marks}; bleed: auto }}: Page.bleed = {res[2]}; css-page-3: {wb}'
        return None
    return None


def replay(meta):
    fn, args = meta['fn'], meta['args']
    meta = dict(meta)
    if fn == 'sizec':
        res = docs.outcome(lambda: impl_sizec(args[0]))
        meta['result'] = [float(v) for v in res] if isinstance(res, list) else res
        return judge(meta, res if isinstance(res, str) else 'ok')
    if fn == 'marksv':
        return judge(meta, docs.outcome(lambda: impl_marksv(args[0])))
    if fn == 'bleedc':
        res = docs.outcome(lambda: impl_bleedc(tuple(args[0]), args[1]))
        meta['result'] = res if isinstance(res, str) else float(res)
        return judge(meta, res if isinstance(res, str) else 'ok')
    if fn == 'sheetbox':
        res = docs.outcome(lambda: impl_sheetbox(*args))
        meta['result'] = [float(v) for v in res] if isinstance(res, list) else res
        return judge(meta, res if isinstance(res, str) else 'ok')
    if fn == 'sheet':
        res = docs.outcome(lambda: impl_sheet(*args))
        meta['result'] = [float(v) for v in res[:3]] + [list(res[3])] if isinstance(res, list) else res
        return judge(meta, res if isinstance(res, str) else 'ok')
    return None
