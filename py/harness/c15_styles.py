"""C15 helpers, counter-style half: wire encoding of CounterStyle dictionaries, calls of the real
`render_value` / `render_marker` / `resolve_counter`, generators of `@counter-style` rules (parsed by the real
CSS parser and descriptor validators)."""
import math

from vlib import sx

FIELDS = ('system', 'negative', 'prefix', 'suffix', 'range', 'pad', 'fallback', 'symbols', 'additive_symbols')
SYSTEMS = ('cyclic', 'numeric', 'alphabetic', 'symbolic', 'additive', 'fixed')


def enc(s):
    return 'x' + '.'.join(str(ord(c)) for c in s)


def dec(atom):
    assert atom.startswith('x')
    return ''.join(chr(int(p)) for p in atom[1:].split('.')) if len(atom) > 1 else ''


def w_sym(sym):
    return enc(sym[1]) if sym[0] == 'string' else 'url'


def w_bound(b):
    if b == math.inf:
        return 'inf'
    if b == -math.inf:
        return '-inf'
    return int(b)


def w_opt(value, fn):
    return 'none' if value is None else fn(value)


def w_range(value):
    if value == 'auto':
        return 'auto'
    return ['auto' if e == 'auto' else [w_bound(e[0]), w_bound(e[1])] for e in value]


def w_desc(d):
    return [
        w_opt(d['system'], lambda s: ['e' if s[0] else 'n', enc(s[1]), w_opt(s[2], int)]),
        w_opt(d['negative'], lambda n: [w_sym(n[0]), w_sym(n[1])]),
        w_opt(d['prefix'], w_sym), w_opt(d['suffix'], w_sym),
        w_opt(d['range'], w_range),
        w_opt(d['pad'], lambda p: [int(p[0]), w_sym(p[1]) if p[1] != '' else enc('')]),
        w_opt(d['fallback'], enc),
        w_opt(d['symbols'], lambda l: [w_sym(s) for s in l]),
        w_opt(d['additive_symbols'], lambda l: [[int(w), w_sym(s)] for w, s in l]),
    ]


def w_name(name):
    if isinstance(name, str):
        return ['n', enc(name)]
    if name[0] == 'string':
        return ['s', enc(name[1])]
    assert name[0] == 'symbols()'
    return ['y'] + [enc(a) for a in name[1]]


def w_table(table):
    return [[enc(k), w_desc(v)] for k, v in table.items()]


def ua_styles():
    from weasyprint.html import HTML5_UA_COUNTER_STYLE
    return HTML5_UA_COUNTER_STYLE


def custom_part(cs, base):
    """Entries of `cs` that are not the unchanged UA entries (the model looks them up first)."""
    if base == 'empty':
        return dict(cs)
    ua = ua_styles()
    return {k: v for k, v in cs.items() if k not in ua or ua[k] != v}


def out_text(fn):
    try:
        return 'ok ' + enc(fn())
    except RecursionError:
        return 'err:RecursionError'
    except Exception as exc:  # noqa: BLE001 - every class is an outcome kind
        return f'err:{type(exc).__name__}'


def rv_line(base, custom, value, name):
    return sx.line('rv', base, w_table(custom), int(value), w_name(name))


def rm_line(base, custom, value, name):
    return sx.line('rm', base, w_table(custom), int(value), w_name(name))


def rc_line(base, custom, name, prev):
    return sx.line('rc', base, w_table(custom), w_name(name), 'none' if prev is None else [w_name(p) for p in prev])


def rc_out(cs, name, prev):
    """Real resolve_counter; result and the mutated previous_types, canonicalised like the driver."""
    try:
        prev_arg = None if prev is None else list(prev)
        counter = cs.resolve_counter(name, prev_arg)
        return (sx.dumps(w_opt(counter, w_desc)) + ' ' +
                sx.dumps('none' if prev_arg is None else [w_name(p) for p in prev_arg]))
    except RecursionError:
        return 'err:RecursionError'
    except Exception as exc:  # noqa: BLE001
        return f'err:{type(exc).__name__}'


def parse_styles(css_text, base):
    """The CounterStyle dictionary the real stylesheet parser builds from `css_text`."""
    from weasyprint import CSS
    from weasyprint.css.counters import CounterStyle
    cs = CounterStyle()
    if base == 'ua':
        for key, value in ua_styles().items():
            cs[key] = value
    CSS(string=css_text, counter_style=cs)
    return cs


# ---------------------------------------------------------------- generators

SYMBOL_POOL = ['a', 'b', 'c', 'X', 'yy', '*', '0', '1', 'é', '→', '"(x)"', '" "', '"a b"', '""', '𝔸', 'ab3']
NAMES = ['ca', 'cb', 'cc', 'cd', 'ce', 'cf']


def css_symbol(rng):
    tok = rng.choice(SYMBOL_POOL)
    if rng.random() < 0.04:
        return 'url(http://x.invalid/i.png)'
    return tok


def gen_system(rng, names):
    r = rng.random()
    if r < 0.18:
        return 'extends ' + rng.choice(names + ['decimal', 'lower-roman', 'nosuch', 'cjk-decimal', 'lower-alpha'])
    if r < 0.28:
        return rng.choice(['fixed', 'fixed 1', 'fixed 0', 'fixed -3', 'fixed 5', 'fixed 2.5'])
    if r < 0.31:
        return rng.choice(['cyclic x', 'bogus', 'extends', 'extends a b', ''])  # (an empty value is rejected by preprocess_descriptors since d71ddd0)
    return rng.choice(['cyclic', 'numeric', 'alphabetic', 'symbolic', 'additive'])


def gen_range(rng):
    def one():
        r = rng.random()
        if r < 0.12:
            return rng.choice(['auto', 'auto', 'Auto'])
        lo = rng.choice(['infinite', '-5', '0', '1', '2', '3', '-50'])
        hi = rng.choice(['infinite', '-1', '0', '1', '4', '9', '30', '400'])
        return f'{lo} {hi}'
    return ', '.join(one() for _ in range(rng.choice([1, 1, 1, 2, 3])))


def gen_additive(rng):
    n = rng.choice([1, 2, 2, 3, 4, 6])
    weights = sorted(rng.sample([0, 0, 1, 1, 2, 3, 4, 5, 7, 9, 10, 40, 50, 100, 900, 1000], n), reverse=True)
    if rng.random() < 0.1:
        rng.shuffle(weights)
    parts = []
    for w in weights:
        s = css_symbol(rng)
        parts.append(f'{w} {s}' if rng.random() < 0.8 else f'{s} {w}')
    return ', '.join(parts)


def gen_rule(rng, name, names, valid_bias=0.9):
    system = gen_system(rng, names)
    decls = []
    if rng.random() < 0.92:
        decls.append(f'system: {system}')
    first = system.split(' ')[0] if system else ''
    want_symbols = first in ('cyclic', 'numeric', 'alphabetic', 'symbolic', 'fixed') or 'system' not in ' '.join(decls)
    if want_symbols or rng.random() < 0.2:
        low = 2 if first in ('numeric', 'alphabetic') else 1
        if rng.random() > valid_bias:
            low = 0
        n = rng.choice([low, low, low + 1, 2, 3, 5, 10])
        decls.append('symbols: ' + ' '.join(css_symbol(rng) for _ in range(n)))
    if first == 'extends' and rng.random() < 0.3:
        # an `extends` rule is registered whatever it declares: too few (or no) symbols of its own
        decls.append('symbols: ' + ' '.join(css_symbol(rng) for _ in range(rng.choice([0, 0, 1, 1, 2]))))
    if first == 'additive' or rng.random() < 0.12:
        decls.append('additive-symbols: ' + gen_additive(rng))
    if rng.random() < 0.45:
        decls.append('range: ' + gen_range(rng))
    if rng.random() < 0.35:
        decls.append('pad: ' + rng.choice(['0 "0"', '2 "0"', '3 x', '5 "ab"', '"0" 4', '1 ""', '7 é', '-1 x', '2']))
    if rng.random() < 0.35:
        decls.append('negative: ' + rng.choice(['"-"', '"(" ")"', 'neg', '"minus " ""', '"--" "+"', '"" ""', 'a b c']))
    if rng.random() < 0.3:
        decls.append('prefix: ' + rng.choice(['"["', 'p', '""', '"§ "']))
    if rng.random() < 0.3:
        decls.append('suffix: ' + rng.choice(['"]"', '")"', '""', '": "', 's']))
    if rng.random() < 0.5:
        decls.append('fallback: ' + rng.choice(names + ['decimal', 'lower-roman', 'nosuch', 'upper-alpha', 'none']))
    rng.shuffle(decls)
    return f'@counter-style {name} {{ ' + '; '.join(decls) + ' }'


def gen_sheet(rng, base):
    names = list(NAMES)
    extra = []
    if base == 'ua' and rng.random() < 0.25:
        extra = [rng.choice(['lower-roman', 'decimal', 'disc', 'upper-alpha', 'cjk-decimal', 'decimal-leading-zero'])]
    if base == 'empty' and rng.random() < 0.5:
        extra = ['decimal']
    rules = []
    for name in rng.sample(names, rng.choice([1, 2, 3, 4, 6])) + extra:
        if name == 'decimal' and base == 'empty':
            # never an `extends` decimal without the UA table: resolve_counter's `while extends` would not end
            if rng.random() < 0.7:
                rules.append('@counter-style decimal { system: numeric; symbols: "0" "1" "2" "3" "4" "5" "6" "7" "8" "9" }')
            else:
                rules.append('@counter-style decimal { system: cyclic; symbols: d e; range: 1 3; fallback: '
                             + rng.choice(names + ['decimal']) + ' }')
            continue
        rules.append(gen_rule(rng, name, names))
    return '\n'.join(rules)


VALUES = [0, 1, 2, 3, 4, 5, 9, 10, 11, 26, 27, 52, 53, 99, 100, 399, 400, 1000, 3999, 4000, 5000,
          -1, -2, -3, -9, -10, -27, -50, -100, -4000]


def gen_value(rng):
    r = rng.random()
    if r < 0.6:
        return rng.choice(VALUES)
    if r < 0.9:
        return rng.randint(-60, 6000)
    return rng.choice([20000, -20000, 12345, 65536, -9999])  # symbolic/additive output grows linearly with the value


def gen_name(rng, cs):
    r = rng.random()
    if r < 0.62 and cs:
        return rng.choice(sorted(k for k in cs if k in NAMES) or sorted(cs))
    if r < 0.72:
        return rng.choice(['nosuch', 'decimal', 'lower-roman', 'disc', 'hebrew', 'cjk-decimal', 'decimal-leading-zero'])
    if r < 0.8:
        return ('string', rng.choice(['*', '', 'ab', '→ ']))
    system = rng.choice(['cyclic', 'numeric', 'alphabetic', 'symbolic', 'fixed'])
    n = rng.choice([2, 3, 5]) if system in ('numeric', 'alphabetic') else rng.choice([1, 2, 3])
    return ('symbols()', (system,) + tuple(rng.choice(['a', 'b', '*', 'xy', '0', '1', '']) for _ in range(n)))
