"""C07 generators: CSS value vocabulary drawn from the repo's own validators, token soup, declarations.

The ident vocabulary is harvested (AST, string constants) from the validation modules of the tree under
check, so a keyword added to a validator enters the generators at the next run.  Per property, the
accepted single-token values are discovered by calling the real validator ("own grammar").
Every random choice is drawn from the `rng` passed in.
"""
import ast
import functools
import re

from vlib.paths import REPO

IDENT_RE = re.compile(r'^-?[a-z][a-z0-9-]*$')
SOURCES = ('weasyprint/css/validation/properties.py', 'weasyprint/css/validation/expanders.py',
           'weasyprint/css/validation/descriptors.py', 'weasyprint/css/utils.py',
           'weasyprint/css/computed_values.py')

NUMBERS = ['0', '1', '2', '3', '-1', '1.5', '0.5', '100', '400', '700', '1e3', '+2', '-0', '0.0', '00', '1000',
           '-2.5', '99999999999', '1e999', '-1e999', '.5']
DIMENSIONS = ['10px', '-5px', '0px', '2em', '1.5em', '1ex', '1ch', '1rem', '50%', '0%', '100%', '-10%', '1in',
              '3pt', '1pc', '2cm', '5mm', '8q', '90deg', '1turn', '100grad', '1rad', '2dppx', '96dpi', '1dpcm',
              '1fr', '2fr', '0fr', '1s', '5xx', '1e3px', '1PX', '1Px', '10vw']
COLORS = ['red', 'blue', '#fff', '#12', '#abcdef', '#abcd', 'transparent', 'currentcolor', 'rgb(1,2,3)',
          'rgb(1 2 3 / 50%)', 'rgba(0,0,0,.5)', 'hsl(120, 50%, 50%)', 'rgb(1,2)', 'color(srgb 1 0 0)']
STRINGS = ['"s"', "'t'", '""', '"a b"', '"\\""', '"•"', "'\\'", '"\\A"']
URLS = ['url(a.png)', 'url("b.png")', 'url()', 'url(#frag)', 'url( "c" )', 'url(data:,x)', 'url("d" x)',
        'URL(e)', 'url(f g)']
FUNCTIONS = [
    'attr(x)', 'attr(x url)', 'attr(x px)', 'attr(x px, "1")', 'attr(x string, "s")', 'attr(x color)', 'attr()',
    'attr(1)', 'counter(c)', 'counter(c, upper-roman)', 'counters(c, ".")', 'counters(c)', 'counter()',
    'calc(1px + 2px)', 'min(1px, 2px)',
    'linear-gradient(red, blue)', 'linear-gradient(to right, red 10%, blue)', 'linear-gradient(45deg, red, blue)',
    'linear-gradient()', 'linear-gradient(red)', 'linear-gradient(1px, 2px)',
    'radial-gradient(circle at 1px 2px, red, blue)', 'radial-gradient(red, blue)', 'radial-gradient(at)',
    'radial-gradient(circle 1px 2px, red)', 'repeating-linear-gradient(red, blue 10px)',
    'repeating-radial-gradient(red, blue 10px)',
    'repeat(2, 1fr)', 'repeat(auto-fill, 10px)', 'repeat(2)', 'repeat()', 'minmax(1px, 1fr)', 'minmax(1px)',
    'fit-content(10px)', 'fit-content()', 'translate(1px, 2px)', 'translate(1px)', 'translatex(1px)',
    'rotate(3deg)', 'rotate(3)', 'scale(2)', 'scale(2, 3)', 'skew(1deg, 2deg)', 'matrix(1,2,3,4,5,6)',
    'matrix(1,2)', 'image-set(a)', 'leader(dotted)', 'leader("-")', 'leader(1)', 'leader()',
    'target-counter(attr(href), page)', 'target-counter(url(#a), page, decimal)', 'target-counters(attr(href), c, ".")',
    'target-text(url(#a))', 'target-text(attr(href), before)', 'target-counter()', 'target-text(1)',
    'string(x)', 'string(x, last)', 'string(x, bad)', 'string()', 'element(h)', 'element(h, first)', 'element()',
    'content()', 'content(before)', 'content(bad)', 'symbols(cyclic "a" "b")', 'symbols("a")', 'symbols()',
    'rect(1px, 2px, 3px, 4px)', 'rect(auto, auto, auto, auto)', 'rect(1px)', 'rect()', 'running(h)', 'running()',
    'cross-fade(a)', 'f()', 'f(,)', 'f(a,,b)', 'f(a,)', 'f(g(h()))', 'f(g(,))', 'format("woff")', 'local(x)',
    'local("x")', 'local()',
]
VARS = ['var(--a)', 'var(--a, 1px)', 'var(--a, red)', 'var(--b, var(--a))', 'var(--a,)', 'var()', 'var(a)',
        'var(--a, 1px, 2px)', 'VAR(--a)', 'var( --a )', 'rgb(var(--a), 2, 3)', 'translate(var(--a), 1px)',
        'linear-gradient(var(--a), blue)', 'linear-gradient(var(--a), rgb(0,0,0))', 'f(var(--a) g())',
        'f(g(var(--a)))', 'var(--a)px', 'var(--)', 'var(-a)', 'var(-a, 1px)', 'var(-)', 'rgb(var(-a), 2, 3)']
PUNCT = ['/', ',', '!', '#', '-', '+', '*', '~=', '|=', '^=', '$=', '||', '<!--', '-->', '@x', 'U+26', '.', ':',
         '=', '>', '&', '%', '\\', '!important', '! important', '--x', '-weasy-x', 'é', 'a.b', '1a', 'a1', '\\31 ']
BLOCKS = ['[a b]', '[]', '[a]', '(x)', '()', '{y}', '{}', '[a [b]]', '(1px + 2px)', '[1]']
BAD_NESTING = [')', ']', '}', '(', '[', '{', 'f(', '"unterminated', "'unterminated", 'url(un terminated',
               'url("x', '[a', '(a', 'f(a', '/*', '/* c */', '/* unterminated', 'a;b', ';', '"\n"', 'url(a\nb)',
               'f(]', '[)', '(]']
HUGE = ['9' * 40, '1' + '0' * 400 + 'px', '-' + '9' * 40, '0.' + '0' * 40 + '1', '1e-999', '1' + '0' * 30 + '%',
        'a' * 300, '"' + 'x' * 300 + '"']


@functools.lru_cache(maxsize=1)
def ident_vocabulary():
    """Every string constant of the validation sources that is a plain CSS identifier (sorted)."""
    out = set()
    for rel in SOURCES:
        tree = ast.parse((REPO / rel).read_text(encoding='utf-8'))
        for node in ast.walk(tree):
            if isinstance(node, ast.Constant) and isinstance(node.value, str) and IDENT_RE.match(node.value):
                if len(node.value) <= 30:
                    out.add(node.value)
    out.update(['inherit', 'initial', 'unset', 'revert', 'foo', 'x', 'Arial', 'AUTO', 'None', 'Red'])
    return sorted(out)


@functools.lru_cache(maxsize=1)
def atoms():
    """All single-token (or single component value) atoms, by class."""
    return {
        'ident': ident_vocabulary(), 'number': NUMBERS, 'dimension': DIMENSIONS, 'color': COLORS,
        'string': STRINGS, 'url': URLS, 'function': FUNCTIONS, 'var': VARS, 'punct': PUNCT, 'block': BLOCKS,
    }


@functools.lru_cache(maxsize=1)
def probe_atoms():
    a = atoms()
    return tuple(a['ident'] + a['number'] + a['dimension'] + a['color'] + a['string'] + a['url'] + a['function']
                 + a['block'] + ['/', ','])


def parse_value(text):
    """Component values of `x: <text>` as the real parser produces them (declaration.value)."""
    import tinycss2
    return tinycss2.parse_component_value_list(text)


def tokens_of(text):
    from weasyprint.css.utils import remove_whitespace
    return remove_whitespace(parse_value(text))


BASE_URL = 'http://c07.test/dir/'


def call_validator(name, text):
    """The funnelled validator on one value text.  -> ('ok', result list) | ('invalid', reason) | ('err', class)"""
    from weasyprint.css.utils import InvalidValues
    from weasyprint.css.validation.expanders import EXPANDERS
    from weasyprint.css.validation.properties import validate_non_shorthand
    validator = EXPANDERS.get(name, validate_non_shorthand)
    try:
        toks = tokens_of(text)
        if not toks:
            raise InvalidValues('no value')
        return 'ok', list(validator(toks, name, BASE_URL))
    except InvalidValues as exc:
        return 'invalid', (exc.args[0] if exc.args else None)
    except RecursionError:
        return 'err', 'RecursionError'
    except Exception as exc:  # noqa: BLE001 - classified by the caller
        return 'err', type(exc).__name__


@functools.lru_cache(maxsize=None)
def accepted_singles(name):
    """Atoms accepted alone by the real validator of `name` (its own single-token grammar)."""
    return tuple(a for a in probe_atoms() if call_validator(name, a)[0] == 'ok')


@functools.lru_cache(maxsize=1)
def atom_class():
    out = {}
    for cls, items in atoms().items():
        for a in items:
            out.setdefault(a, cls)
    return out


@functools.lru_cache(maxsize=None)
def accepted_classes(name):
    """Token classes of which the validator of `name` accepts at least one atom alone."""
    cls = atom_class()
    return tuple(sorted({cls.get(a, 'punct') for a in accepted_singles(name)}))


def all_names():
    from weasyprint.css.validation.expanders import EXPANDERS
    from weasyprint.css.validation.properties import PROPERTIES
    return sorted(PROPERTIES), sorted(EXPANDERS)


def soup_atom(rng):
    a = atoms()
    cls = rng.choice(['ident', 'ident', 'number', 'dimension', 'dimension', 'color', 'string', 'url', 'function',
                      'function', 'var', 'punct', 'block', 'bad', 'huge'])
    if cls == 'bad':
        return rng.choice(BAD_NESTING)
    if cls == 'huge':
        return rng.choice(HUGE)
    return rng.choice(a[cls])


def join_atoms(rng, parts):
    sep = rng.choice([' ', ' ', ' ', ' ', '  ', ' /**/ ', '\t', ', ', ' / ', ','])
    if sep in (', ', ' / ', ','):
        # one separator of that kind somewhere, spaces elsewhere
        if len(parts) < 2:
            return ' '.join(parts)
        k = rng.randrange(1, len(parts))
        return ' '.join(parts[:k]) + sep + ' '.join(parts[k:])
    return sep.join(parts)


def value_text(rng, name, kind):
    """A value text for property `name`.  kind: own | other | soup | adversarial"""
    props, shorthands = all_names()
    if kind == 'own':
        singles = accepted_singles(name)
        if not singles:
            kind = 'other'
        else:
            n = rng.choice([1, 1, 1, 2, 2, 3, 4, 5])
            return join_atoms(rng, [rng.choice(singles) for _ in range(n)])
    if kind == 'near':
        # the right kinds of tokens, not necessarily the right ones: any atom of a class the property accepts
        classes = accepted_classes(name) or ('ident',)
        n = rng.choice([1, 1, 1, 2, 2, 3])
        return join_atoms(rng, [rng.choice(atoms()[rng.choice(classes)]) for _ in range(n)])
    if kind == 'other':
        other = rng.choice(props + shorthands)
        singles = accepted_singles(other) or ('auto',)
        n = rng.choice([1, 1, 2, 3])
        return join_atoms(rng, [rng.choice(singles) for _ in range(n)])
    if kind == 'adversarial':
        pool = NUMBERS + HUGE + ['0', '-0', '0px', '-1px', 'auto', 'none', 'normal', '/', ',', 'inherit', 'initial']
        n = rng.choice([1, 2, 2, 3, 4, 5, 6])
        return ' '.join(rng.choice(pool) for _ in range(n))
    n = rng.choice([0, 1, 1, 2, 2, 3, 4, 6])
    return join_atoms(rng, [soup_atom(rng) for _ in range(n)]) if n else rng.choice(['', ' ', '/**/'])


def decl_name(rng, name):
    """Spelling variants of a declaration name."""
    r = rng.random()
    if r < 0.80:
        return name
    if r < 0.86:
        return name.upper()
    if r < 0.92:
        return '-weasy-' + name
    if r < 0.95:
        return '-webkit-' + name
    if r < 0.97:
        return '--' + name
    return name.capitalize()


def remove_ws(tokens):
    from weasyprint.css.utils import remove_whitespace
    return remove_whitespace(tokens)
