"""PM stage 2c harness: the stage-1 block/paragraph documents (harness/pm.py) extended with multi-column
containers.

box = dict(kind='para'|'block'|'columns', id, st, n, lineH, kids, span=False)
      a 'columns' box has count (column-count), balance (column-fill: balance | auto), gap (column-gap, px); its kids are stage-1
      boxes, those with span=True carry `column-span: all` (paragraphs, childless blocks, blocks with children).
Document = dict(pageH, pageW, ltr, root).
"""
from fractions import Fraction

from harness import docs, pm
from vlib import sx

PAGE_W = 192          # 192 / 1, 2, 3, 4 are integers: column x positions are exact in floats


def box_wire(box, inherited_page=''):
    page = box['st']['page'] or inherited_page
    if box['kind'] == 'para':
        return ['para', box['id'], box['n'], box['lineH'], pm.style_wire(box['st'], inherited_page)]
    kids = [box_wire(k, page) for k in box['kids']]
    if box['kind'] == 'columns':
        if box.get('gap'):
            return ['columns', box['id'], pm.style_wire(box['st'], inherited_page), box['count'], box['balance'],
                    box['gap'], [bool(k.get('span')) for k in box['kids']], kids]
        return ['columns', box['id'], pm.style_wire(box['st'], inherited_page), box['count'], box['balance'],
                [bool(k.get('span')) for k in box['kids']], kids]
    return ['block', box['id'], pm.style_wire(box['st'], inherited_page), kids]


def doc_line(doc):
    return sx.line('pmcol', doc['pageH'], doc.get('pageW', PAGE_W), doc['ltr'], box_wire(doc['root']))


def box_html(box):
    span = ';column-span:all' if box.get('span') else ''
    if box['kind'] == 'para':
        words = '<br>'.join(f'w{box["id"]}x{i}' for i in range(box['n']))
        return f'<p id="n{box["id"]}" style="{pm.css_of(box["st"], "para", box["lineH"])}{span}">{words}</p>'
    inner = ''.join(box_html(k) for k in box['kids'])
    extra = ''
    if box['kind'] == 'columns':
        fill = 'balance' if box['balance'] else 'auto'
        extra = f';column-count:{box["count"]};column-gap:{pm.px(box.get("gap", 0))};column-fill:{fill}'
    return f'<div id="n{box["id"]}" style="{pm.css_of(box["st"], "block")}{extra}{span}">{inner}</div>'


def doc_html(doc):
    root = doc['root']
    body = root['kids'][0]
    inner = ''.join(box_html(k) for k in body['kids'])
    direction = 'ltr' if doc['ltr'] else 'rtl'
    width = doc.get('pageW', PAGE_W)
    extra = ''
    if body['kind'] == 'columns':
        fill = 'balance' if body['balance'] else 'auto'
        extra = f';column-count:{body["count"]};column-gap:{pm.px(body.get("gap", 0))};column-fill:{fill}'
    return (
        f'<html id="n{root["id"]}" style="direction:{direction};{pm.css_of(root["st"], "block")}"><head><style>'
        f'@page{{size:{pm.px(width)} {pm.px(doc["pageH"])};margin:0}}</style></head>'
        f'<body id="n{body["id"]}" style="{pm.css_of(body["st"], "block")}{extra}">{inner}</body></html>')


# ---------------------------------------------------------------------------------------------
# real pipeline

def run_real(doc):
    """Lay the document out with the real code; return the canonical output line."""
    from weasyprint import DEFAULT_OPTIONS
    from weasyprint.css.counters import CounterStyle
    from weasyprint.document import Document
    from weasyprint.formatting_structure import boxes
    from weasyprint.formatting_structure.build import build_formatting_structure
    from weasyprint.layout import layout_document

    html = docs.html(doc_html(doc))
    _, _, font_config = docs._env()
    counter_style = CounterStyle()
    options = dict(DEFAULT_OPTIONS)
    context = Document._build_layout_context(html, font_config, counter_style, options)
    root_box = build_formatting_structure(
        html.etree_element, context.style_for, context.get_image_from_uri, html.base_url,
        context.target_collector, counter_style, context.footnotes)
    pages = list(layout_document(html, root_box, context))
    maker = context.page_maker

    line_of = {}
    for page in pages:
        for box in page.descendants():
            if isinstance(box, boxes.LineBox):
                pid, i = pm.line_ident(box)
                if pid is not None:
                    line_of[(pid, repr(getattr(box, 'resume_at', None)))] = i + 1

    out = []
    for index, page in enumerate(pages):
        ptype = page.page_type
        resume, next_page = maker[index + 1][0], maker[index + 1][1]
        root = page.children[0]
        out.append(['page', index, ptype.side == 'right', bool(ptype.blank), ptype.name or '-',
                    resume_wire(resume, doc['root'], line_of),
                    'any' if next_page['break'] == 'any' else next_page['break'],
                    'none' if next_page['page'] is None else (next_page['page'] or '-'),
                    frag_wire(root, boxes, None)])
    return sx.line(*out)


def resume_wire(resume, box, line_of):
    """The code's nested one-key dict, cut at the line box. Below a columns container the key is the
    position among the container's children; a spanning child is resumed at its own level (d7e3d63), like
    a child of a block."""
    if resume is None:
        return 'none'
    (index, sub), = resume.items()
    if box['kind'] == 'para':
        if sub is None:
            return ['n', index, 'none']
        return ['n', index, ['l', line_of.get((box['id'], repr(sub)), 'unknown')]]
    child = box['kids'][index] if index < len(box['kids']) else None
    if sub is None or child is None:
        return ['n', index, 'none']
    return ['n', index, resume_wire(sub, child, line_of)]


def frag_wire(box, boxes, column_x):
    """`column_x`: position_x of the enclosing column (None outside columns): every descendant of a column
    must sit at the column's x (checked here, a mismatch is made visible in the output)."""
    fr = pm.fr
    ident = int(box.element.get('id')[1:])
    geo = [fr(box.position_y), fr(box.margin_top), fr(box.margin_bottom), fr(box.padding_top),
           fr(box.padding_bottom), fr(box.border_top_width), fr(box.border_bottom_width), fr(box.height)]
    if getattr(box, 'is_column', False):
        x = fr(box.position_x)
        return ['c', ident, x, *geo, [frag_wire(child, boxes, x) for child in box.children]]
    index = getattr(box, 'index', 0)
    tail = []
    if column_x is not None and fr(box.position_x) != column_x:
        tail = [['x', fr(box.position_x)]]
    if box.children and isinstance(box.children[0], boxes.LineBox):
        lines = []
        for line in box.children:
            _, i = pm.line_ident(line)
            lines.append([i, fr(line.position_y)])
        return ['p', ident, index, *geo, lines, *tail]
    kind = 'b'
    if box.style['column_count'] != 'auto':
        kind = 'm'
        column_x = None
        if fr(box.position_x) != 0:
            tail = [['x', fr(box.position_x)]]
    return [kind, ident, index, *geo, [frag_wire(child, boxes, column_x) for child in box.children], *tail]


# ---------------------------------------------------------------------------------------------
# generator

def gen_doc(rng, size=None, mode=None):
    """A random document with (mostly) one multi-column container among stage-1 content.

    mode: 'auto' (column-fill:auto + explicit height, no spans), 'balance' (no spans), 'span', 'plain'
    (no container: the stage-1 fragment), None = drawn.
    Lengths are small dyadic rationals (exact in binary floating point); column-count 3 is drawn only with
    lengths that are multiples of 3 so that the balancing division stays exact."""
    counter = [0]

    def nid():
        counter[0] += 1
        return counter[0]

    if mode is None:
        mode = rng.choice(['auto', 'balance', 'balance', 'span', 'span', 'span', 'mixed', 'mixed', 'plain'])
    count = rng.choice([1, 2, 2, 2, 3, 4])
    unit = 3 if count == 3 else 1       # all lengths multiples of `unit`
    line_h = rng.choice([10, 10, 10, 20, 12, Fraction(25, 2)]) if unit == 1 else rng.choice([12, 12, 9, 6, 15])
    page_h = rng.choice([3, 4, 5, 6, 7, 9]) * line_h + rng.choice([0, 0, 0, line_h / 2, 3])
    rich = rng.random() < 0.6
    quiet = rng.random() < 0.35         # few break properties: exercises the geometry paths

    def length(prob, choices=(2, 4, 5, 8, 10, Fraction(5, 2), 16)):
        if unit == 3:
            choices = (3, 6, 9, 12, Fraction(3, 2), 15)
        return Fraction(rng.choice(choices)) if rich and rng.random() < prob else 0

    def style(kind, in_cols):
        st = pm.default_style()
        st['mt'] = length(0.35)
        st['mb'] = length(0.35)
        if rich and rng.random() < 0.08:
            st['mt'] = -Fraction(rng.choice([2, 4, 6])) * unit
        if rich and rng.random() < 0.08:
            st['mb'] = -Fraction(rng.choice([2, 4, 6])) * unit
        st['pt'] = length(0.2)
        st['pb'] = length(0.2)
        st['bt'] = length(0.2, (1, 2, 4))
        st['bb'] = length(0.2, (1, 2, 4))
        if rng.random() < 0.07:
            st['height'] = Fraction(rng.choice([0, 10, 20, 30, 50, 80])) * unit
        if rng.random() < 0.05:
            st['minH'] = Fraction(rng.choice([5, 15, 40])) * unit
        if rng.random() < 0.05:
            st['maxH'] = Fraction(rng.choice([10, 30, 60])) * unit
        p_break = 0.08 if quiet else 0.3
        breaks = pm.BREAKS + (['column', 'avoid-column', 'column'] if in_cols else [])
        if rng.random() < p_break:
            st['brkBefore'] = rng.choice(breaks)
        if rng.random() < p_break:
            st['brkAfter'] = rng.choice(breaks)
        if rng.random() < (0.05 if quiet else 0.2):
            st['brkInside'] = rng.choice(['avoid', 'avoid-page', 'avoid-column', 'auto'])
        st['clone'] = rng.random() < 0.1
        if rng.random() < (0.03 if quiet else 0.1):
            st['page'] = rng.choice(['pa', 'pb'])
        if kind == 'para':
            st['orphans'] = rng.choice([1, 1, 1, 2, 2, 3, 4])
            st['widows'] = rng.choice([1, 1, 1, 2, 2, 3, 4])
        return st

    budget = [size if size is not None else rng.choice([3, 4, 6, 8, 12])]

    def para(in_cols=False):
        return dict(kind='para', id=nid(), n=rng.choice([1, 1, 2, 3, 4, 5, 7, 9, 12]), lineH=Fraction(line_h),
                    st=style('para', in_cols), kids=[])

    def block(depth, in_cols=False):
        kids = []
        for _ in range(rng.choice([0, 1, 1, 2, 2, 3, 4])):
            if budget[0] <= 0:
                break
            budget[0] -= 1
            if depth < 3 and rng.random() < 0.3:
                kids.append(block(depth + 1, in_cols))
            else:
                kids.append(para(in_cols))
        st = style('block', in_cols)
        if not kids and rng.random() < 0.3:
            # an empty block with `height: 0` collapses through like one with `height: auto` (block.py:
            # `box.height in ('auto', 0)`); with margins on both sides the difference is visible
            st['height'] = Fraction(0)
            if rng.random() < 0.7:
                st['mt'] = Fraction(rng.choice([2, 4, 8])) * unit
                st['mb'] = Fraction(rng.choice([2, 4, 8])) * unit
        return dict(kind='block', id=nid(), st=st, kids=kids)

    def columns(cmode):
        kids = []
        n_kids = rng.choice([0, 1, 1, 2, 2, 3, 3, 4, 5]) if cmode != 'span' else rng.choice([1, 2, 3, 3, 4, 5, 6])
        for _ in range(n_kids):
            budget[0] -= 1
            if cmode in ('span', 'mixed') and rng.random() < (0.4 if cmode == 'span' else 0.2):
                r_span = rng.random()
                if r_span < 0.6:
                    kid = para(True)
                    kid['n'] = rng.choice([1, 1, 1, 2, 3, 5])
                elif r_span < 0.8:
                    kid = dict(kind='block', id=nid(), st=style('block', True), kids=[])
                    if rng.random() < 0.7:
                        kid['st']['height'] = Fraction(rng.choice([2, 4, 10])) * unit
                else:
                    # a spanning block with block children (resumed at its own level since d7e3d63)
                    budget[0] = max(budget[0], 2)
                    kid = block(2, True)
                kid['span'] = True
            elif rng.random() < 0.3:
                kid = block(2, True)
            else:
                kid = para(True)
            kids.append(kid)
        st = style('block', False)
        st['height'] = 'auto'
        balance = True
        if cmode == 'auto':
            balance = False
            if rng.random() < 0.75:
                st['height'] = Fraction(rng.choice([1, 2, 3, 4, 6])) * line_h + rng.choice([0, 0, line_h / 2])
        elif cmode == 'mixed':
            balance = rng.random() < 0.6
            if rng.random() < 0.3:
                st['height'] = Fraction(rng.choice([1, 2, 3, 4, 6])) * line_h + rng.choice([0, 0, line_h / 2])
        # column-gap: the used column width (192 - (count - 1) * gap) / count stays a dyadic rational
        gap = Fraction(rng.choice([0, 0, 0, 6, 12, 24]))
        return dict(kind='columns', id=nid(), st=st, count=count, balance=balance, gap=gap, kids=kids)

    def outer_block(depth):
        """A stage-1 block that may hold the container."""
        kids = []
        for _ in range(rng.choice([1, 1, 2, 2, 3])):
            budget[0] -= 1
            r = rng.random()
            if r < 0.4 and not placed[0]:
                placed[0] = True
                kids.append(columns(mode))
            elif r < 0.55 and depth < 3:
                kids.append(block(depth + 1))
            else:
                kids.append(para())
        return dict(kind='block', id=nid(), st=style('block', False), kids=kids)

    placed = [mode == 'plain']
    body_kids = []
    while budget[0] > 0 or not body_kids:
        budget[0] -= 1
        r = rng.random()
        if not placed[0] and r < 0.45:
            placed[0] = True
            body_kids.append(columns(mode))
        elif r < 0.65:
            body_kids.append(outer_block(1))
        elif r < 0.8:
            body_kids.append(block(1))
        else:
            body_kids.append(para())
    if not placed[0]:
        body_kids.insert(rng.randrange(len(body_kids) + 1), columns(mode))
    if mode != 'plain' and rng.random() < 0.08:       # a second container
        body_kids.append(columns(rng.choice(['auto', 'balance', 'span'])))
    body_st = pm.default_style()
    root_st = pm.default_style(isRoot=True)
    if rng.random() < 0.3:
        body_st['mt'] = Fraction(rng.choice([4, 8])) * unit
        body_st['mb'] = Fraction(rng.choice([4, 8])) * unit
    if rng.random() < 0.15:
        body_st['pt'] = Fraction(rng.choice([2, 4])) * unit
    if rng.random() < 0.1:
        root_st['brkBefore'] = rng.choice(['left', 'right', 'recto', 'verso', 'page'])
    if rng.random() < 0.08:
        root_st['page'] = 'pr'
    body = dict(kind='block', id=nid(), st=body_st, kids=body_kids)
    if mode != 'plain' and rng.random() < 0.04:
        # <body> itself is the container: inner containers become plain blocks, spans: paragraphs / childless blocks
        for kid in body_kids:
            for box in walk(kid):
                if box['kind'] == 'columns':
                    box['kind'] = 'block'
                    for inner in box['kids']:
                        inner.pop('span', None)
        for kid in body_kids:
            if rng.random() < 0.2 and (kid['kind'] == 'para' or not kid['kids']):
                kid['span'] = True
        body.update(kind='columns', count=count, balance=rng.random() < 0.6, gap=Fraction(rng.choice([0, 0, 12])))
    root = dict(kind='block', id=nid(), st=root_st, kids=[body])
    return dict(pageH=Fraction(page_h), pageW=Fraction(PAGE_W), ltr=rng.random() < 0.8, root=root)


def walk(box):
    yield box
    for kid in box['kids']:
        yield from walk(kid)


def features(doc):
    tags = set(pm.features(doc))
    for box in walk(doc['root']):
        if box['kind'] == 'columns':
            tags.add('columns')
            tags.add(f'count{box["count"]}')
            tags.add('fill-balance' if box['balance'] else 'fill-auto')
            if box['st']['height'] != 'auto':
                tags.add('columns-height')
            if any(k.get('span') for k in box['kids']):
                tags.add('span')
            for kid in box['kids']:
                for sub in walk(kid):
                    if 'column' in (sub['st']['brkBefore'], sub['st']['brkAfter']):
                        tags.add('break-column')
    return sorted(tags)


def has_columns(doc):
    return any(b['kind'] == 'columns' for b in walk(doc['root']))


# ---------------------------------------------------------------------------------------------
# shrinking

def shrink(doc, still_fails, budget=400):
    """Greedy structural minimisation (pm.shrink plus: container -> fewer columns, fill auto, no span)."""
    import copy
    doc = pm.shrink(doc, still_fails, budget)
    spent = [0]

    def attempt(candidate):
        spent[0] += 1
        if spent[0] > budget:
            return False
        try:
            return still_fails(candidate)
        except Exception:  # noqa: BLE001
            return False

    changed = True
    while changed and spent[0] <= budget:
        changed = False
        boxes_ = list(walk(doc['root']))
        for idx, box in enumerate(boxes_):
            edits = []
            if box.get('span'):
                edits.append(('span', False))
            if box['kind'] == 'columns':
                if box['count'] > 1:
                    edits.append(('count', box['count'] - 1 if box['count'] != 4 else 2))
                if box['balance']:
                    edits.append(('balance', False))
                if not box['kids']:
                    edits.append(('kind', 'block'))
            for key, value in edits:
                cand = copy.deepcopy(doc)
                target = list(walk(cand['root']))[idx]
                target[key] = value
                if attempt(cand):
                    doc, changed = cand, True
                    break
            if changed:
                break
        if changed:
            doc = pm.shrink(doc, still_fails, max(0, budget - spent[0]))
    return doc
