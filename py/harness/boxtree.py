"""Real box trees from abstract kind-trees, and their canonical serialisation (C08).

Abstract node (JSON-able, kept in replay files):
    [kind, style_letters, ws, [colspan, rowspan, span] (raw attribute strings or None), inst_letters, text, kids]
The wire form is the one documented in lean/WpModel/Drive/BoxTree.lean.
"""
import xml.etree.ElementTree as ET

from extract.char_table import ALPHABET

KINDS = [
    'BlockBox', 'LineBox', 'InlineBox', 'TextBox', 'InlineBlockBox', 'BlockReplacedBox', 'InlineReplacedBox',
    'TableBox', 'InlineTableBox', 'TableRowGroupBox', 'TableRowBox', 'TableColumnGroupBox', 'TableColumnBox',
    'TableCellBox', 'TableCaptionBox', 'FlexBox', 'InlineFlexBox', 'GridBox', 'InlineGridBox']
WS_VALUES = ['normal', 'nowrap', 'pre', 'pre-wrap', 'pre-line']
ATTR_VALUES = [None, None, None, '1', '2', '3', '4', '0', ' 2 ', '-1', 'x', '', '1.5', '02', '70']


TT_LETTERS = {'c': 'capitalize', 'u': 'uppercase', 'l': 'lowercase', 'w': 'full-width'}


def initial_values():
    from weasyprint.css import properties
    return properties.INITIAL_VALUES


class MStyle(dict):
    """A computed style for mock boxes: explicit entries, initial values otherwise."""
    cache = {'ratio_ch': {}, 'ratio_ex': {}}
    parent_style = None

    def __missing__(self, key):
        return initial_values()[key]

    def copy(self):
        return MStyle(self)


def style_from(letters, ws):
    style = MStyle()
    style['white_space'] = ws
    if 'f' in letters:
        style['float'] = 'left'
    if 'n' in letters:
        style['float'] = 'footnote'
    if 'a' in letters:
        style['position'] = 'absolute'
    if 'r' in letters:
        style['position'] = ('running()', 'x')
    for letter, value in TT_LETTERS.items():
        if letter in letters:
            style['text_transform'] = value
    if 'y' in letters:
        style['hyphens'] = 'none'
    if 'h' in letters:
        style['display'] = ('table-header-group',)
    if 't' in letters:
        style['display'] = ('table-footer-group',)
    if 'b' in letters:
        style['caption_side'] = 'bottom'
    return style


def make_real(node, parent_style=None):
    """Abstract node -> real box (children built recursively)."""
    from weasyprint.css import AnonymousStyle
    from weasyprint.formatting_structure import boxes
    kind, letters, ws, attrs, inst, text, kids = node
    cls = getattr(boxes, kind)
    style = style_from(letters, ws)
    if 'A' in letters:
        anon = AnonymousStyle(parent_style if parent_style is not None else MStyle())
        anon.update(style)
        style = anon
    attrib = {}
    for name, value in zip(('colspan', 'rowspan', 'span'), attrs):
        if value is not None:
            attrib[name] = value
    tag = 'div'
    element = ET.Element(tag, attrib)
    if kind == 'TextBox':
        box = cls(tag, style, element, text or 'x')
        box.text = text
    elif kind in ('BlockReplacedBox', 'InlineReplacedBox'):
        box = cls(tag, style, element, None)
    else:
        box = cls(tag, style, element, [make_real(k, style) for k in kids])
    if 'l' in inst:
        box.leading_collapsible_space = True
    if 't' in inst:
        box.trailing_collapsible_space = True
    return box


def parse_attr(element, name):
    if element is None:
        return None
    try:
        return int(element.get(name, '').strip())
    except ValueError:
        return None


def style_letters(style):
    from weasyprint.css import AnonymousStyle
    out = ''
    if style['float'] in ('left', 'right'):
        out += 'f'
    if style['float'] == 'footnote':
        out += 'n'
    if style['position'] in ('absolute', 'fixed'):
        out += 'a'
    if style['position'][0] == 'running()':
        out += 'r'
    if style['display'] == ('table-header-group',):
        out += 'h'
    if style['display'] == ('table-footer-group',):
        out += 't'
    if style['caption_side'] == 'bottom':
        out += 'b'
    if isinstance(style, AnonymousStyle):
        out += 'A'
    for letter, value in TT_LETTERS.items():
        if style['text_transform'] == value:
            out += letter
    if style['hyphens'] == 'none':
        out += 'y'
    return out or '-'


def ser(box):
    """Real box -> nested list in the wire format."""
    from weasyprint.formatting_structure import boxes
    kind = type(box).__name__
    flags = ''
    if box.leading_collapsible_space:
        flags += 'l'
    if box.trailing_collapsible_space:
        flags += 't'
    if box.is_table_wrapper:
        flags += 'w'
    if getattr(box, 'is_header', False):
        flags += 'h'
    if getattr(box, 'is_footer', False):
        flags += 'f'
    if box.is_flex_item:
        flags += 'x'
    if box.is_grid_item:
        flags += 'g'
    if 'is_floated' in box.__dict__:
        flags += 'n'
    text = [ord(c) for c in box.text] if isinstance(box, boxes.TextBox) else []
    return [
        kind, style_letters(box.style), box.style['white_space'],
        [parse_attr(box.element, 'colspan'), parse_attr(box.element, 'rowspan'), parse_attr(box.element, 'span')],
        [flags or '-', getattr(box, 'colspan', 1), getattr(box, 'rowspan', 1), getattr(box, 'grid_x', None)],
        text, [ser(c) for c in box.children], [ser(c) for c in getattr(box, 'column_groups', ())]]


def count(node):
    return 1 + sum(count(k) for k in node[6])


def kinds_of(node, out=None):
    out = set() if out is None else out
    out.add(node[0])
    for k in node[6]:
        kinds_of(k, out)
    return out


# ---- generators -----------------------------------------------------------------------------

WORDS = ['a', 'b', 'ab', 'x', 'yz', 'A', '1', '\u00e9', '\u00df', '\u01c6', '\u4e2d', '-', '.', '(a', 'a\u0301',
         '\u00b2', '\u2167', 'x\u00ady']
SPACES = [' ', ' ', ' ', '  ', '\t', '\n', '\r', '\r\n', ' \n ', '\t \t', '\n\n', '\f', '\u00a0', '\u2003',
          '\u2028', '\u200b', ' \r', '\n\r', '   ', ' \t\n']


def random_text(rng, allow_empty=False):
    """Words and white space from the tabulated alphabet."""
    shape = rng.random()
    if allow_empty and shape < 0.05:
        return ''
    if shape < 0.25:
        return rng.choice([' ', ' ', '  ', '\n', ' \n', '\t', ' \t ', '\r\n', '\u00a0', '  ', '\f', '\u2003 '])
    parts = []
    if rng.random() < 0.4:
        parts.append(rng.choice(SPACES))
    for i in range(rng.choice([1, 1, 2, 2, 3, 4])):
        if i:
            parts.append(rng.choice(SPACES))
        parts.append(rng.choice(WORDS))
    if rng.random() < 0.4:
        parts.append(rng.choice(SPACES))
    text = ''.join(parts)
    assert all(ord(c) in ALPHABET for c in text), text
    return text


def random_letters(rng, p_out=0.12, anon=0.2):
    out = ''
    r = rng.random()
    if r < p_out:
        out += rng.choice(['f', 'a', 'a', 'f', 'r', 'n', 'fa'])
    if rng.random() < anon:
        out += 'A'
    return out or '-'


def random_ws(rng, parent_ws=None):
    if parent_ws is not None and rng.random() < 0.7:
        return parent_ws
    return rng.choice(['normal', 'normal', 'normal', 'nowrap', 'pre', 'pre-wrap', 'pre-line'])


def text_node(rng, ws, allow_empty=True, letters=None):
    inst = 'l' if rng.random() < 0.1 else '-'
    return ['TextBox', letters if letters is not None else random_letters(rng, 0.03, 0.8), ws,
            [None, None, None], inst, random_text(rng, allow_empty), []]


INLINE_KINDS = ['TextBox', 'TextBox', 'TextBox', 'InlineBox', 'InlineBox', 'InlineBlockBox', 'InlineReplacedBox',
                'InlineFlexBox', 'InlineGridBox']
BLOCK_KINDS = ['BlockBox', 'BlockBox', 'BlockBox', 'BlockReplacedBox', 'FlexBox', 'GridBox', 'TableBox',
               'InlineTableBox']
TABLE_KINDS = ['TableRowGroupBox', 'TableRowBox', 'TableColumnGroupBox', 'TableColumnBox', 'TableCellBox',
               'TableCaptionBox', 'TableBox', 'InlineTableBox']


def random_attrs(rng, kind):
    if kind in ('TableCellBox', 'TableRowBox', 'TableColumnBox', 'TableColumnGroupBox') or rng.random() < 0.05:
        return [rng.choice(ATTR_VALUES), rng.choice(ATTR_VALUES), rng.choice(ATTR_VALUES)]
    return [None, None, None]


def random_tree(rng, depth, parent_ws='normal', pool=None, width=(0, 1, 2, 2, 3, 3, 4, 5), p_out=0.12,
                line_boxes=0.0):
    """A tree over every box class; `pool` weights the classes of the children."""
    pool = pool or (INLINE_KINDS + BLOCK_KINDS + TABLE_KINDS)
    kind = rng.choice(pool)
    if rng.random() < line_boxes:
        kind = 'LineBox'
    ws = random_ws(rng, parent_ws)
    if kind == 'TextBox':
        return text_node(rng, ws)
    letters = random_letters(rng, p_out)
    if kind == 'TableRowGroupBox' and rng.random() < 0.4:
        letters = letters.replace('-', '') + rng.choice(['h', 't'])
    if kind == 'TableCaptionBox' and rng.random() < 0.4:
        letters = letters.replace('-', '') + 'b'
    inst = rng.choice(['-', '-', '-', '-', '-', 'l', 't', 'lt'])
    kids = []
    if kind not in ('BlockReplacedBox', 'InlineReplacedBox') and depth > 0:
        kids = [random_tree(rng, depth - 1, ws, pool, width, p_out, line_boxes) for _ in range(rng.choice(width))]
    return [kind, letters, ws, random_attrs(rng, kind), inst, '', kids]


def parse_attr_raw(raw, floor):
    """`max(int(raw.strip()), floor)` with 1 when the attribute is absent or not an integer."""
    if raw is None:
        return 1
    try:
        return max(int(raw.strip()), floor)
    except ValueError:
        return 1


def count_ser(ser_box):
    """Number of boxes of a serialised tree."""
    return 1 + sum(count_ser(k) for k in ser_box[6]) + sum(count_ser(k) for k in ser_box[7])


def texts_of_ser(ser_box, out=None):
    """Texts of the text boxes of a serialised tree."""
    out = [] if out is None else out
    if ser_box[0] == 'TextBox':
        out.append(''.join(chr(c) for c in ser_box[5]))
    for k in ser_box[6]:
        texts_of_ser(k, out)
    return out


def kind_count_ser(ser_box, kind):
    return (ser_box[0] == kind) + sum(kind_count_ser(k, kind) for k in ser_box[6])


def text_nodes(node):
    """The abstract TextBox nodes of a tree, in tree order (to let a generator rewrite their texts)."""
    if node[0] == 'TextBox':
        yield node
    for k in node[6]:
        yield from text_nodes(k)
