"""Generators and canonicalisers shared by the C18 sections (py/props/c18.py)."""
import traceback
from fractions import Fraction
from types import SimpleNamespace

F = Fraction


def esc(s):
    """Injective escape of an arbitrary string to a wire atom (`%e` = empty)."""
    if s == '':
        return '%e'
    out = []
    for c in s:
        if c == '%' or c in ' ()\n\t\r\x0c\x0b\x00' or ord(c) < 0x20 or 0xD800 <= ord(c) <= 0xDFFF:
            out.append('%' + '%02X' % ord(c) if ord(c) < 256 else '%u' + '%04X' % ord(c))
        else:
            out.append(c)
    return ''.join(out)


def cps(s):
    return [ord(c) for c in s]


def frac(x):
    """Exact rational of a Python number."""
    if isinstance(x, Fraction):
        return x
    if isinstance(x, int):
        return Fraction(x)
    return Fraction(x)


def err_outcome(exc):
    """`err:<Class>` (+ the assert site read from the failing line for AssertionError)."""
    name = type(exc).__name__
    if isinstance(exc, AssertionError):
        line = traceback.extract_tb(exc.__traceback__)[-1].line or ''
        if 'len(skipped_levels)' in line:
            return 'err:AssertionError@depth==len'
        if 'depth >= 1' in line:
            return 'err:AssertionError@depth>=1'
        return 'err:AssertionError@' + esc(line)
    return f'err:{name}'


def outcome(fn):
    try:
        return fn()
    except Exception as exc:  # noqa: BLE001 - every class is an outcome kind
        return err_outcome(exc)


# ---------------------------------------------------------------- numbers

def dyadic(rng, lo=-64, hi=256, den=4):
    return F(rng.randint(lo * den, hi * den), den)


def any_rat(rng):
    k = rng.random()
    if k < 0.1:
        return F(0)
    if k < 0.2:
        return F(rng.randint(-10 ** 9, 10 ** 9), rng.choice([1, 1, 3, 7, 1000]))
    if k < 0.3:
        return F(rng.randint(-5, 5), rng.choice([1, 2, 3]))
    return dyadic(rng)


def rand_matrix_values(rng, adversarial=False):
    kind = rng.random()
    if kind < 0.25:
        return (F(1), F(0), F(0), F(1), F(0), F(0))
    if kind < 0.5:  # page-like: scale and flip
        s = rng.choice([F(3, 4), F(3, 2), F(3, 8), F(1), F(2)])
        return (s, F(0), F(0), -s, F(0), dyadic(rng, 0, 400) * s)
    if kind < 0.7:  # axis-aligned
        return (rng.choice([F(1), F(2), F(1, 2), F(-1), F(3, 2), F(0)]), F(0), F(0),
                rng.choice([F(1), F(2), F(1, 2), F(-1), F(0)]), dyadic(rng), dyadic(rng))
    if kind < 0.8:  # quarter turns
        a, b = rng.choice([(0, 1), (0, -1), (-1, 0), (1, 0)])
        return (F(a), F(b), F(-b), F(a), dyadic(rng), dyadic(rng))
    gen = any_rat if adversarial else (lambda r: dyadic(r, -4, 4))
    return (gen(rng), gen(rng), gen(rng), gen(rng), any_rat(rng) if adversarial else dyadic(rng),
            any_rat(rng) if adversarial else dyadic(rng))


def real_matrix(values):
    from weasyprint.matrix import Matrix
    return Matrix(*values)


# ---------------------------------------------------------------- bookmarks

LEVEL_PATTERNS = ('random', 'random', 'increasing', 'decreasing', 'zigzag', 'deep-skip', 'flat', 'sawtooth')


def rand_levels(rng, n, pattern=None, max_level=6):
    pattern = pattern or rng.choice(LEVEL_PATTERNS)
    if pattern == 'random':
        return [rng.randint(1, max_level) for _ in range(n)]
    if pattern == 'increasing':
        out, cur = [], 1
        for _ in range(n):
            out.append(cur)
            cur = min(cur + rng.choice([0, 1, 1, 2, 3]), max_level + 6)
        return out
    if pattern == 'decreasing':
        out, cur = [], max_level + rng.randint(0, 4)
        for _ in range(n):
            out.append(cur)
            cur = max(1, cur - rng.choice([0, 1, 1, 2, 3]))
        return out
    if pattern == 'zigzag':
        return [rng.choice([1, 2]) if i % 2 == 0 else rng.randint(3, max_level + 3) for i in range(n)]
    if pattern == 'deep-skip':
        return [rng.choice([1, max_level, max_level + 5, 2, 3]) for _ in range(n)]
    if pattern == 'flat':
        lvl = rng.randint(1, max_level)
        return [lvl] * n
    out, cur = [], 1  # sawtooth
    for _ in range(n):
        out.append(cur)
        cur = cur + 1 if rng.random() < 0.7 else rng.randint(1, cur)
    return out


def adversarial_level(rng):
    return rng.choice([0, 0, -1, -3, 10 ** 6, 10 ** 12, -10 ** 6])


def rand_state(rng, adversarial=False):
    if adversarial and rng.random() < 0.1:
        return rng.choice(['Closed', 'none', '', 'open ', 'CLOSED'])
    return 'closed' if rng.random() < 0.3 else 'open'


def split_pages(rng, items, max_pages=6):
    """Split a list anyhow over 1..max_pages pages (empty pages included)."""
    n_pages = rng.randint(1, max_pages)
    cuts = sorted(rng.randint(0, len(items)) for _ in range(n_pages - 1))
    out, prev = [], 0
    for cut in cuts + [len(items)]:
        out.append(items[prev:cut])
        prev = cut
    return out


def stub_page(bookmarks, height=None):
    return SimpleNamespace(bookmarks=bookmarks, height=height)


def dummy_last_by_depth(n):
    """`n` lists chained through placeholder subtrees (what Drive.Outline.dummyFrames mirrors)."""
    if n == 0:
        return [], []
    root = []
    lbd = [root]
    for k in range(1, n):
        children = []
        lbd[-1].append((f'_{k}', (0, F(0), F(0)), children, 'open'))
        lbd.append(children)
    return root, lbd


def tree_wire(tree):
    """Bookmark subtree list -> nested wire lists (label page x y state (children))."""
    return [[esc(label), page, frac(x), frac(y), esc(state), tree_wire(children)]
            for label, (page, x, y), children, state in tree]


def tree_size(tree):
    return sum(1 + tree_size(children) for _, _, children, _ in tree)


def tree_depth(tree):
    return 1 + max((tree_depth(children) for _, _, children, _ in tree), default=-1) if tree else 0


def rand_forest(rng, budget, depth=0, max_depth=6, n_pages=3, adversarial=False):
    """A random bookmark forest with about `budget` nodes: list of (label, (page, x, y), children, state)."""
    out = []
    counter = rand_forest.counter
    while budget > 0:
        take = rng.randint(1, budget)
        budget -= take
        kids_budget = take - 1 if depth < max_depth else 0
        if rng.random() < 0.35:
            budget += kids_budget
            kids_budget = 0
        label = f'n{next(counter)}'
        if rng.random() < 0.1:
            label = rng.choice(['', 'a b', 'Ünï (x)', '%e', 'x' * 40])
        page = rng.randrange(n_pages) if n_pages else 0
        if adversarial and rng.random() < 0.03:
            page = rng.choice([n_pages, n_pages + 3, -1, -n_pages, -n_pages - 1])
        kids = rand_forest(rng, kids_budget, depth + 1, max_depth, n_pages, adversarial)
        out.append((label, (page, dyadic(rng), dyadic(rng)), kids, rand_state(rng, adversarial)))
    return out


def _count():
    i = 0
    while True:
        yield i
        i += 1


rand_forest.counter = _count()


# ---------------------------------------------------------------- dates

def date_string(rng, fmt=None, tz=None):
    """A W3C date of one of the six formats -> (string, format index 1..6)."""
    fmt = fmt or rng.randint(1, 6)
    year = rng.choice([rng.randint(0, 9999), rng.randint(1990, 2030)])
    s = f'{year:04d}'
    if fmt >= 2:
        s += f'-{rng.randint(0, 12):02d}'
    if fmt >= 3:
        s += f'-{rng.randint(0, 31):02d}'
    if fmt >= 4:
        s += f'T{rng.randint(0, 23):02d}:{rng.randint(0, 59):02d}'
        if fmt >= 5:
            s += f':{rng.randint(0, 59):02d}'
        if fmt >= 6:
            s += '.' + ''.join(rng.choice('0123456789') for _ in range(rng.randint(1, 6)))
        if tz is None:
            tz = rng.choice(['Z', 'Z', None])
        if tz is None:
            tz = f'{rng.choice("+-")}{rng.choice([0, 0, rng.randint(0, 23)]):02d}:{rng.randint(0, 59):02d}'
        s += tz
    return s, fmt


DATE_ALPHABET = '0123456789-:TZ+. \t\n\r\x0c' + 'tz,/_x\x0b '


def mutate_date(rng, s):
    """One to three edits of a valid date: mostly-invalid adversarial stream."""
    for _ in range(rng.randint(1, 3)):
        k = rng.random()
        pos = rng.randint(0, len(s))
        if k < 0.3 and s:
            pos = min(pos, len(s) - 1)
            s = s[:pos] + s[pos + 1:]
        elif k < 0.6:
            s = s[:pos] + rng.choice(DATE_ALPHABET) + s[pos:]
        elif k < 0.9 and s:
            pos = min(pos, len(s) - 1)
            s = s[:pos] + rng.choice(DATE_ALPHABET) + s[pos + 1:]
        else:
            s = rng.choice([' ', '\n', '\t\r', '']) + s + rng.choice([' ', '\n', ' \x0c', '\n\n', ''])
    return s


def out_of_range_date(rng):
    """Right shape, one field out of the regex's range."""
    fields = {'month': rng.randint(0, 12), 'day': rng.randint(0, 31), 'hour': rng.randint(0, 23),
              'minute': rng.randint(0, 59), 'second': rng.randint(0, 59), 'tzh': rng.randint(0, 23),
              'tzm': rng.randint(0, 59)}
    bad = rng.choice(list(fields))
    fields[bad] = {'month': rng.choice([13, 19, 20, 99]), 'day': rng.choice([32, 39, 40, 99]),
                   'hour': rng.choice([24, 29, 30, 99]), 'minute': rng.choice([60, 99]),
                   'second': rng.choice([60, 61, 99]), 'tzh': rng.choice([24, 30, 99]),
                   'tzm': rng.choice([60, 99])}[bad]
    return (f'{rng.randint(0, 9999):04d}-{fields["month"]:02d}-{fields["day"]:02d}T{fields["hour"]:02d}:'
            f'{fields["minute"]:02d}:{fields["second"]:02d}{rng.choice("+-")}{fields["tzh"]:02d}:{fields["tzm"]:02d}')
