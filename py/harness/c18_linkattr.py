"""C18 — get_link_attribute (weasyprint/urls.py): which <a href> is a link into the document itself (internal,
a named destination) and which leaves it (external, the URL resolved against the base URL); and
urllib.parse.unquote as it is applied to the fragment.  Direct calls of the real function on an ElementTree
element against the Lean model `Wp.LinkAttr.getLinkAttribute`."""
from urllib.parse import quote, urljoin, urlsplit

from harness import c18_gen as G
from vlib import sx

BASES = [
    'http://example.org/doc.html', 'http://example.org/doc.html?x=1', 'http://example.org/dir/',
    'http://example.org/dir/doc.html?a=1&b=2', 'file:///tmp/a/doc.html', 'file:///tmp/a/doc.html?v=2',
    'http://example.org/doc.html#frag', 'http://example.org', 'https://example.org/a/b/c.html?', 'http://example.org/a;p?q=1',
    'http://EXAMPLE.org/Doc.html', 'HTTP://example.org/doc.html', 'http://example.org/d%C3%A9.html', 'http://example.org/dé.html',
    None, None, '', 'doc.html', '/abs/doc.html?x=1',
]
FRAGMENTS = ['', '#', '#a', '#top', '#a%20b', '#%C3%A9', '#é', '#a#b', '#%zz', '#a%', '#%4', '#%E2%82%AC', '#%E2%82', '#%FF%41',
             '#%C3%28', '#%F0%9F%98%80', '#%ED%A0%80', '#%C0%80', '#a+b', '#x(y)', '#%25', '#%2525', '#中%E6%96%87x',
             '#%e9%C3', '#%F4%90%80%80', '#%41%C3%A9%62']
OTHER_PATHS = ['other.html', 'dir/x.html', '../up.html', './', '/', '/doc.html', 'doc.html/', 'doc.htm', 'DOC.html', 'a;p']
QUERIES = ['', '?x=1', '?x=2', '?', '?a=1&b=2', '?b=2&a=1', '?q=é', '?v=2', '?q=1']
ABSOLUTE = ['http://example.org/doc.html', 'http://example.org/doc.html?x=1', 'https://example.org/doc.html',
            'http://example.org:80/doc.html', 'http://other.org/doc.html', 'mailto:x@example.org', 'data:text/plain,hi',
            'HTTP://example.org/doc.html', 'http://EXAMPLE.org/Doc.html', 'file:///tmp/a/doc.html', '//example.org/doc.html',
            'http://example.org/dé.html', 'http://example.org/d%C3%A9.html', 'http://example.org/a;p?q=1', 'javascript:void(0)']
SPACES = ['', '', '', ' ', '\n', '\t ', ' \r\n']


def base_path_name(base):
    """The last path segment of the base URL (a relative href naming the document itself)."""
    if not base:
        return 'doc.html'
    path = urlsplit(base).path
    return path.rsplit('/', 1)[-1]


def gen_case(rng):
    """(href or None, base or None) with the branches of get_link_attribute in mind: fragment only, the
    document's own URL spelled relatively / absolutely with the same or another query, other documents."""
    base = rng.choice(BASES)
    k = rng.random()
    fragment = rng.choice(FRAGMENTS)
    if k < 0.04:
        return None, base
    if k < 0.2:
        href = fragment
    elif k < 0.55:
        # the document itself: '', its own name, or its absolute URL without query / fragment — then a query
        own_query = ('?' + urlsplit(base).query) if base and urlsplit(base).query else ''
        stem = rng.choice(['', base_path_name(base), (base or '').split('#')[0].split('?')[0]])
        query = rng.choice([own_query, own_query, '', rng.choice(QUERIES)])
        href = stem + query + fragment
    elif k < 0.8:
        href = rng.choice(OTHER_PATHS) + rng.choice(QUERIES) + fragment
    else:
        href = rng.choice(ABSOLUTE) + (fragment if rng.random() < 0.7 else '')
    return rng.choice(SPACES) + href + rng.choice(SPACES), base


def opt_cps(s):
    return None if s is None else G.cps(s)


def line(href, base):
    return sx.line('linkattr', opt_cps(href), opt_cps(base))


def canonical(result):
    if result is None:
        return 'none'
    token, (kind, target) = result
    if token != 'url' or kind not in ('internal', 'external') or not isinstance(target, str):
        return 'bad-result:' + G.esc(repr(result))
    return f'({kind} {sx.dumps(G.cps(target))})'


def run_real(href, base):
    from xml.etree import ElementTree
    from weasyprint.urls import get_link_attribute
    element = ElementTree.Element('a', {} if href is None else {'href': href})
    return G.outcome(lambda: canonical(get_link_attribute(element, 'href', base)))


def tags(href, base, out):
    value = (href or '').strip()
    found = [out.split(' ')[0].strip('(') if out.startswith('(') else out.split(':')[0]]
    if value.startswith('#') and len(value) > 1:
        found.append('fragment-only')
    elif value and base:
        try:
            joined, parsed_base = urlsplit(urljoin(base, value)), urlsplit(base)
        except ValueError:
            return found + ['urlsplit-error']
        if joined.fragment:
            if joined[:3] == parsed_base[:3]:
                found.append('same-document' if joined.query == parsed_base.query else 'same-path-other-query')
            else:
                found.append('other-document-with-fragment')
        else:
            found.append('no-fragment')
    elif value:
        found.append('no-base')
    else:
        found.append('empty')
    if '%' in value.partition('#')[2]:
        found.append('fragment-escaped')
    return found


def judge(href, base, impl):
    """The clause: a link is internal exactly when its href names a fragment of this very document — `#name`, or a
    URL whose scheme, host, path and query are those of the document's URL — and then targets the unquoted
    fragment; any other link is external and carries the URL resolved against the base URL."""
    from weasyprint.urls import iri_to_uri, url_is_absolute
    if impl.startswith('err:') or impl.startswith('bad-result'):
        return f'get_link_attribute(href={href!r}, base_url={base!r}): {impl}'
    value = (href or '').strip()
    if value.startswith('#') and len(value) > 1:
        want = ('internal', reference_unquote(value[1:]))
    elif not value:
        want = None
    else:
        resolved = iri_to_uri(value if url_is_absolute(value) or not base else urljoin(base, value))
        want = ('external', resolved)
        if base:
            try:
                here, there = urlsplit(base), urlsplit(resolved)
            except ValueError:
                return None
            if there.fragment and (there.scheme, there.netloc, there.path, there.query) == (
                    here.scheme, here.netloc, here.path, here.query):
                want = ('internal', reference_unquote(there.fragment))
        if not resolved:
            want = None
    wanted = 'none' if want is None else f'({want[0]} {sx.dumps(G.cps(want[1]))})'
    if impl != wanted:
        return (f'<a href={href!r}> in a document at {base!r} is {show(impl)}; it should be '
                f'{"no link" if want is None else want}')
    return None


def show(wire):
    if wire == 'none':
        return 'no link'
    kind, cps = sx.loads_line(wire)[0]
    return (kind, ''.join(chr(int(c)) for c in cps))


def reference_unquote(s):
    """unquote stated directly: %XX escapes of each ASCII stretch → bytes → UTF-8 text (U+FFFD for what is not
    UTF-8); characters outside ASCII stay."""
    import re
    if '%' not in s:
        return s

    def run(match):
        data = re.sub(rb'%([0-9A-Fa-f]{2})', lambda m: bytes([int(m.group(1), 16)]), match.group(0).encode('ascii'))
        return data.decode('utf-8', 'replace')
    return re.sub('[\x00-\x7f]+', run, s)


def gen_unquote(rng):
    pieces = ['a', 'Z', '%', '%4', '%41', '%C3%A9', '%E2%82%AC', '%E2%82', '%E2', '%C3', '%FF', '%80', '%C0%80', '%ED%A0%80',
              '%F0%9F%98%80', '%F0%9F%98', '%F0%9F', '%F4%90%80%80', '%F4%8F%BF%BF', '%E0%80%80', '%E0%A0%80', '%zz', '%%',
              'é', '中', '😀', '+', ' ', '%2525', '%e9', '%c3%a9', '%ED%9F%BF', '%EF%BF%BD', '%00', '%7F', '%C2%A0', '%DF%BF',
              '%F1%80%80%80', '%F5%80', '%C3(', '%E2%82x', '%F0%9F%98x']
    return ''.join(rng.choice(pieces) for _ in range(rng.choice([0, 1, 2, 3, 5, 8])))
