"""PM stage 2b (footnotes) harness: block/paragraph documents whose paragraph lines carry footnote calls.

Document = dict(pageH, ltr, root, area) ; box = dict(kind='para'|'block', id, st, n, lineH, kids, calls)
  calls  = [dict(line, fid, m, h, policy)]   in call order (sorted by line; several per line allowed)
  area   = dict(mt, mb, pt, pb, bt, bb, maxH)   the `@page { @footnote { … } }` box
  named  = {page name: area}   optional: `@page <name> { @footnote { … } }` rules (each gives every property)

A footnote is `<span style="float:footnote;footnote-display:block">` holding `m` lines of height `h`.
The real layout is run through `layout_document` (keeping the LayoutContext) and canonicalised to the
line the driver `pmfoot` prints: stage-1 page fields, then the laid-out footnote area of the page
`(fa y h mb pb bb ((fid y h) …))`, and after the last page `(left fid …)` = `context.footnotes` at the end.
"""
import copy
from fractions import Fraction

from harness import docs, pm
from vlib import sx

POLICIES = ['auto', 'line', 'block']


def default_area(**kw):
    area = dict(mt=0, mb=0, pt=0, pb=0, bt=0, bb=0, maxH='inf')
    area.update(kw)
    return area


def area_wire(area):
    return [area['mt'], area['mb'], area['pt'], area['pb'], area['bt'], area['bb'], area['maxH']]


def box_wire(box, inherited_page=''):
    page = box['st']['page'] or inherited_page
    if box['kind'] == 'para':
        calls = [[c['line'], c['fid'], c['m'], c['h'], c['policy']] for c in box.get('calls', [])]
        return ['para', box['id'], box['n'], box['lineH'], pm.style_wire(box['st'], inherited_page), calls]
    return ['block', box['id'], pm.style_wire(box['st'], inherited_page),
            [box_wire(k, page) for k in box['kids']]]


def doc_line(doc):
    named = doc.get('named') or {}
    if named:
        return sx.line('pmfoot', doc['pageH'], doc['ltr'], area_wire(doc['area']),
                       [[name, area_wire(named[name])] for name in sorted(named)], box_wire(doc['root']))
    return sx.line('pmfoot', doc['pageH'], doc['ltr'], area_wire(doc['area']), box_wire(doc['root']))


def area_for(doc, name):
    """The `@footnote` style of a page of the given name ('' / '-' = unnamed)."""
    return (doc.get('named') or {}).get('' if name == '-' else name, doc['area'])


px = pm.px


def call_html(call):
    words = '<br>'.join(f'f{call["fid"]}x{i}' for i in range(call['m']))
    policy = '' if call['policy'] == 'auto' else f';footnote-policy:{call["policy"]}'
    return (f'<span id="f{call["fid"]}" style="float:footnote;footnote-display:block;'
            f'line-height:{px(call["h"])}{policy}">{words}</span>')


def box_html(box):
    if box['kind'] == 'para':
        by_line = {}
        for call in box.get('calls', []):
            by_line.setdefault(call['line'], []).append(call)
        words = '<br>'.join(
            f'w{box["id"]}x{i}' + ''.join(call_html(c) for c in by_line.get(i, []))
            for i in range(box['n']))
        return f'<p id="n{box["id"]}" style="{pm.css_of(box["st"], "para", box["lineH"])}">{words}</p>'
    inner = ''.join(box_html(k) for k in box['kids'])
    return f'<div id="n{box["id"]}" style="{pm.css_of(box["st"], "block")}">{inner}</div>'


def area_css(area, full=False):
    parts = [f'margin:{px(area["mt"])} 0 {px(area["mb"])} 0',
             f'padding:{px(area["pt"])} 0 {px(area["pb"])} 0',
             f'border-style:solid;border-color:black;border-width:{px(area["bt"])} 0 {px(area["bb"])} 0']
    if area['maxH'] != 'inf':
        parts.append(f'max-height:{px(area["maxH"])}')
    elif full:
        parts.append('max-height:none')
    return ';'.join(parts)


def doc_html(doc):
    root = doc['root']
    body = root['kids'][0]
    inner = ''.join(box_html(k) for k in body['kids'])
    direction = 'ltr' if doc['ltr'] else 'rtl'
    return (
        f'<html id="n{root["id"]}" style="direction:{direction};{pm.css_of(root["st"], "block")}"><head><style>'
        f'@page{{size:200px {px(doc["pageH"])};margin:0;@footnote{{{area_css(doc["area"])}}}}}'
        + ''.join(f'@page {name}{{@footnote{{{area_css(area, True)}}}}}'
                  for name, area in sorted((doc.get('named') or {}).items())) +
        '::footnote-call{content:"c";vertical-align:baseline;font-size:inherit;line-height:inherit}'
        '::footnote-marker{content:none}'
        '</style></head>'
        f'<body id="n{body["id"]}" style="{pm.css_of(body["st"], "block")}">{inner}</body></html>')


# ---------------------------------------------------------------------------------------------
# real pipeline


def run_real(doc):
    """Lay the document out with the real code; return the canonical output line."""
    from weasyprint.css.counters import CounterStyle
    from weasyprint.document import Document
    from weasyprint import DEFAULT_OPTIONS
    from weasyprint.formatting_structure import boxes
    from weasyprint.formatting_structure.build import build_formatting_structure
    from weasyprint.layout import layout_document

    html = docs.html(doc_html(doc))
    _, _, font_config = docs._env()
    counter_style = CounterStyle()
    options = dict(DEFAULT_OPTIONS)
    context = Document._build_layout_context(html, font_config, counter_style, options)
    root_box = build_formatting_structure(
        html.etree_element, context.style_for, context.get_image_from_uri, html.base_url,
        context.target_collector, counter_style, context.footnotes)
    pages = list(layout_document(html, root_box, context))
    maker = context.page_maker

    line_of = {}
    for page in pages:
        for box in page.children[0].descendants():
            if isinstance(box, boxes.LineBox):
                pid, i = pm.line_ident(box)
                if pid is not None:
                    line_of[(pid, repr(getattr(box, 'resume_at', None)))] = i + 1

    out = []
    for index, page in enumerate(pages):
        ptype = page.page_type
        resume, next_page = maker[index + 1][0], maker[index + 1][1]
        root = page.children[0]
        area = [c for c in page.children if isinstance(c, boxes.FootnoteAreaBox)]
        out.append(['page', index, ptype.side == 'right', bool(ptype.blank), ptype.name or '-',
                    pm.resume_wire(resume, doc['root'], line_of),
                    'any' if next_page['break'] == 'any' else next_page['break'],
                    'none' if next_page['page'] is None else (next_page['page'] or '-'),
                    pm.frag_wire(root, boxes),
                    area_frag_wire(area[0]) if area else ['fa', 'none']])
    out.append(['left'] + [foot_ident(f) for f in context.footnotes])
    return sx.line(*out)


def foot_ident(box):
    return int(box.element.get('id')[1:])


def area_frag_wire(area):
    fr = pm.fr
    kids = [[foot_ident(k), fr(k.position_y), fr(k.height)] for k in area.children]
    return ['fa', fr(area.position_y), fr(area.height), fr(area.margin_bottom), fr(area.padding_bottom),
            fr(area.border_bottom_width), kids]


# ---------------------------------------------------------------------------------------------
# generator

def gen_redo(rng):
    """Family: a block whose content fits but whose bottom padding/border crosses the page bottom once its
    footnotes are placed — `_in_flow_layout` discards the first rendering (its footnotes are un-laid-out) and
    lays the block out again with a larger bottom space."""
    lh = Fraction(rng.choice([10, 10, 20]))
    n_a = rng.choice([1, 2])
    n_p = rng.choice([3, 4, 6])
    pb = Fraction(rng.choice([4, 8, 6]))
    fh = Fraction(rng.choice([5, 5, 10]))
    m = rng.choice([1, 1, 2])
    policy = rng.choice(['auto', 'auto', 'line', 'block'])
    line = rng.choice([n_p - 1, n_p - 1, n_p - 2, 0])
    page_h = (n_a + n_p) * lh + m * fh + rng.choice([0, 1, 2, pb - 1, pb, pb + 2])
    para_a = dict(kind='para', id=1, n=n_a, lineH=lh, st=pm.default_style(), kids=[], calls=[])
    calls = [dict(line=line, fid=1, m=m, h=fh, policy=policy)]
    if rng.random() < 0.4:
        calls.append(dict(line=n_p - 1, fid=2, m=1, h=fh, policy=rng.choice(POLICIES)))
        calls.sort(key=lambda c: c['line'])
    para_p = dict(kind='para', id=2, n=n_p, lineH=lh, st=pm.default_style(), kids=[], calls=calls)
    inner = pm.default_style(pb=pb, bb=Fraction(rng.choice([0, 0, 1])))
    if rng.random() < 0.3:
        inner['clone'] = True
    blk = dict(kind='block', id=3, st=inner, kids=[para_p])
    tail = dict(kind='para', id=4, n=rng.choice([1, 3]), lineH=lh, st=pm.default_style(), kids=[], calls=[])
    body = dict(kind='block', id=5, st=pm.default_style(), kids=[para_a, blk, tail])
    root = dict(kind='block', id=6, st=pm.default_style(isRoot=True), kids=[body])
    return dict(pageH=Fraction(page_h), ltr=True, root=root, area=default_area())


def gen_doc(rng, size=None, plain=None):
    """A random document: the stage-1 generator's structure, footnote calls sprinkled on paragraph lines.

    `plain` forces (True) / forbids (False) a document without any footnote (stage-1 fragment)."""
    if size is None and plain is None and rng.random() < 0.04:
        return gen_redo(rng)
    doc = pm.gen_doc(rng, size)
    line_h = None
    paras = []

    def walk(box):
        nonlocal line_h
        if box['kind'] == 'para':
            box['calls'] = []
            paras.append(box)
            line_h = box['lineH']
        for kid in box['kids']:
            walk(kid)
    walk(doc['root'])
    if line_h is None:
        line_h = Fraction(10)

    mode = rng.random()
    if plain is None:
        plain = mode < 0.06
    if rng.random() < 0.4:
        # stress the paths that discard laid-out content (and must un-lay-out its footnotes): avoided breaks
        # between / inside boxes, bottom decorations that trigger the second layout, orphans / widows
        for box in all_boxes(doc['root']):
            st = box['st']
            if box is doc['root'] or box in doc['root']['kids']:
                continue
            if rng.random() < 0.3:
                st['brkInside'] = rng.choice(['avoid', 'avoid-page'])
            if rng.random() < 0.25:
                st['brkBefore'] = 'avoid'
            if rng.random() < 0.25:
                st['brkAfter'] = 'avoid'
            if rng.random() < 0.3:
                st['pb'] = Fraction(rng.choice([2, 4, 8]))
            if rng.random() < 0.2:
                st['bb'] = Fraction(rng.choice([1, 2, 4]))
            if st['height'] != 'auto' and rng.random() < 0.7:
                st['height'] = 'auto'
    # area style
    area = default_area()
    r = rng.random()
    if r < 0.35:
        area['mt'] = Fraction(rng.choice([2, 4, 5, 10]))
    if rng.random() < 0.25:
        area['bt'] = Fraction(rng.choice([1, 2]))
    if rng.random() < 0.25:
        area['pt'] = Fraction(rng.choice([2, 4]))
    if rng.random() < 0.12:
        area['pb'] = Fraction(rng.choice([2, 4]))
    if rng.random() < 0.08:
        area['bb'] = Fraction(rng.choice([1, 2]))
    if rng.random() < 0.08:
        area['mb'] = Fraction(rng.choice([2, 4]))
    if rng.random() < 0.06:
        area['mt'] = -Fraction(rng.choice([2, 4]))
    if rng.random() < 0.1:
        area['pb'] = Fraction(rng.choice([2, 4, 10]))
        area['bb'] = Fraction(rng.choice([0, 1, 2]))
        area['maxH'] = Fraction(rng.choice([1, 2, 3])) * line_h
    elif rng.random() < 0.3:
        area['maxH'] = Fraction(rng.choice([1, 2, 2, 3, 4])) * line_h + rng.choice([0, 0, line_h / 2])
    doc['area'] = area
    names = sorted({b['st']['page'] for b in all_boxes(doc['root']) if b['st']['page']})
    if names and rng.random() < 0.4:
        # `@page <name> { @footnote { … } }`: a footnote postponed to a page of another name lands in another area
        doc['named'] = {}
        for name in names:
            if rng.random() < 0.75:
                other = default_area(mt=Fraction(rng.choice([0, 2, 4, 6, 10])), pt=Fraction(rng.choice([0, 0, 2, 4])),
                                     bt=Fraction(rng.choice([0, 0, 1])), mb=Fraction(rng.choice([0, 0, 2])),
                                     pb=Fraction(rng.choice([0, 0, 2])), bb=Fraction(rng.choice([0, 0, 1])))
                if rng.random() < 0.4:
                    other['maxH'] = Fraction(rng.choice([1, 2, 3])) * line_h + rng.choice([0, line_h / 2])
                doc['named'][name] = other
    if plain or not paras:
        return doc

    # density: few / many footnotes; heights from tiny to larger than the page
    density = rng.choice([0.08, 0.15, 0.15, 0.3, 0.5])
    fid = [0]
    doc_policy = rng.choice(['auto', 'auto', 'auto', 'mixed', 'mixed', 'mixed', 'line', 'line', 'block'])
    fh = rng.choice([line_h, line_h, line_h / 2, Fraction(5), Fraction(8)])
    for para in paras:
        for i in range(para['n']):
            k = 0
            while rng.random() < density and k < 3:
                k += 1
                fid[0] += 1
                if doc_policy == 'mixed':
                    policy = rng.choice(['auto', 'auto', 'auto', 'line', 'line', 'block'])
                else:
                    policy = doc_policy
                m = rng.choice([1, 1, 1, 2, 2, 3, 5]) if rng.random() < 0.93 else rng.choice([8, 12])
                para['calls'].append(dict(line=i, fid=fid[0], m=m, h=Fraction(fh), policy=policy))
    if fid[0] == 0:
        para = rng.choice(paras)
        para['calls'].append(dict(line=rng.randrange(para['n']), fid=1, m=rng.choice([1, 2, 3]), h=Fraction(fh),
                                  policy=rng.choice(POLICIES)))
    return doc


def _para(ident, n, calls=(), line_h=10, **style):
    return dict(kind='para', id=ident, n=n, lineH=Fraction(line_h), st=pm.default_style(**style), kids=[],
                calls=[dict(c) for c in calls])


def _call(line, fid, m, h=10, policy='auto'):
    return dict(line=line, fid=fid, m=m, h=Fraction(h), policy=policy)


def _doc(page_h, kids, **area):
    body = dict(kind='block', id=901, st=pm.default_style(), kids=list(kids))
    root = dict(kind='block', id=900, st=pm.default_style(isRoot=True), kids=[body])
    return dict(pageH=Fraction(page_h), ltr=True, root=root,
                area=default_area(**{k: (v if v == 'inf' else Fraction(v)) for k, v in area.items()}))


def family_docs(thorough=False):
    """Deterministic family (no random choice): small documents around each branch of the footnote code, so that a
    regression there is met whatever the seed.  [(name, doc)]; the quick tier takes a fixed third of it."""
    out = []
    # A. one paragraph of 5 lines, one call: every policy x where the call is x how tall the footnote is x page height
    #    (fits / postponed alone / takes its line or block with it / taller than the page), alone or after a paragraph
    for policy in POLICIES:
        for line in (0, 2, 4):
            for m in (1, 3, 6):
                for page_h in (35, 46):
                    for before in (0, 2):
                        kids = ([_para(2, before)] if before else []) + [_para(1, 5, [_call(line, 1, m, 10, policy)])]
                        out.append((f'one-{policy}-l{line}-m{m}-H{page_h}-b{before}', _doc(page_h, kids)))
    # B. several footnotes postponed at once to a page whose area (max-height) cannot hold them all: the reported list
    #    is placed one by one by make_page and cut again (page.py, the `reported_footnotes[i:]` slice)
    for count in (2, 3, 4):
        for max_h in (15, 20, 30, 45):
            for m in (1, 2):
                calls = [_call(2, f + 1, m, 10) for f in range(count)]
                out.append((f'reported-{count}x{m}-max{max_h}',
                            _doc(40, [_para(1, 3, calls), _para(2, 4)], maxH=max_h)))
                out.append((f'reported-tail-{count}x{m}-max{max_h}',
                            _doc(40, [_para(1, 6, [dict(c, line=3) for c in calls])], maxH=max_h, mt=2)))
    # C. two calls on one line, the second with another policy; the first one overflows (everything after is reported)
    for p1 in POLICIES:
        for p2 in POLICIES:
            for m in (2, 4):
                calls = [_call(1, 1, m, 10, p1), _call(1, 2, 1, 10, p2), _call(3, 3, 1, 10, p1)]
                out.append((f'two-{p1}-{p2}-m{m}', _doc(50, [_para(2, 1), _para(1, 4, calls)])))
    # D. footnotes of two page names in one area, area with bottom decorations (the repaired 8db5909 paths)
    for mb, bb in ((0, 0), (2, 2), (4, 0)):
        for max_h in ('inf', 25):
            kids = [_para(1, 1, [_call(0, 2, 5)]),
                    _para(3, 2, [_call(0, 11, 1), _call(0, 12, 1), _call(0, 13, 1)], page='pb', pt=16)]
            out.append((f'names-mb{mb}-bb{bb}-max{max_h}', _doc(53, kids, mb=mb, bb=bb, maxH=max_h)))
            kids = [_para(3, 5, [_call(4, 3, 1, 8), _call(4, 4, 1, 8)], line_h=Fraction(25, 2)),
                    _para(4, 2, [_call(1, 6, 1, 8)], line_h=Fraction(25, 2), page='pa')]
            out.append((f'names2-mb{mb}-bb{bb}-max{max_h}', _doc(Fraction(81, 2), kids, mb=mb, bb=bb, maxH=max_h)))
    # E. footnotes inside boxes with bottom padding/border, cloned or not, avoided breaks, orphans/widows: the paths
    #    that discard laid-out lines and must un-lay-out their footnotes
    for clone in (False, True):
        for pb, bb in ((0, 0), (6, 0), (4, 2)):
            for policy in ('auto', 'line', 'block'):
                for inside in ('auto', 'avoid'):
                    para = _para(1, 6, [_call(1, 1, 1, 10, policy), _call(4, 2, 2, 10, policy)], orphans=2, widows=2)
                    block = dict(kind='block', id=3, st=pm.default_style(pb=Fraction(pb), bb=Fraction(bb), clone=clone,
                                                                         brkInside=inside), kids=[para])
                    out.append((f'deco-c{int(clone)}-pb{pb}-bb{bb}-{policy}-{inside}',
                                _doc(55, [_para(2, 2), block, _para(4, 2, [_call(0, 3, 1, 10, policy)])])))
    if not thorough:
        out = [item for index, item in enumerate(out) if index % 3 == 0]
    # F. (both tiers) the block model's own page-bottom bookkeeping under a footnote area: the last fragment of a
    #    paragraph with bottom padding/border that is the first content of its page; an unbreakable (fixed-height)
    #    block with top padding/border after other content, ending just at the page bottom / the footnote area top
    for pb, bb in ((6, 0), (13, 2)):
        for foot in (0, 1):
            calls = [_call(6, 1, 1, 10)] if foot else []
            out.append((f'lastfrag-pb{pb}-bb{bb}-f{foot}', _doc(50 + 10 * foot, [_para(1, 9, calls, pb=Fraction(pb),
                                                                                     bb=Fraction(bb))])))
    for pt, bt in ((8, 0), (4, 2)):
        for lines_before in (6, 7):
            for foot in (0, 1):
                calls = [_call(1, 1, 1, 10)] if foot else []
                fixed = dict(kind='block', id=3, st=pm.default_style(height=Fraction(30), pt=Fraction(pt),
                                                                     bt=Fraction(bt)), kids=[_para(4, 2)])
                out.append((f'fixed-pt{pt}-bt{bt}-n{lines_before}-f{foot}',
                            _doc(100 + 10 * foot, [_para(1, lines_before, calls), fixed, _para(5, 2)])))
    # H. (both tiers) an empty zero-height spacer whose margin crosses the page bottom / the footnote area top, last in
    #    the document: it must not make a page of its own
    for margin in (10, 20):
        for lines_before in (8, 9):
            for foot in (0, 1):
                calls = [_call(1, 1, 1, 10)] if foot else []
                spacer = dict(kind='block', id=3, st=pm.default_style(height=Fraction(0), mt=Fraction(margin)), kids=[])
                out.append((f'spacer-m{margin}-n{lines_before}-f{foot}',
                            _doc(100 + 10 * foot, [_para(1, lines_before, calls), spacer])))
    # I. (both tiers) `@footnote` areas with negative margins (the repaired findings footnote-area-negative-margin-*):
    #    the area emptied by a postponed footnote, and a kept footnote smaller than the negative margin
    for mt, mb in ((-4, 0), (-14, 0), (-6, -6), (4, -10)):
        for m in (1, 5):
            for line in (0, 3):
                out.append((f'negarea-mt{mt}-mb{mb}-m{m}-l{line}',
                            _doc(46, [_para(1, 7, [_call(line, 1, m, 10)])], mt=mt, mb=mb)))
    # G. (both tiers) `@page <name> { @footnote { … } }`: footnotes postponed from an unnamed page land in the area of
    #    a named page type with another style (taller top margin, max-height), and back
    for mt, max_h in ((6, 'inf'), (0, 15), (4, 25)):
        for back in (False, True):
            kids = [_para(1, 3, [_call(2, 1, 2), _call(2, 2, 1)]),
                    _para(3, 3, [_call(0, 3, 1), _call(2, 4, 1)], page='pb')]
            if back:
                kids.append(_para(5, 3, [_call(1, 5, 2)]))
            doc = _doc(40, kids, mt=2)
            doc['named'] = {'pb': default_area(mt=Fraction(mt), maxH=max_h if max_h == 'inf' else Fraction(max_h))}
            out.append((f'named-area-mt{mt}-max{max_h}-back{int(back)}', doc))
    return out


def all_boxes(box):
    out = [box]
    for kid in box['kids']:
        out.extend(all_boxes(kid))
    return out


def n_footnotes(doc):
    total = [0]

    def walk(box):
        total[0] += len(box.get('calls', []))
        for kid in box['kids']:
            walk(kid)
    walk(doc['root'])
    return total[0]


def features(doc):
    tags = set(pm.features(doc))
    area = doc['area']
    if area['maxH'] != 'inf':
        tags.add('area-max-height')
    if any(area[k] for k in ('mt', 'mb', 'pt', 'pb', 'bt', 'bb')):
        tags.add('area-decoration')
    if doc.get('named'):
        tags.add('named-footnote-areas')

    def walk(box):
        for c in box.get('calls', []):
            tags.add('policy-' + c['policy'])
        lines = [c['line'] for c in box.get('calls', [])]
        if len(lines) != len(set(lines)):
            tags.add('two-calls-on-a-line')
        for kid in box['kids']:
            walk(kid)
    walk(doc['root'])
    tags.add('footnotes' if n_footnotes(doc) else 'no-footnote')
    return sorted(tags)


# ---------------------------------------------------------------------------------------------
# shrinking

def shrink(doc, still_fails, budget=500):
    """Greedy minimisation: stage-1 structural shrinking, then footnote calls and the area style."""
    spent = [0]

    def attempt(candidate):
        spent[0] += 1
        if spent[0] > budget:
            return False
        try:
            return still_fails(candidate)
        except Exception:  # noqa: BLE001
            return False

    def paras_of(d):
        out = []

        def walk(b):
            if b['kind'] == 'para':
                out.append(b)
            for k in b['kids']:
                walk(k)
        walk(d['root'])
        return out

    def fix_calls(d):
        for p in paras_of(d):
            p['calls'] = [c for c in p.get('calls', []) if c['line'] < p['n']]
        return d

    doc = pm.shrink(doc, lambda d: still_fails(fix_calls(d)), budget // 2)
    doc = fix_calls(doc)
    changed = True
    while changed and spent[0] <= budget:
        changed = False
        for pi, para in enumerate(paras_of(doc)):
            for ci in range(len(para['calls'])):
                cand = copy.deepcopy(doc)
                del paras_of(cand)[pi]['calls'][ci]
                if attempt(cand):
                    doc, changed = cand, True
                    break
                for key, value in (('m', 1), ('policy', 'auto')):
                    if para['calls'][ci][key] != value:
                        cand = copy.deepcopy(doc)
                        paras_of(cand)[pi]['calls'][ci][key] = value
                        if attempt(cand):
                            doc, changed = cand, True
                            break
                if changed:
                    break
            if changed:
                break
        if changed:
            continue
        if doc.get('named'):
            for name in sorted(doc['named']):
                cand = copy.deepcopy(doc)
                del cand['named'][name]
                if attempt(cand):
                    doc, changed = cand, True
                    break
            if changed:
                continue
        for key, value in default_area().items():
            if doc['area'][key] != value:
                cand = copy.deepcopy(doc)
                cand['area'][key] = value
                if attempt(cand):
                    doc, changed = cand, True
                    break
    return doc
