"""C12 flex: seeded generator of flex containers with empty items, HTML rendering through the real
layout, extraction of border-box rectangles, protocol line for the Lean model."""
from fractions import Fraction

from harness import docs
from vlib import sx

DIRS = ['row', 'row-reverse', 'column', 'column-reverse']
WRAPS = ['nowrap', 'wrap', 'wrap-reverse']
JUSTIFY = ['normal', 'flex-start', 'flex-end', 'center', 'space-between', 'space-around', 'space-evenly',
           'stretch', 'start', 'end', 'left', 'right']
ALIGN_ITEMS = ['normal', 'stretch', 'center', 'start', 'end', 'self-start', 'self-end', 'flex-start', 'flex-end']
ALIGN_SELF = ['auto'] * 6 + ALIGN_ITEMS
ALIGN_CONTENT = ['normal', 'stretch', 'flex-start', 'flex-end', 'center', 'space-between', 'space-around',
                 'space-evenly', 'start', 'end']

F = Fraction


def _len(v):
    return 'auto' if v is None else v


def gen_item(rng, ident, rich):
    """One item; `rich` switches margins / paddings / borders / min / max on."""
    pick = rng.choice
    it = {
        'id': ident,
        'order': pick([0, 0, 0, 0, 1, -1, 2]),
        'grow': pick([0, 0, 1, 1, 1, 2, F(1, 2), 3, F(1, 4)]),
        'shrink': pick([1, 1, 1, 0, 2, F(1, 2), 3]),
        'basis': pick(['auto', 'auto', 'auto', 'content', 0, 10, 20, 30, 40, 60, 100, F(25, 2)]),
        'width': pick([None, None, 10, 20, 30, 40, 50, 80, 120]),
        'height': pick([None, None, None, 10, 20, 30, 50, 80]),
        'minw': None, 'maxw': None, 'minh': None, 'maxh': None,
        'ml': 0, 'mr': 0, 'mt': 0, 'mb': 0,
        'pl': 0, 'pr': 0, 'pt': 0, 'pb': 0, 'bl': 0, 'br': 0, 'bt': 0, 'bb': 0,
        'align': pick(ALIGN_SELF),
        # css-flexbox 3: `float` has no effect on a flex item (the model does not even receive it)
        'float': pick(['none'] * 9 + ['left', 'right']),
    }
    if rich:
        if rng.random() < 0.35:
            it['minw'] = pick([5, 10, 20, 40, 60])
        if rng.random() < 0.35:
            it['maxw'] = pick([10, 20, 30, 50, 80])
        if rng.random() < 0.3:
            it['minh'] = pick([5, 10, 20, 40])
        if rng.random() < 0.3:
            it['maxh'] = pick([10, 20, 30, 50])
        for side in ('ml', 'mr', 'mt', 'mb'):
            r = rng.random()
            if r < 0.12:
                it[side] = None            # auto
            elif r < 0.35:
                it[side] = pick([1, 2, 4, 5, 8, 10, -2, -5])
        if rng.random() < 0.25:
            for side in ('pl', 'pr', 'pt', 'pb'):
                it[side] = pick([0, 0, 1, 2, 4, 5])
        if rng.random() < 0.25:
            for side in ('bl', 'br', 'bt', 'bb'):
                it[side] = pick([0, 0, 1, 2, 3])
    return it


def gen_case(rng, adversarial=False):
    pick = rng.choice
    rich = rng.random() < 0.6
    n = pick([1, 2, 2, 3, 3, 4, 4, 5, 6, 7, 8])
    case = {
        'dir': pick(DIRS), 'wrap': pick(['nowrap', 'nowrap', 'wrap', 'wrap', 'wrap-reverse']),
        'width': pick([100, 100, 120, 200, 64, 300]),
        'height': pick([None, None, 50, 100, 200, 120]),
        'colgap': pick([0, 0, 0, 4, 10, 20, 5]), 'rowgap': pick([0, 0, 0, 4, 10, 20]),
        'justify': pick(JUSTIFY), 'align_items': pick(ALIGN_ITEMS), 'align_content': pick(ALIGN_CONTENT),
        'items': [gen_item(rng, i, rich) for i in range(n)],
    }
    if not adversarial and rng.random() < 0.03:
        # a chain of main-axis minimums in a column container: 9.7.5.d freezes them pass after pass
        n = pick([3, 4, 5])
        mins = sorted(rng.sample([20, 30, 40, 60, 80, 120, 160], n - 1), reverse=True) + [None]
        case.update({'dir': pick(['column', 'column-reverse']), 'wrap': 'nowrap', 'height': pick([200, 300]),
                     'items': [gen_item(rng, i, False) for i in range(n)]})
        for it, mn in zip(case['items'], mins):
            it.update({'grow': 1, 'shrink': 1, 'basis': 0, 'height': None, 'minh': mn})
    if adversarial:
        for it in case['items']:
            r = rng.random()
            if r < 0.2:
                it['grow'] = pick([0, -1, 1, 1000, F(1, 1024)])
            elif r < 0.4:
                it['shrink'] = pick([0, -1, 1000, F(1, 1024)])
            if rng.random() < 0.3:
                it['basis'] = pick([0, 100000, F(1, 64), 'content'])
            if rng.random() < 0.2:
                it['width'] = pick([0, 100000, None])
            if rng.random() < 0.2:
                it['minw'], it['maxw'] = pick([(50, 10), (0, 0), (1000, None), (None, 0)])
            if rng.random() < 0.2:
                it['ml'] = pick([None, -50, 500])
        if rng.random() < 0.2:
            case['width'] = pick([0, 1, 100000])
        if rng.random() < 0.2:
            case['height'] = pick([0, 1])
        if rng.random() < 0.1:
            case['items'] = []
    return case


def main_cross_gaps(case):
    if case['dir'].startswith('row'):
        return case['colgap'], case['rowgap']
    return case['rowgap'], case['colgap']


def computed_factor(value, initial):
    """css-flexbox 7.2 / 7.3: a negative flex-grow / flex-shrink is invalid, the declaration is ignored and the
    property keeps its initial value (validator `flex_grow_shrink`, repair c151619)."""
    return initial if value < 0 else value


def wire(case):
    mg, cg = main_cross_gaps(case)
    cont = [case['dir'], case['wrap'], case['width'], _len(case['height']), mg, cg, case['justify'],
            case['align_items'], case['align_content']]
    # flex-grow / flex-shrink go on the wire as written: the model side applies the validator (`Flex.computedFactor`)
    items = [[it['id'], it['order'], it['grow'], it['shrink'], it['basis'], _len(it['width']), _len(it['height']),
              _len(it['minw']), _len(it['maxw']), _len(it['minh']), _len(it['maxh']),
              _len(it['ml']), _len(it['mr']), _len(it['mt']), _len(it['mb']),
              it['pl'], it['pr'], it['pt'], it['pb'], it['bl'], it['br'], it['bt'], it['bb'], it['align']]
             for it in case['items']]
    return sx.line('flex', cont, items)


def css_num(v):
    v = Fraction(v)
    if v.denominator == 1:
        return str(v.numerator)
    return repr(float(v))


def px(v):
    return 'auto' if v is None else f'{css_num(v)}px'


def item_css(it, shorthand=False):
    basis = it['basis'] if isinstance(it['basis'], str) else px(it['basis'])
    flex = ([f'flex:{css_num(it["grow"])} {css_num(it["shrink"])} {basis}'] if shorthand else
            [f'flex-grow:{css_num(it["grow"])}', f'flex-shrink:{css_num(it["shrink"])}', f'flex-basis:{basis}'])
    css = [f'order:{it["order"]}', *flex, f'width:{px(it["width"])}', f'height:{px(it["height"])}',
           f'margin:{px(it["mt"])} {px(it["mr"])} {px(it["mb"])} {px(it["ml"])}',
           f'padding:{px(it["pt"])} {px(it["pr"])} {px(it["pb"])} {px(it["pl"])}',
           f'border-width:{px(it["bt"])} {px(it["br"])} {px(it["bb"])} {px(it["bl"])}',
           f'align-self:{it["align"]}', f'float:{it.get("float", "none")}']
    if it['minw'] is not None:
        css.append(f'min-width:{px(it["minw"])}')
    if it['maxw'] is not None:
        css.append(f'max-width:{px(it["maxw"])}')
    if it['minh'] is not None:
        css.append(f'min-height:{px(it["minh"])}')
    if it['maxh'] is not None:
        css.append(f'max-height:{px(it["maxh"])}')
    return ';'.join(css)


def html_of(case, shorthand=False):
    """`shorthand`: the same computed values written with `flex`, `flex-flow` and `gap`."""
    if shorthand:
        head = (f'display:flex;flex-flow:{case["dir"]} {case["wrap"]};width:{px(case["width"])};'
                f'height:{px(case["height"])};gap:{px(case["rowgap"])} {px(case["colgap"])};')
    else:
        head = (f'display:flex;flex-direction:{case["dir"]};flex-wrap:{case["wrap"]};width:{px(case["width"])};'
                f'height:{px(case["height"])};column-gap:{px(case["colgap"])};row-gap:{px(case["rowgap"])};')
    cont = (head + f'justify-content:{case["justify"]};align-items:{case["align_items"]};'
            f'align-content:{case["align_content"]}')
    items = ''.join(f'<div id="i{it["id"]}" style="{item_css(it, shorthand)}"></div>' for it in case['items'])
    return ('<style>@page{size:6000px 20000px;margin:0}html,body{margin:0;padding:0}'
            '#c>div{border:0 solid black}</style>'
            f'<div id="c" style="{cont}">{items}</div>')


def find_by_id(document, ident):
    for page in document.pages:
        for box in page._page_box.descendants():
            if box.element is not None and box.element.get('id') == ident:
                return box
    return None


def extract(document, container_id='c'):
    """(container, [(item index, x, y, w, h)]) relative to the container's content box."""
    cont = find_by_id(document, container_id)
    x0, y0 = cont.content_box_x(), cont.content_box_y()
    rects = []
    for child in cont.children:
        ident = child.element.get('id') if child.element is not None else None
        rects.append((int(ident[1:]) if ident else -1, child.border_box_x() - x0, child.border_box_y() - y0,
                      child.border_width(), child.border_height()))
    return cont, rects


def canon(height, rects):
    return ' '.join([f'ok h={sx.atom(height)}'] +
                    ['(' + ' '.join(sx.atom(v) for v in r) + ')' for r in rects])


def impl_out(case, shorthand=False, seconds=10):
    """Render and canonicalise; exceptions become `err:<Class>`.  The `while not all frozen` loop of 9.7.5 has no
    bound of its own: a CPU-time limit (ITIMER_PROF, as for the grid placement loops) turns a layout that does not
    come back into the outcome `err:NonTermination` (the model proves termination: `C12.flex_terminates`)."""
    from harness.c12_grid import wall_clock

    def go():
        with wall_clock(seconds):
            document = docs.render(html_of(case, shorthand))
        if len(document.pages) != 1:
            return f'pages={len(document.pages)}'
        cont, rects = extract(document)
        return canon(cont.height, rects)
    out = docs.outcome(go)
    return 'err:NonTermination' if out == 'err:WallClock' else out


def parse_out(out):
    """`ok h=H (id x y w h) …` -> (H, [(id, x, y, w, h)]) with Fractions; None for errors."""
    if not out.startswith('ok '):
        return None
    toks = sx.loads_line(out)
    height = Fraction(toks[1].split('=')[1])
    rects = [(int(r[0]),) + tuple(Fraction(v) for v in r[1:]) for r in toks[2:]]
    return height, rects
