"""C20: SVG images that include SVG images, at any depth and with cycles (images.py SVGImage.draw with its `_drawing`
flag, svg/images.py image), compared with Model/ResourcesSvg.lean: which fetches are made while the root is painted."""
from urllib.parse import urljoin

from harness import c20_res as R
from harness import docs
from harness.c20_res import Spec, enc
from vlib import sx

BASE = 'http://doc.test/dir/'
CASE_SECONDS = 8       # one <img>, at most four SVG documents of three elements: normally a few hundredths of a second
_serial = [0]


def gen_case(rng):
    """A graph of 1..4 SVG documents; every <image> points at an SVG of the graph (itself included), at a raster leaf
    (served or failing), or has no href."""
    _serial[0] += 1
    n = rng.choice([1, 1, 2, 2, 3, 4])
    nodes = [f'http://svg.test/g{_serial[0]}/s{i}.svg' for i in range(n)]
    contents = R.bank()
    table, info, texts = {}, {}, {}
    for i, url in enumerate(nodes):
        parts, items = [], []
        for _ in range(rng.choice([1, 2, 2, 3])):
            r = rng.random()
            if r < 0.5:
                target = rng.choice(nodes)                       # another SVG of the graph, or this one
                written = target if rng.random() < 0.5 else target.rsplit('/', 1)[1]
                parts.append(f'<image href="{written}" width="5" height="5"/>')
                items.append(('image', urljoin(url, written)))
            elif r < 0.85:
                leaf = f'http://svg.test/g{_serial[0]}/leaf{rng.randrange(3)}.png'
                if leaf not in table:
                    q = rng.random()
                    if q < 0.5:
                        table[leaf] = Spec('resp', content=contents[rng.choice(['png', 'jpeg', 'gif'])], string=True, mime='image/png')
                    elif q < 0.75:
                        table[leaf] = Spec('raises', exc=rng.choice(R.EXCEPTIONS)())
                    elif q < 0.9:
                        table[leaf] = Spec('resp', content=contents[rng.choice(['html', 'empty', 'garbage'])], string=True, mime=None)
                    else:       # read() raises: escapes from get_image_from_uri, swallowed by the SVG being drawn
                        table[leaf] = Spec('resp', content=contents['png'], string=False, file_obj=(OSError('reset'), False), mime=None)
                parts.append(f'<image xlink:href="{leaf}" width="5" height="5"/>')
                items.append(('image', leaf))
            else:
                parts.append('<image width="5" height="5"/>')
                items.append(('image', None))
        data = ('<svg xmlns="http://www.w3.org/2000/svg" xmlns:xlink="http://www.w3.org/1999/xlink" width="12" height="9">'
                + ''.join(parts) + '</svg>').encode()
        content = R.Content(8000 + 10 * _serial[0] + i, 'svgnode', data)
        content.xml_ok, content.pil, content.woff, content.woff_ok, content.font_ok = True, None, False, True, False
        texts[url] = data.decode()
        string = rng.random() < 0.7
        table[url] = Spec('resp', content=content, string=string, file_obj=None if string else (None, False),
                          mime=rng.choice(['image/svg+xml', 'image/svg+xml', None]))
        info[content.id] = items
    orient = rng.choice(['from-image', 'from-image', 'from-image', 'none'])
    return {'root': nodes[0], 'orient': orient, 'table': table, 'info': info, 'texts': texts}


def run_case(case):
    recorder = R.Recorder(dict(case['table']))
    recorder.check_named = True
    style = '' if case['orient'] == 'from-image' else ' style="image-orientation:none"'
    html = f'<html><body><img src="{case["root"]}"{style}></body></html>'
    try:
        with R.time_limit(CASE_SECONDS):
            document = docs.html(html, base_url=BASE, url_fetcher=recorder).render()
            render_log = recorder.take()
            document.write_pdf()
        return f'render={render_log} paint={recorder.log()} done'
    except R.HarnessTimeout:
        return 'HarnessTimeout'
    except Exception as exc:  # noqa: BLE001
        return f'render={recorder.log()} err:{type(exc).__name__}'


def wire(case):
    svgs = [[cid, [['image', enc(u)] for _, u in items]] for cid, items in case['info'].items()]
    orient = case['orient']
    return sx.line('svgdeep', R.Recorder(case['table']).sx(), [False, None, None], enc(case['root']), orient, svgs)


def cyclic(case):
    urls = set(case['texts'])
    return any(u in urls for items in case['info'].values() for _, u in items)


def section(run):
    docs.quiet()
    sec = run.section('svg-nesting', 'an <img> whose SVG includes SVG images of a generated graph (1..4 documents, references '
                      'to themselves and to each other, raster leaves served or failing, <image> without href): fetches made '
                      'by render and by write_pdf (painting), termination within the time limit; non-trivial = some SVG '
                      'references an SVG of the graph')
    timeouts = 0
    for _ in range(run.n(120, 1500)):
        case = gen_case(run.rng)
        out = run_case(case)
        timeouts += out == 'HarnessTimeout'
        if timeouts > 2:
            break       # a drawing that no longer terminates: two failing inputs are enough, the check must not hang
        sec.add(wire(case), out, meta={'case': case_json(case), 'svgs': case['texts']},
                nontrivial=cyclic(case), tags=[f'svgs{len(case["texts"])}', 'svg-in-svg' if cyclic(case) else 'leaves-only'])


def case_json(case):
    nodes = {u: {'id': case['table'][u].content.id, 'string': case['table'][u].string, 'mime': case['table'][u].mime}
             for u in case['texts']}
    return {'root': case['root'], 'orient': case['orient'], 'texts': case['texts'], 'nodes': nodes,
            'info': {str(cid): [[k, u] for k, u in items] for cid, items in case['info'].items()},
            'table': {u: s.json() for u, s in case['table'].items() if u not in case['texts']}}


def case_from_json(data):
    table = {u: Spec.from_json(j) for u, j in data['table'].items()}
    for url, node in data['nodes'].items():
        content = R.Content(node['id'], 'svgnode', data['texts'][url].encode())
        content.xml_ok, content.pil, content.woff, content.woff_ok, content.font_ok = True, None, False, True, False
        table[url] = Spec('resp', content=content, string=node['string'], file_obj=None if node['string'] else (None, False),
                          mime=node['mime'])
    return {'root': data['root'], 'orient': data['orient'], 'texts': data['texts'], 'table': table,
            'info': {int(cid): [tuple(i) for i in items] for cid, items in data['info'].items()}}


def rejudge(meta):
    docs.quiet()
    R.bank()
    return judge({'impl': run_case(case_from_json(meta['case'])), 'meta': meta})


def judge(d):
    impl = d['impl']
    if impl == 'HarnessTimeout':
        return (f'painting an SVG image that includes SVG images did not finish within {CASE_SECONDS} s '
                f'({len(d["meta"]["svgs"])} SVG documents of at most three elements)')
    if ' err:' in impl:
        return ('render / write_pdf raised ' + impl.split(' err:')[1] + ' because of a resource referenced from inside an SVG '
                'image: drawing an SVG must absorb the failures of its references')
    return None
