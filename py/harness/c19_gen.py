"""C19 generators: small HTML documents with bleed, links, anchors, bookmarks (every length dyadic so that float
arithmetic is exact), synthetic `Page` objects with adversarial numbers, image resources served from memory."""
import io
import types
from fractions import Fraction

# quarters of a pixel: exact in binary floating point, and so is every product with zoom * 0.75 for dyadic zoom
ZOOMS = [Fraction(1, 8), Fraction(1, 4), Fraction(1, 2), Fraction(3, 4), Fraction(1), Fraction(5, 4), Fraction(3, 2),
         Fraction(2), Fraction(3), Fraction(4), Fraction(8), Fraction(25, 8)]
BLEEDS = ['0', '1px', '2.5px', '4px', '8px', '12.25px', '13.5px', '16px', '20px', '33.75px']
UNICODE_NAMES = ['\u00e9', 'a\u00e9', 'n1\u00f1', '\u03a91', '\uff21', '\U0001f600', 'zz\U0001f600', 'B', '~', 'n', 'n10']
EXTERNAL = ['http://x.org/', 'https://example.net/a/b?c=d', 'mailto:u@example.org']


def px(rng, low, high, step=4):
    """A dyadic length in [low, high] as a CSS string (quarters of px by default)."""
    value = Fraction(rng.randrange(low * step, high * step + 1), step)
    return f'{float(value)}px'


def gen_doc(rng, min_pages=1, max_blocks=9, big=False):
    """HTML source of a small paged document.  Returns (html, info)."""
    width, height = rng.choice([80, 100, 120.5, 150.25]), rng.choice([60, 80, 90.5, 110.75])
    margin = rng.choice([0, 5, 10, 7.5])
    bleed = ' '.join(rng.choice(BLEEDS) for _ in range(rng.choice([1, 2, 4])))
    rules = [f'@page{{size:{width}px {height}px;margin:{margin}px;bleed:{bleed}}}']
    if rng.random() < 0.4:
        rules.append(f'@page :first{{bleed:{rng.choice(BLEEDS)} {rng.choice(BLEEDS)}}}')
    if rng.random() < 0.6:
        rules.append(f'@page wide{{size:{width + 40.5}px {height + 20}px;bleed:{rng.choice(BLEEDS)}}}')
    if rng.random() < 0.3:
        rules.append(f'@page :left{{margin-left:{margin + 2.25}px}}')
    rules.append('html,body{margin:0;padding:0}'
                 'body{font-family:weasyprint;font-size:10px;line-height:10px}'
                 'h1,h2,h3,h4,p,div{margin:0;font-size:10px;font-weight:normal}'
                 'h2{bookmark-level:2;bookmark-label:content(text)}h3{bookmark-level:3;bookmark-label:content(text)}'
                 'h4{bookmark-level:5;bookmark-label:content(text)}a{color:blue}')
    n_blocks = rng.randrange(2, max_blocks + 1)
    ids = [f'a{i}' for i in range(n_blocks)]
    if rng.random() < 0.4:
        for k in rng.sample(range(n_blocks), rng.randrange(1, n_blocks + 1)):
            ids[k] = rng.choice(['\u00e9', 'a\u00e9', '\uff21', '\U0001f600', 'b', 'Z']) + ids[k][1:] + rng.choice(['', '\u00f1'])
    blocks = []
    pages_wanted = rng.randrange(min_pages, 7)
    breaks = set(rng.sample(range(1, n_blocks), min(pages_wanted - 1, n_blocks - 1))) if n_blocks > 1 else set()
    for i in range(n_blocks):
        style = []
        if i in breaks:
            style.append('break-before:page')
        if rng.random() < 0.25:
            style.append('page:wide')
        kind = rng.choice(['h1', 'h2', 'h3', 'h4', 'p', 'p', 'p', 'div'])
        if rng.random() < 0.2:
            style.append(rng.choice([
                'transform:translate(5px,3px)', 'transform:scale(2)', 'transform:scale(0.5,0.25)',
                'transform:matrix(1,0,0,1,4.5,2.25)', 'transform:translate(-2.5px,1px) scale(2)']))
            if rng.random() < 0.5:
                style.append('transform-origin:0 0')
        if rng.random() < 0.15:
            style.append(f'margin-top:{px(rng, 0, 12)}')
        if rng.random() < 0.15:
            style.append(f'padding-left:{px(rng, 0, 9)}')
        if kind.startswith('h'):
            style.append(f'bookmark-label:"bm{i}"')
        if kind.startswith('h') and rng.random() < 0.3:
            style.append('bookmark-state:closed')
        if kind.startswith('h') and rng.random() < 0.2:
            style.append(f'bookmark-level:{rng.randrange(1, 7)}')
        # an id: mostly fresh, sometimes a duplicate of an earlier one (first occurrence is the anchor)
        ident = ids[i] if rng.random() < 0.85 else rng.choice(ids[:i + 1])
        parts = []
        for _ in range(rng.choice([0, 1, 1, 2, 3]) if kind in ('p', 'div') else rng.choice([0, 0, 1])):
            roll = rng.random()
            if roll < 0.6:
                href = '#' + rng.choice(ids)
            elif roll < 0.75:
                href = '#missing' + str(rng.randrange(3))
            else:
                href = rng.choice(EXTERNAL)
            parts.append(f"<a href='{href}'>{rng.choice(['k', 'lk', 'abc'])}</a>")
        text = rng.choice(['t', 'tt', f'b{i}'])
        inner = f'{text}{i} ' + ' '.join(parts)
        if rng.random() < 0.1:
            inner += f"<span id='s{i}'>s</span>"
        blocks.append(f"<{kind} id='{ident}' style='{';'.join(style)}'>{inner}</{kind}>")
        if rng.random() < 0.1:
            blocks.append(f"<div style='height:{px(rng, 1, 30)}'></div>")
    html = (f'<html><head><title>t</title><style>{"".join(rules)}</style></head><body>{"".join(blocks)}</body></html>')
    return html, {'blocks': n_blocks, 'breaks': len(breaks)}


class SyntheticPage:
    """Factory of `weasyprint.document.Page` objects with hand-set attributes (the real class, the real `paint`)."""

    def __init__(self):
        from harness import docs
        document = docs.render('<style>@page{size:10px;margin:0}</style>')
        self.blank = document.pages[0]
        self.font_config = document.font_config
        self.metadata = document.metadata

    def make(self, width, height, bleed, links, anchors, bookmarks):
        from weasyprint.document import Page
        page = Page.__new__(Page)
        page.width, page.height = float(width), float(height)
        page.bleed = {side: float(v) for side, v in zip(('top', 'right', 'bottom', 'left'), bleed)}
        page.links = [(kind, target, tuple(float(v) for v in rect), types.SimpleNamespace()) for kind, target, rect in links]
        page.anchors = {name: tuple(float(v) for v in point) for name, point in anchors}
        page.bookmarks = [(level, label, (float(x), float(y)), state) for level, label, x, y, state in bookmarks]
        page.forms = {None: []}
        page._page_box = self.blank._page_box
        return page

    def document(self, pages):
        from weasyprint.document import Document

        def failing_fetcher(url):
            raise ValueError('no fetch in synthetic documents')
        return Document(pages, self.metadata, failing_fetcher, self.font_config)


ADVERSARIAL = [Fraction(0), Fraction(-1), Fraction(1, 4), Fraction(-5, 2), Fraction(10), Fraction(53, 4), Fraction(27, 2),
               Fraction(40), Fraction(1000), Fraction(2 ** 20), Fraction(-2 ** 18), Fraction(1, 64), Fraction(3, 128)]


def dyadic(rng, adversarial, low=0, high=200):
    if adversarial and rng.random() < 0.35:
        return rng.choice(ADVERSARIAL)
    return Fraction(rng.randrange(low * 4, high * 4 + 1), 4)


def gen_synthetic_pages(rng, adversarial, n_pages=None, levels_ok=True):
    """Abstract pages: list of (width, height, bleed4, links, anchors, bookmarks) with Fractions."""
    n_pages = rng.randrange(0 if adversarial else 1, 6) if n_pages is None else n_pages
    names = [f'n{i}' for i in range(rng.randrange(1, 7))]
    if rng.random() < 0.4:
        # the /Dests name tree is sorted by the bytes of the keys as written: ASCII as is, anything else as
        # BOM + UTF-16-BE (after every ASCII key; astral characters, as surrogates, before U+E000..U+FFFF)
        names += rng.sample(UNICODE_NAMES, rng.randrange(1, 5))
        rng.shuffle(names)
    pages = []
    for _ in range(n_pages):
        width, height = dyadic(rng, adversarial, 1), dyadic(rng, adversarial, 1)
        bleed = [dyadic(rng, adversarial, 0, 30) if rng.random() < 0.6 else Fraction(0) for _ in range(4)]
        links = []
        for _ in range(rng.choice([0, 1, 2, 4])):
            kind = rng.choice(['internal', 'internal', 'external', 'attachment'])
            target = rng.choice(names + ['zz']) if kind == 'internal' else rng.choice(EXTERNAL)
            links.append((kind, target, [dyadic(rng, adversarial) for _ in range(4)]))
        anchors = []
        for name in rng.sample(names, rng.randrange(0, len(names) + 1)):
            anchors.append((name, [dyadic(rng, adversarial) for _ in range(4)]))
        bookmarks = []
        for _ in range(rng.choice([0, 1, 2, 3, 5])):
            level = rng.randrange(1, 7)
            if not levels_ok and rng.random() < 0.1:
                level = 0
            bookmarks.append((level, rng.choice(['la', 'lb', 'lc']), dyadic(rng, adversarial), dyadic(rng, adversarial),
                              rng.choice(['open', 'open', 'closed'])))
        pages.append((width, height, bleed, links, anchors, bookmarks))
    return pages


def wire_abstract(pages):
    return [[w, h, list(bleed), [[k, t, *rect] for k, t, rect in links],
             [[name, point[0], point[1]] for name, point in anchors],
             [[level, label, x, y, state == 'closed'] for level, label, x, y, state in bookmarks]]
            for w, h, bleed, links, anchors, bookmarks in pages]


# ------------------------------------------------------------------------------------------------ images

QUADRANTS = [(220, 30, 30), (30, 200, 30), (30, 30, 220), (230, 230, 40)]


def _base_image(width=64, height=32):
    from PIL import Image
    image = Image.new('RGB', (width, height))
    for y in range(height):
        for x in range(width):
            quadrant = (1 if x >= width // 2 else 0) + (2 if y >= height // 2 else 0)
            image.putpixel((x, y), QUADRANTS[quadrant])
    return image


def quadrant_signature(image):
    """Which source quadrant ends up in which corner (robust to JPEG loss), plus the size."""
    image = image.convert('RGB')
    width, height = image.size
    corners = [(width // 4, height // 4), (width - 1 - width // 4, height // 4),
               (width // 4, height - 1 - height // 4), (width - 1 - width // 4, height - 1 - height // 4)]
    out = []
    for point in corners:
        pixel = image.getpixel(point)
        out.append(min(range(4), key=lambda q: sum((a - b) ** 2 for a, b in zip(pixel, QUADRANTS[q]))))
    return (image.size, tuple(out))


# blobs for which `pillow_image.save` raises in RasterImage.__init__ (the model's `Raster.encodable = false`)
UNENCODABLE = {'tiff_f'}


def make_blobs():
    """{name: (bytes, pillow format | None, has exif, svg parses)}"""
    from PIL import Image
    base = _base_image()
    blobs = {}

    def save(fmt, **kwargs):
        out = io.BytesIO()
        base.save(out, format=fmt, **kwargs)
        return out.getvalue()
    blobs['png'] = (save('PNG'), 'PNG', False, False)
    blobs['jpg'] = (save('JPEG', quality=95), 'JPEG', False, False)
    for orientation in (1, 6):
        exif = Image.Exif()
        exif[0x0112] = orientation
        blobs[f'jpgexif{orientation}'] = (save('JPEG', quality=95, exif=exif.tobytes()), 'JPEG', True, False)
    blobs['gif'] = (save('GIF'), 'OTHER', False, False)
    out = io.BytesIO()
    base.save(out, format='MPO', save_all=True, append_images=[base.transpose(Image.Transpose.FLIP_LEFT_RIGHT)])
    blobs['mpo'] = (out.getvalue(), 'MPO', False, False)
    # Pillow opens it, but cannot write it as PNG (`OSError: cannot write mode F as PNG`): RasterImage raises
    out = io.BytesIO()
    base.convert('F').save(out, format='TIFF')
    blobs['tiff_f'] = (out.getvalue(), 'OTHER', False, False)
    blobs['svg'] = (b'<svg xmlns="http://www.w3.org/2000/svg" width="64" height="32"><rect width="32" height="16"/></svg>',
                    None, False, True)
    blobs['badsvg'] = (b'<svg xmlns="http://www.w3.org/2000/svg"><rect', None, False, False)
    blobs['garbage'] = (b'\x00\x01garbage that is neither an image nor XML', None, False, False)
    blobs['empty'] = (b'', None, False, False)
    return blobs
