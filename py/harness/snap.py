"""Float discipline of DESIGN §2.2 for *values* (never for discrete decisions).

The models compute exact rationals; the implementation computes binary floats where the source uses
float literals (`96. / 2.54`, `* 1.2`).  A `SnapSection` first asks the driver for the model's output,
then rewrites the implementation's output to the model's text when both have the same non-numeric
skeleton and every number agrees within 1e-9 relative (and is not exactly equal); such cases are
counted under `float_rounding` in the evidence.  Everything else goes to the framework's exact diff
unchanged.
"""
import re
from fractions import Fraction

from vlib import lean

NUM = re.compile(r'-?\d+(?:/\d+)?')
REL = Fraction(1, 10 ** 9)


def snap(impl, model):
    """-> (text to compare, True when a float rounding was absorbed)."""
    if impl == model:
        return impl, False
    if NUM.sub('#', impl) != NUM.sub('#', model):
        return impl, False
    a, b = NUM.findall(impl), NUM.findall(model)
    if len(a) != len(b):
        return impl, False
    for x, y in zip(a, b):
        if x == y:
            continue
        fx, fy = Fraction(x), Fraction(y)
        if abs(fx - fy) > REL * max(abs(fx), abs(fy)):
            return impl, False
    return model, True


class SnapSection:
    """Same interface as framework.Section.add; call `flush()` at the end of the section."""

    def __init__(self, run, name, rule):
        self.run = run
        self.sec = run.section(name, rule + ' [values within 1e-9 relative of the exact rational are '
                               'counted as float_rounding, not as agreement by text]')
        self.buffer = []
        self.rounded = 0

    def add(self, line, impl_out, meta=None, nontrivial=True, tags=()):
        self.buffer.append((line, impl_out, meta, nontrivial, tags))
        if len(self.buffer) >= 20000:
            self.flush()

    def flush(self):
        if not self.buffer:
            return
        outs = lean.run_driver(self.run.prop.driver, [b[0] for b in self.buffer])
        for (line, impl_out, meta, nontrivial, tags), model_out in zip(self.buffer, outs):
            text, rounded = snap(impl_out, model_out)
            if rounded:
                self.rounded += 1
                tags = list(tags) + ['float_rounding']
            self.sec.add(line, text, meta=meta, nontrivial=nontrivial, tags=tags)
        self.buffer = []
        self.run.extra['float_rounding'] = self.run.extra.get('float_rounding', 0) + self.rounded
        self.rounded = 0
