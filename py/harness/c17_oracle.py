"""C17 oracle: the clauses of the property stated directly on an implementation display list.

Independent of the Lean model's organisation: every expected item gets a *sort key* derived from CSS 2.1
Appendix E on the exported box tree, and the property says that the display list is exactly the expected
items in key order, each in the graphics environment its ancestors prescribe.  Used only to judge a
disagreement and to search for a failing input (never as the check itself).

Known deviations of the unchanged code (known_findings.txt) are recognised by `finding_of` and the items
they affect are left out of the comparison when `exempt=True`.
"""
from fractions import Fraction

from harness.c17_scene import SLOTS

OWN_DECORATION_BY_SPEC = None   # every box paints its own background: no class restriction in CSS
STACKING_CLASSES = {'InlineBlockBox', 'InlineFlexBox', 'InlineGridBox'}
BLOCK_LEVEL = {'BlockBox', 'BlockReplacedBox', 'TableBox', 'InlineTableBox', 'TableCaptionBox', 'FootnoteAreaBox',
               'FlexBox', 'GridBox', 'BlockLevelBox'}
TABLE_PARTS = {'TableRowGroupBox', 'TableRowBox', 'TableCellBox'}
REPLACED = {'ReplacedBox', 'BlockReplacedBox', 'InlineReplacedBox'}
# context roots whose own decoration the unchanged code drops (known finding context-root-loses-decoration;
# grid containers were repaired by a9887a3 and are compared in full again)
LOSES_OWN = {'TableBox', 'InlineTableBox', 'TableRowGroupBox', 'TableRowBox', 'TableColumnGroupBox',
             'TableColumnBox', 'LineBox'}


# css-transforms-1: "transformable element" excludes non-replaced inline boxes (and table columns / column
# groups, which are not in the exported tree)
NOT_TRANSFORMABLE = {'InlineBox'}


def spec_bg(value, is_page=False):
    """Style-level background (S visibility colour images) -> what CSS paints for the box itself: a colour
    code, 'transparent' (a background without visible colour: images only, or the page box) or 'none'.
    Only `visibility: visible` paints (CSS 2.1 11.2: hidden is invisible; collapse means hidden on everything
    but table rows / columns, which it removes)."""
    if not (isinstance(value, list) and value and value[0] == 'S'):
        return value
    _, visibility, colour, images = value
    visible = visibility in (True, 'visible')
    if visible and isinstance(colour, int):
        return colour
    if is_page or (visible and images):
        return 'transparent'
    return 'none'


def spec_matrix(value, kind):
    """Style-level transform (T border-box origin functions) -> 'none' | 'sing' | rounded x translation of the
    matrix css-transforms-1 prescribes: about the transform-origin, the functions applied right to left;
    not on non-transformable boxes."""
    if not (isinstance(value, list) and value and value[0] == 'T'):
        return value
    _, (bbx, bby, bw, bh), (oxv, oxp, oyv, oyp), fns = value
    if not fns or kind in NOT_TRANSFORMABLE:
        return 'none'
    ox = Fraction(bbx) + (Fraction(bw) * Fraction(oxv) / 100 if oxp else Fraction(oxv))
    oy = Fraction(bby) + (Fraction(bh) * Fraction(oyv) / 100 if oyp else Fraction(oyv))

    def transform(x, y):
        x, y = x - ox, y - oy
        for fn in reversed(fns):
            if fn[0] == 'scale':
                x, y = x * Fraction(fn[1]), y * Fraction(fn[2])
            elif fn[0] == 'translate':
                x = x + (Fraction(bw) * Fraction(fn[1]) / 100 if fn[2] else Fraction(fn[1]))
                y = y + (Fraction(bh) * Fraction(fn[3]) / 100 if fn[4] else Fraction(fn[3]))
            else:
                a, b, c, d, e, f = (Fraction(v) for v in fn[1:])
                x, y = a * x + c * y + e, b * x + d * y + f
        return x + ox, y + oy

    e, f = transform(Fraction(0), Fraction(0))
    ax, ay = transform(Fraction(1), Fraction(0))
    cx, cy = transform(Fraction(0), Fraction(1))
    a, b, c, d = ax - e, ay - f, cx - e, cy - f
    if a * d - b * c == 0:
        return 'sing'
    return (e + Fraction(1, 2)).__floor__()


def normalise(a):
    """Style-level forms of an attribute dict -> the values CSS prescribes (in place)."""
    a['bg'] = spec_bg(a['bg'], a['kind'] == 'PageBox')
    a['matrix'] = spec_matrix(a['matrix'], a['kind'])
    a['colGroups'] = [[gid, spec_bg(gbg), [[cid, spec_bg(cbg)] for cid, cbg in cols]]
                      for gid, gbg, cols in a['colGroups']]
    return a


def propagate_canvas(roots, info):
    """CSS 2.1 14.2: the canvas background is the root element's; if that is 'transparent' without image and
    the root is HTML's, the first BODY child's.  The element whose background was propagated paints none
    itself.  -> canvas ('none' | 'transparent' | colour code); updates the chosen node."""
    if not roots:
        return 'none'
    root_html, flags = info
    chosen = roots[0]
    if root_html and chosen.a['bg'] == 'none':
        for kid, flag in zip(chosen.kids, flags):
            if flag:
                chosen = kid
                break
    canvas = chosen.a['bg']
    chosen.a['bg'] = 'none'
    return canvas


class N:
    __slots__ = ('a', 'kids', 'parent', 'unit', 'vid', 'kind')

    def __init__(self, attrs, kids, parent):
        self.a = normalise(dict(zip(SLOTS, attrs)))
        self.kids = kids
        self.parent = parent
        self.vid = self.a['id']
        self.kind = self.a['kind']
        self.unit = None


def build(wire, parent=None):
    while wire[0] == 'P':
        wire = wire[1]
    node = N(wire[1], [], parent)
    if wire[0] == 'N':
        node.kids = [build(k, node) for k in wire[2]]
    return node


def defines_context(a):
    return ((a['positioned'] and a['z'] != 'auto') or (a['gridItem'] and a['z'] != 'auto') or
            a['opacity'] < 1 or a['styleTransform'] or not a['overflowVisible'])


def classify(node, is_page_child):
    """real | fake | float | atomic | None (CSS 2.1 E.2 + 9.9.1)."""
    a = node.a
    if is_page_child or defines_context(a):
        return 'real'
    if a['positioned']:
        return 'fake'
    if a['floated']:
        return 'float'
    if node.kind in STACKING_CLASSES:
        return 'atomic'
    return None


def expected_items(page_attrs, kids_wire, canvas, exempt=True, info=None):
    """-> (list of (key, string), set of exempt colour codes, findings seen).
    `info` = (rootHtml, (isBody …)) with a style-level export: the canvas background is then derived from
    the styles by CSS 2.1 14.2 (`canvas` is ignored)."""
    page = normalise(dict(zip(SLOTS, page_attrs)))
    items = []
    exempt_codes = set()
    findings = set()

    def env_string(base_clips, node, own):
        """alphas / transforms of ancestors-or-self, clips = base + overflow ancestors (strict) + viewport clip
        + `clip` of absolutely positioned ancestors-or-self."""
        alphas, transforms, clips = [], [], base_clips
        chain = []
        cur = node
        while cur is not None:
            chain.append(cur)
            cur = cur.parent
        for anc in reversed(chain):
            a = anc.a
            if a['isRoot'] and not page['overflowVisible']:
                clips += 1
            if a['absPos'] and a['clipProp']:
                clips += 1
            if a['opacity'] < 1:
                alphas.append(a['opacity'])
            if isinstance(a['matrix'], int):
                transforms.append(a['matrix'])
            if anc is not node and not a['overflowVisible']:
                clips += 1
        def rat(x):
            x = Fraction(x)
            return str(x.numerator) if x.denominator == 1 else f'{x.numerator}/{x.denominator}'
        return f'{clips}:{",".join(rat(x) for x in alphas)}:{",".join(str(t) for t in transforms)}'

    def hidden_by_singular(node):
        cur = node
        while cur is not None:
            if cur.a['matrix'] == 'sing':
                return True
            cur = cur.parent
        return False

    roots = [build(k) for k in kids_wire]
    if info is not None:
        canvas = propagate_canvas(roots, info)

    # unit classification and attachment
    def walk_units(node, real_anc, unit_anc, is_page_child, clip_fakes=False):
        node.unit = classify(node, is_page_child)
        if node.unit in ('real', 'fake') and clip_fakes:
            # a positioned descendant of an absolutely positioned `clip` box with z-index auto is painted
            # in the parent stacking context, outside that box's clip (known finding)
            findings.add('clip-escaped-by-positioned-descendant')
            mark_subtree_exempt(node)
        if node.unit == 'real':
            clip_fakes = False
        if node.unit == 'fake' and node.a['absPos'] and node.a['clipProp']:
            clip_fakes = True
        if node.unit in ('real', 'fake'):
            attach = real_anc
        elif node.unit in ('float', 'atomic'):
            attach = unit_anc
        else:
            attach = None
        node_path_parent[node.vid] = attach
        next_real = node if node.unit == 'real' else real_anc
        next_unit = node if node.unit else unit_anc
        for kid in node.kids:
            walk_units(kid, next_real, next_unit, False, clip_fakes)

    def mark_subtree_exempt(node):
        a = node.a
        if node.kind in REPLACED:
            exempt_codes.add('r')       # replaced content carries no colour code: exempt by kind
        for slot in ('bg', 'border', 'outline'):
            if isinstance(a[slot], int):
                exempt_codes.add(a[slot])
        exempt_codes.add(a['color'])
        for _, gbg, cols in a['colGroups']:
            exempt_codes.update(c for c in [gbg] + [cbg for _, cbg in cols] if isinstance(c, int))
        for kid in node.kids:
            mark_subtree_exempt(kid)

    node_path_parent = {}
    for root in roots:
        walk_units(root, None, None, True)

    path_cache = {}

    def unit_path(unit):
        """Key prefix locating a unit inside the page's stacking context."""
        if unit is None:
            return ()
        if unit.vid in path_cache:
            return path_cache[unit.vid]
        parent = node_path_parent[unit.vid]
        z = unit.a['z'] if unit.a['z'] != 'auto' else 0
        if unit.unit in ('real', 'fake'):
            layer = 3 if z < 0 else (8 if z == 0 else 9)
            step = (layer, z if layer != 8 else 0, unit.vid, 0, 0)
        elif unit.unit == 'float':
            step = (5, 0, unit.vid, 0, 0)
        else:
            step = (7, 0, unit.vid, 0, 0)
        path = unit_path(parent) + (step,)
        path_cache[unit.vid] = path
        return path

    def add(node, key, role, code, base_clips):
        if hidden_by_singular(node):
            return
        kind = 't' if role == 'text' else ('r' if role == 'replaced' else 'f')
        items.append((key, f'{kind}:{code}:{env_string(base_clips, node, True)}'))

    def decoration(node, prefix, layer, order, cell_of=None, sub=0):
        """Background and border of one box at `prefix + (layer, 0, order, sub, phase)`."""
        a = node.a
        show_bg = show_border = True
        if cell_of is not None:
            empty_hidden = a['cellEmpty'] and not a['emptyCellsShow']
            show_bg = cell_of.a['collapse'] or not empty_hidden
            show_border = not empty_hidden
        if isinstance(a['bg'], int) and show_bg:
            add(node, prefix + ((layer, 0, order, sub, 0),), 'bg', a['bg'], 2)
        if isinstance(a['border'], int) and a['visible'] and show_border:
            border_items(node, prefix + ((layer, 0, order, sub, 1),))

    def border_items(node, key):
        # one path for four solid sides of one colour, else one clipped path per non-zero side
        a = node.a
        if a['borderSides'] == 4:
            add(node, key, 'border', a['border'], 0)
        else:
            for _ in range(a['borderSides']):
                add(node, key, 'border', a['border'], 1)

    def region(node, unit, prefix, in_table=None):
        """Items of `node` (not a unit root unless node is unit) inside unit `unit`."""
        a = node.a
        if node is unit:
            if unit.kind in LOSES_OWN:
                findings.add('context-root-loses-decoration')
                mark_exempt(node, True)
                decoration(node, prefix, 2, 0)         # what CSS asks for (filtered out when exempt)
            elif unit.kind == 'InlineBox':
                # E.2: an inline root paints its background first; the code paints it with the inline content
                if any(k for k in items_below_inline_root(unit)):
                    findings.add('inline-root-background-late')
                    mark_exempt(unit, False)
                decoration(node, prefix, 2, 0)
            else:
                decoration(node, prefix, 2, 0)
        elif node.kind in ('TableBox', 'InlineTableBox'):
            table_items(node, prefix)
        elif node.kind in BLOCK_LEVEL:
            decoration(node, prefix, 4, node.vid)
        elif node.kind in TABLE_PARTS or node.kind in ('TableColumnGroupBox', 'TableColumnBox'):
            if in_table is None:
                # a table part whose table is not in this unit: the code never paints it (known finding)
                findings.add('context-root-loses-decoration')
                mark_exempt(node, False)
                decoration(node, prefix, 4, node.vid)  # what CSS asks for (filtered out when exempt)
        else:
            decoration(node, prefix, 7, node.vid)
        if node.kind == 'TextBox' and a['visible']:
            add(node, prefix + ((7, 0, node.vid, 0, 2),), 'text', a['color'], 0)
        if node.kind in REPLACED and a['visible']:
            add(node, prefix + ((7, 0, node.vid, 0, 3),), 'replaced', 0, 0)
        if isinstance(a['outline'], int) and a['visible']:
            if node is not unit and not unit.a['overflowVisible']:
                # painted at point 10 of the unit, outside the unit root's own overflow clip (known finding)
                findings.add('outline-escapes-overflow-clip')
                exempt_codes.add(a['outline'])
            for i in range(4):
                add(node, prefix + ((10, 0, node.vid, 0, i),), 'outline', a['outline'], 1)
        table = node if node.kind in ('TableBox', 'InlineTableBox') else (
            in_table if node.kind in TABLE_PARTS else None)
        if node is unit and node.kind in TABLE_PARTS:
            table = None
        for kid in node.kids:
            if kid.unit:
                region(kid, kid, unit_path(kid))
            else:
                region(kid, unit, prefix, table)

    def items_below_inline_root(unit):
        """Does an inline root have negative-z children, block-level boxes or floats (painted before its bg)?"""
        out = []
        def walk(node, inside):
            for kid in node.kids:
                if kid.unit in ('real', 'fake'):
                    z = kid.a['z'] if kid.a['z'] != 'auto' else 0
                    if z < 0 and unit.unit == 'real':
                        out.append(kid)
                    if kid.unit == 'real':
                        continue
                    walk(kid, False)
                elif kid.unit == 'float':
                    if inside:
                        out.append(kid)
                    walk(kid, False)
                elif kid.unit == 'atomic':
                    walk(kid, False)
                else:
                    if inside and kid.kind in BLOCK_LEVEL:
                        out.append(kid)
                    walk(kid, inside)
        walk(unit, True)
        return out

    def mark_exempt(node, recursive):
        a = node.a
        for slot in ('bg', 'border', 'outline'):
            if isinstance(a[slot], int):
                exempt_codes.add(a[slot])
        exempt_codes.add(a['color'])
        for _, gbg, cols in a['colGroups']:
            exempt_codes.update(c for c in [gbg] + [cbg for _, cbg in cols] if isinstance(c, int))
        if recursive:
            for kid in node.kids:
                if kid.kind in TABLE_PARTS and not kid.unit:
                    mark_exempt(kid, True)

    def table_items(table, prefix):
        """draw_table order: backgrounds of table, column groups, columns, row groups, rows, cells;
        then borders of the table and of the cells (separate model)."""
        t = table.a
        order = table.vid
        n = [0]
        def sub():
            n[0] += 1
            return n[0]
        if isinstance(t['bg'], int):
            add(table, prefix + ((4, 0, order, 0, sub()),), 'bg', t['bg'], 2)
        for gid, gbg, cols in t['colGroups']:
            if isinstance(gbg, int):
                add(table, prefix + ((4, 0, order, 0, sub()),), 'bg', gbg, 2)
            for cid, cbg in cols:
                if isinstance(cbg, int):
                    add(table, prefix + ((4, 0, order, 0, sub()),), 'bg', cbg, 2)
        cells = []
        for group in table.kids:
            if group.unit:
                continue
            if isinstance(group.a['bg'], int):
                add(group, prefix + ((4, 0, order, 0, sub()),), 'bg', group.a['bg'], 2)
            for row in group.kids:
                if row.unit:
                    continue
                if isinstance(row.a['bg'], int):
                    add(row, prefix + ((4, 0, order, 0, sub()),), 'bg', row.a['bg'], 2)
                for cell in row.kids:
                    if cell.unit:
                        continue
                    c = cell.a
                    empty_hidden = c['cellEmpty'] and not c['emptyCellsShow']
                    if isinstance(c['bg'], int) and (t['collapse'] or not empty_hidden):
                        add(cell, prefix + ((4, 0, order, 0, sub()),), 'bg', c['bg'], 2)
                    cells.append(cell)
        if not t['collapse']:
            if isinstance(t['border'], int) and t['visible']:
                border_items(table, prefix + ((4, 0, order, 1, sub()),))
            for cell in cells:
                c = cell.a
                if isinstance(c['border'], int) and c['visible'] and not (c['cellEmpty'] and not c['emptyCellsShow']):
                    border_items(cell, prefix + ((4, 0, order, 1, sub()),))

    # page-level items (draw_page): page background, canvas background, page border
    pre = []
    if isinstance(page['bg'], int):
        pre.append(f'f:{page["bg"]}:1::')
    if isinstance(canvas, int):
        pre.append(f'f:{canvas}:1::')
    if isinstance(page['border'], int) and page['visible']:
        pre.append(f'f:{page["border"]}:0::')
    for root in roots:
        region(root, root, unit_path(root))
    items.sort(key=lambda kv: kv[0])
    return pre + [s for _, s in items], exempt_codes, findings


def code_of(event):
    parts = event.split(':')
    return int(parts[1]) if len(parts) > 1 and parts[1].isdigit() else None


def violation(page_attrs, kids_wire, canvas, impl, exempt=True, info=None):
    """-> (text | None, findings seen).  `impl` is the implementation's display list string."""
    return violation_once(page_attrs, kids_wire, canvas, impl, exempt, info)


def violation_once(page_attrs, kids_wire, canvas, impl, exempt=True, info=None):
    if impl.startswith('err:'):
        return f'painting raised {impl}', set()
    expected, exempt_codes, findings = expected_items(page_attrs, kids_wire, canvas, exempt, info)
    got = impl.split()
    if got == expected:
        return None, findings
    if exempt and exempt_codes:
        def kept(e):
            return not (e.startswith('r:') and 'r' in exempt_codes) and (
                e.startswith('r:') or code_of(e) not in exempt_codes)
        got = [e for e in got if kept(e)]
        expected = [e for e in expected if kept(e)]
        if got == expected:
            return None, findings
    # describe the first difference in the property's terms
    from collections import Counter
    cg, ce = Counter(got), Counter(expected)
    if cg != ce:
        missing = list((ce - cg).elements())[:4]
        extra = list((cg - ce).elements())[:4]
        return (f'items painted a wrong number of times or in a wrong graphics state: missing {missing}, '
                f'unexpected {extra} (item = kind:colour:clips:opacity groups:transforms)'), findings
    for i, (g, e) in enumerate(zip(got, expected)):
        if g != e:
            return (f'paint order differs from CSS 2.1 Appendix E at item {i}: painted {g} where {e} is due '
                    f'(…{got[max(0, i - 3):i + 3]} vs …{expected[max(0, i - 3):i + 3]})'), findings
    return 'display lists differ in length', findings


# ---------------------------------------------------------------------------------------------------
# clauses on the StackingContext structure itself (dispatch_partition, context_creation, sorting)

CELL = {'TableCellBox'}


def contexts_violation(page_attrs, kids_wire, impl):
    """`impl` = canonical s-expression of the real StackingContext.from_page result. -> text | None"""
    from vlib import sx
    if impl.startswith('err:'):
        return f'StackingContext.from_page raised {impl}'
    got = sx.loads_line(impl)[0]
    roots = [build(k) for k in kids_wire]
    by_id = {}
    expected_place = {}     # vid -> (placement, parent unit vid)

    def walk(node, real_anc, unit_anc, is_page_child):
        by_id[node.vid] = node
        node.unit = classify(node, is_page_child)
        if is_page_child:
            expected_place[node.vid] = ('child', 0)
        elif node.unit in ('real', 'fake'):
            expected_place[node.vid] = ('child', real_anc)
        elif node.unit == 'float':
            expected_place[node.vid] = ('float', unit_anc)
        elif node.unit == 'atomic':
            expected_place[node.vid] = ('tree', unit_anc)
        next_real = node.vid if node.unit == 'real' else real_anc
        next_unit = node.vid if node.unit else unit_anc
        for kid in node.kids:
            walk(kid, next_real, next_unit, False)

    for root in roots:
        walk(root, 0, 0, True)

    seen = []
    place = {}
    problems = []

    def is_ctx(x):
        return isinstance(x, list) and x and x[0] == 'ctx'

    def region_nodes(tree, out):
        """Preorder of the boxes of a pruned tree, not entering nested contexts; contexts visited after."""
        seen.append(int(tree[0]))
        out.append(tree)
        for kid in tree[1:]:
            if is_ctx(kid):
                pending.append((kid, 'tree'))
            else:
                region_nodes(kid, out)

    pending = []

    def visit_ctx(ctx, placement, parent_vid):
        _, z, box, neg, zero, pos, blocks, floats, bc = ctx
        if box == ['ph']:
            return
        vid = int(box[0])
        if vid != 0:
            place[vid] = (placement, parent_vid)
        nodes = []
        mark = len(pending)
        region_nodes(box, nodes)
        inner = pending[mark:]
        del pending[mark:]
        z = int(z)
        style_z = 0
        if vid in by_id and by_id[vid].a['z'] != 'auto':
            style_z = by_id[vid].a['z']
        if z != style_z:
            problems.append(f'context of box {vid} has z_index {z}, style says {style_z}')
        want_blocks = [n for n in nodes[1:] if by_id[int(n[0])].kind in BLOCK_LEVEL]
        want_bc = [n for n in nodes[1:] if by_id[int(n[0])].kind in BLOCK_LEVEL | CELL]
        if blocks != want_blocks:
            problems.append(f'block_level_boxes of context {vid}: {[b[0] for b in blocks]} but the in-flow block-level '
                            f'boxes of its tree are {[b[0] for b in want_blocks]} (tree order)')
        if bc != want_bc:
            problems.append(f'blocks_and_cells of context {vid}: {[b[0] for b in bc]} expected {[b[0] for b in want_bc]}')

        def key(c):
            return (int(c[1]), int(c[2][0]) if c[2] != ['ph'] else -1)
        if any(int(c[1]) >= 0 for c in neg) or [key(c) for c in neg] != sorted(key(c) for c in neg):
            problems.append(f'negative_z_contexts of {vid} not sorted by (z, tree order): {[key(c) for c in neg]}')
        if any(int(c[1]) != 0 for c in zero) or [key(c) for c in zero] != sorted(key(c) for c in zero):
            problems.append(f'zero_z_contexts of {vid} not in tree order: {[key(c) for c in zero]}')
        if any(int(c[1]) <= 0 for c in pos) or [key(c) for c in pos] != sorted(key(c) for c in pos):
            problems.append(f'positive_z_contexts of {vid} not sorted by (z, tree order): {[key(c) for c in pos]}')
        for c, _ in inner:
            visit_ctx(c, 'tree', vid)
        for c in neg + zero + pos:
            visit_ctx(c, 'child', vid)
        for c in floats:
            visit_ctx(c, 'float', vid)

    visit_ctx(got, 'child', None)
    want_ids = sorted([0] + list(by_id))
    if sorted(seen) != want_ids:
        from collections import Counter
        cs, cw = Counter(seen), Counter(want_ids)
        problems.append(f'boxes lost {sorted((cw - cs).elements())[:6]} / duplicated {sorted((cs - cw).elements())[:6]} '
                        'by the dispatch')
    # placement of the units: a fake context's children list is shared with the nearest real context,
    # so 'child' placements are compared up to that: the recorded parent is the list's owner.
    for vid, want in expected_place.items():
        have = place.get(vid)
        if have is None:
            problems.append(f'box {vid} should be a {want[0]} context of {want[1]} but is not a context root')
        elif have != want:
            problems.append(f'box {vid} is a {have[0]} context of {have[1]}, expected {want[0]} of {want[1]}')
    for vid in place:
        if vid not in expected_place:
            problems.append(f'box {vid} creates a context but CSS 2.1 9.9.1 gives no reason')
    return '; '.join(problems[:4]) or None


# ---------------------------------------------------------------------------------------------------
# geometry clauses: "painted at the rectangle and radii CSS prescribes (background-clip, border widths),
# clipped by overflow", "text at its box's baseline origin, at its font size" — stated from the laid-out
# boxes with css-backgrounds-3 formulas written here, independently of the Lean model.

def spec_rounded(box, insets):
    """(x, y, w, h, radii…) of the box's border box moved in by `insets` = (top, right, bottom, left):
    inner radius = max(0, outer - inset) per corner and axis, then corner-overlap scaling."""
    it, ir, ib, il = (Fraction(v) for v in insets)
    x = Fraction(box.position_x) + Fraction(box.margin_left) + il
    y = Fraction(box.position_y) + Fraction(box.margin_top) + it
    border_w = sum(Fraction(getattr(box, n)) for n in (
        'width', 'padding_left', 'padding_right', 'border_left_width', 'border_right_width'))
    border_h = sum(Fraction(getattr(box, n)) for n in (
        'height', 'padding_top', 'padding_bottom', 'border_top_width', 'border_bottom_width'))
    w, h = border_w - il - ir, border_h - it - ib
    per_corner = {'top_left': (il, it), 'top_right': (ir, it), 'bottom_right': (ir, ib), 'bottom_left': (il, ib)}
    inner = {}
    for corner, (ix, iy) in per_corner.items():
        rx, ry = (Fraction(v) for v in getattr(box, f'border_{corner}_radius'))
        inner[corner] = (max(Fraction(0), rx - ix), max(Fraction(0), ry - iy))
    ratio = Fraction(1)
    for extent, total in ((w, inner['top_left'][0] + inner['top_right'][0]),
                          (w, inner['bottom_left'][0] + inner['bottom_right'][0]),
                          (h, inner['top_left'][1] + inner['bottom_left'][1]),
                          (h, inner['top_right'][1] + inner['bottom_right'][1])):
        if total > 0:
            ratio = min(ratio, extent / total)
    return x, y, w, h, [tuple(v * ratio for v in inner[c]) for c in (
        'top_left', 'top_right', 'bottom_right', 'bottom_left')]


def spec_insets(box, which):
    bt, br, bb, bl = (Fraction(getattr(box, f'border_{s}_width')) for s in ('top', 'right', 'bottom', 'left'))
    if which == 'border-box':
        return (0, 0, 0, 0)
    if which == 'padding-box':
        return (bt, br, bb, bl)
    return (bt + Fraction(box.padding_top), br + Fraction(box.padding_right),
            bb + Fraction(box.padding_bottom), bl + Fraction(box.padding_left))


def spec_path(rounded):
    from harness.c17_scene import show_dec as d
    x, y, w, h, (tl, tr, br, bl) = rounded
    if all(0 in corner for corner in (tl, tr, br, bl)):
        return f're({d(x)},{d(y)},{d(w)},{d(h)})'
    r = Fraction(45, 100)
    return (f'm({d(x + tl[0])},{d(y)})l({d(x + w - tr[0])},{d(y)})'
            f'c({d(x + w - tr[0] * r)},{d(y)},{d(x + w)},{d(y + tr[1] * r)},{d(x + w)},{d(y + tr[1])})'
            f'l({d(x + w)},{d(y + h - br[1])})'
            f'c({d(x + w)},{d(y + h - br[1] * r)},{d(x + w - br[0] * r)},{d(y + h)},{d(x + w - br[0])},{d(y + h)})'
            f'l({d(x + bl[0])},{d(y + h)})'
            f'c({d(x + bl[0] * r)},{d(y + h)},{d(x)},{d(y + h - bl[1] * r)},{d(x)},{d(y + h - bl[1])})'
            f'l({d(x)},{d(y + tl[1])})'
            f'c({d(x)},{d(y + tl[1] * r)},{d(x + tl[0] * r)},{d(y)},{d(x + tl[0])},{d(y)})')


def close(a, b):
    """Equal up to 1e-4 on every number."""
    from harness.c17_scene import snap
    return snap(a, b)[0] == b


def parse_rect(text):
    """`re(x,y,w,h)` -> four Fractions, else None."""
    if not (text.startswith('re(') and text.endswith(')') and text.count('(') == 1):
        return None
    try:
        values = [Fraction(v) for v in text[3:-1].split(',')]
    except ValueError:
        return None
    return values if len(values) == 4 else None


def clip_matches(clip, want):
    """A clip path of the stack against a wanted path (string, up to 1e-4) or a wanted region
    ('region', (x0, x1, y0, y1), …): a rectangle of either orientation covering exactly that region."""
    if not isinstance(want, tuple):
        return close(clip, want)
    rect = parse_rect(clip)
    if rect is None:
        return False
    x, y, w, h = rect
    got = (min(x, x + w), max(x, x + w), min(y, y + h), max(y, y + h))
    return all(abs(g - e) <= Fraction(1, 10000) for g, e in zip(got, want[1]))


def css_clip_region(box):
    """CSS 2.1 11.1.2: rect(top, right, bottom, left) are offsets from the top-left corner of the border box,
    `auto` is the border edge of that side.  -> ('region', (x0, x1, y0, y1), exactly one of left/right is auto)"""
    top, right, bottom, left = box.style['clip']
    bbx, bby = Fraction(box.border_box_x()), Fraction(box.border_box_y())
    bw, bh = Fraction(box.border_width()), Fraction(box.border_height())
    x0 = bbx + (0 if left == 'auto' else Fraction(left))
    x1 = bbx + (bw if right == 'auto' else Fraction(right))
    y0 = bby + (0 if top == 'auto' else Fraction(top))
    y1 = bby + (bh if bottom == 'auto' else Fraction(bottom))
    return ('region', (min(x0, x1), max(x0, x1), min(y0, y1), max(y0, y1)), (left == 'auto') != (right == 'auto'))


def geometry_violation(page_box, events, exempt=True, findings=None):
    """`events` = geometric display list (list of tokens) of the page; boxes must be tagged (`_vid`).
    Ordinary boxes, four-sided borders, no outlines, tables of the separated borders model: what the geometry
    scenes contain.  Every painted fill / text show must be at the rectangle, rounded box or origin CSS
    prescribes for one of the boxes of its colour, inside that box's background-clip box and its overflow
    ancestors' padding boxes.  The background of a row, row group, column or column group (CSS 2.1 17.5.1) is
    painted through exactly the border boxes of the cells that originate in it, and its painting area covers
    every one of them.  `findings` (a set) receives the known findings met."""
    from harness.c17_scene import TABLE_PART_NAMES, bg_of, color_code, show_dec
    from weasyprint.draw.color import get_color
    from weasyprint.formatting_structure import boxes
    want_bg, want_border, want_text, want_part = {}, {}, {}, {}
    if findings is None:
        findings = set()

    def part_cells(box, name):
        if name == 'TableRowBox':
            return [list(box.children)]
        if name == 'TableRowGroupBox':
            return [list(row.children) for row in box.children if row.children]
        return [list(box.get_cells())]

    def walk(box, clip_ancestors):
        box = getattr(box, '_box', box)
        name = type(box).__name__
        if name not in TABLE_PART_NAMES and not isinstance(box, boxes.PageBox):
            code = bg_of(box)
            if isinstance(code, int):
                which = box.style['background_clip'][0]
                area = spec_rounded(box, spec_insets(box, which))
                rect = f're({show_dec(area[0])},{show_dec(area[1])},{show_dec(area[2])},{show_dec(area[3])})'
                own_clips = list(clip_ancestors)
                if box.is_absolutely_positioned() and box.style['clip']:
                    own_clips.append(css_clip_region(box))       # the box's own `clip` applies to its background
                want_bg.setdefault(str(code), []).append(
                    (box._vid, which, rect, spec_path(area), own_clips))
            widths = [getattr(box, f'border_{s}_width', 0) for s in ('top', 'right', 'bottom', 'left')]
            if all(widths) and box.style['visibility'] == 'visible':
                code = color_code(get_color(box.style, 'border_top_color'))
                path = (spec_path(spec_rounded(box, spec_insets(box, 'padding-box'))) + '+' +
                        spec_path(spec_rounded(box, (0, 0, 0, 0))))
                want_border.setdefault(str(code), []).append((box._vid, widths, path))
            if isinstance(box, boxes.TextBox) and box.style['visibility'] == 'visible':
                code = color_code(box.style['color'])
                want_text.setdefault(str(code), []).append((box._vid, box.text, (
                    f'tm({show_dec(Fraction(box.position_x))},'
                    f'{show_dec(Fraction(box.position_y) + Fraction(box.baseline))},'
                    f'{show_dec(Fraction(box.style["font_size"]))})'), list(clip_ancestors)))
        if name in TABLE_PART_NAMES:
            code = bg_of(box)
            if isinstance(code, int):
                rows = part_cells(box, name)
                cells = [cell for row in rows for cell in row]
                areas = [spec_rounded(cell, (0, 0, 0, 0)) for cell in cells]
                want_part.setdefault(str(code), []).append(
                    (box._vid, name, [spec_path(a) for a in areas], [a[:4] for a in areas], len(rows)))
        if isinstance(box, boxes.TableBox):
            for group in box.column_groups:
                walk(group, clip_ancestors)
        inner = list(clip_ancestors)
        if (box.style['overflow'] != 'visible' and not isinstance(box, boxes.PageBox)
                and name not in TABLE_PART_NAMES):
            inner.append(spec_path(spec_rounded(box, spec_insets(box, 'padding-box'))))
        for child in getattr(box, 'children', ()):
            walk(child, inner)

    walk(page_box, [])
    page_codes = set()
    for attr in ('background', 'canvas_background'):
        bg = getattr(page_box, attr, None)
        if bg is not None and bg.color.alpha > 0:
            page_codes.add(str(color_code(bg.color)))
    # the canvas background covers the page box's border box (css-page-3 "page backgrounds and painting order");
    # the page's own background covers the bleed area
    canvas_code = page_rect = None
    canvas = getattr(page_box, 'canvas_background', None)
    if canvas is not None and canvas.color.alpha > 0:
        canvas_code = str(color_code(canvas.color))
        area = spec_rounded(page_box, (0, 0, 0, 0))
        page_rect = f're({show_dec(area[0])},{show_dec(area[1])},{show_dec(area[2])},{show_dec(area[3])})'
    own = getattr(page_box, 'background', None)
    own_code = str(color_code(own.color)) if own is not None and own.color.alpha > 0 else None
    for token in events:
        kind, color, alphas, transforms, clips, geom = token.split(':', 5)
        clips = clips.split('|') if clips else []
        if kind == 't':
            cands = want_text.get(color, [])
            if cands and not any(close(geom, tm) and all(any(close(c, w) for c in clips) for w in anc)
                                 for _, _, tm, anc in cands):
                vid, text, tm, anc = cands[0]
                return (f'text of colour {color} is shown at {geom} with clip stack {clips}; the text boxes of that '
                        f'colour have baseline origin / font size {[c[2] for c in cands][:3]} (box {vid} {text!r}) '
                        f'inside the overflow clips {anc}')
            continue
        if color == canvas_code and color != own_code and not want_bg.get(color):
            if not (close(geom, page_rect) and clips and close(clips[-1], page_rect)):
                return (f'canvas background of colour {color} is painted in {geom} inside the clips {clips}; it '
                        f'covers the border box of the page box: {page_rect}')
            continue
        if color in page_codes:
            continue
        if '+' in geom or 'm(' in geom:
            cands = want_border.get(color, [])
            def same_paths(got, want):
                # even-odd fill of two subpaths: their order is immaterial
                g, w = got.split('+'), want.split('+')
                return len(g) == len(w) == 2 and ((close(g[0], w[0]) and close(g[1], w[1])) or
                                                  (close(g[0], w[1]) and close(g[1], w[0])))
            if cands and not any(same_paths(geom, path) for _, _, path in cands):
                vid, widths, path = cands[0]
                return (f'border of colour {color} is painted as {geom}; box {vid} (widths {widths}): inner edge = '
                        f'padding box with radii max(0, r - width), outer edge = border box: {path}')
            continue
        if color in want_part and not want_bg.get(color):
            problem = None
            for vid, name, paths, rects, nrows in want_part[color]:
                got_paths = clips[-2].split('+') if len(clips) >= 2 and clips[-2] else []
                if len(got_paths) != len(paths) or not all(close(g, w) for g, w in zip(got_paths, paths)):
                    problem = (f'background of the {name} {vid} (colour {color}) is painted through the clip '
                               f'{got_paths}; the border boxes of the cells that originate in it are {paths}')
                    continue
                area = parse_rect(geom)
                tol = Fraction(1, 10000)
                outside = [r for r in rects if area is None or not (
                    area[0] - tol <= r[0] and r[0] + r[2] <= area[0] + area[2] + tol and
                    area[1] - tol <= r[1] and r[1] + r[3] <= area[1] + area[3] + tol)]
                if not outside:
                    problem = None
                    break
                cell = outside[0]
                text = (f'background of the {name} {vid} (colour {color}) is painted in {geom}: the cell border box '
                        f're({show_dec(cell[0])},{show_dec(cell[1])},{show_dec(cell[2])},{show_dec(cell[3])}) that '
                        'originates in it is not covered (CSS 2.1 17.5.1)')
                if name == 'TableRowGroupBox' and nrows > 1:
                    # known finding: the height of a row group's painting area is its highest cell's
                    findings.add('row-group-background-first-row-only')
                    if exempt:
                        problem = None
                        break
                problem = text
            if problem:
                return problem
            continue
        cands = want_bg.get(color, [])
        if not cands:
            continue
        ok = False
        for vid, which, rect, clip_path, anc in cands:
            if not (close(geom, rect) and len(clips) >= 2 and close(clips[-2], clip_path) and close(clips[-1], rect)):
                continue
            missing = [w for w in anc if not any(clip_matches(c, w) for c in clips)]
            if not missing:
                ok = True
                break
            if all(isinstance(w, tuple) and w[2] for w in missing):
                # known finding: `clip` with exactly one of left / right `auto` clips to the wrong strip
                findings.add('clip-auto-sides-swapped')
                if exempt:
                    ok = True
                    break
        if not ok:
            vid, which, rect, clip_path, anc = cands[0]
            shown = [w if not isinstance(w, tuple) else
                     'clip region x in [%s, %s], y in [%s, %s]' % tuple(show_dec(v) for v in w[1]) for w in anc]
            return (f'background of colour {color} is painted in {geom} inside the clips {clips}; box {vid} '
                    f'(background-clip {which}) prescribes {rect} inside its {which} {clip_path} and the overflow / '
                    f'clip-property clips {shown}')
    return None


# ---------------------------------------------------------------------------------------------------
# which branches of the models a page exercises (evidence: histogram + branches never hit)

ALL_BRANCHES = [
    'd:placeholder', 'd:real', 'd:fake', 'd:float', 'd:atomic', 'd:block', 'd:cell', 'd:parent-other', 'd:leaf',
    'p:singular', 'p:point2', 'p:point6-inline-root', 'p:root-without-decoration', 'p:overflow-clip',
    'p:viewport-clip', 'p:clip-property', 'p:opacity-group', 'p:transform', 'p:table', 'p:table-collapse',
    'p:cell-hidden', 'p:column-backgrounds', 'p:replaced-block', 'p:replaced-inline', 'p:text', 'p:text-hidden',
    'p:border-4', 'p:border-partial', 'p:border-hidden', 'p:outline', 'p:page-background', 'p:canvas-background',
    'p:page-border', 'p:point7-lines', 'p:neg-z', 'p:pos-z', 'p:zero-z']
POINT2 = {'BlockBox', 'InlineBlockBox', 'ReplacedBox', 'BlockReplacedBox', 'InlineReplacedBox', 'TableCellBox',
          'TableCaptionBox', 'MarginBox', 'FootnoteAreaBox', 'FlexContainerBox', 'FlexBox', 'InlineFlexBox',
          'GridContainerBox', 'GridBox', 'InlineGridBox'}


def laid_out_violation(page_attrs, kids_wire, info, impl, exempt=True):
    """-> (text | None, findings seen); see laid_out_once (no known finding excuses anything here)."""
    return laid_out_once(page_attrs, kids_wire, info, impl), set()


def laid_out_once(page_attrs, kids_wire, info, impl):
    """`impl` = `canvas (id bg matrix) …` read from the real boxes after layout (style-level export).
    Clauses: every box has the background its style prescribes — except the element whose background was
    propagated to the canvas, which has none (CSS 2.1 14.2) — and every transformable box with a `transform`
    has its matrix (css-transforms-1). -> text | None"""
    if impl.startswith('err:'):
        return f'layout raised {impl}'
    roots = [build(k) for k in kids_wire]
    canvas = propagate_canvas(roots, info)
    want = [str(canvas)]

    def visit(node):
        want.append(f'({node.vid} {node.a["bg"]} {node.a["matrix"]})')
        for gid, gbg, cols in node.a['colGroups']:
            want.append(f'({gid} {gbg} none)')
            want.extend(f'({cid} {cbg} none)' for cid, cbg in cols)
        for kid in node.kids:
            visit(kid)

    for root in roots:
        visit(root)
    got = impl.split(' ')
    # re-join "(id bg mat)" triples
    got = [got[0]] + [' '.join(got[i:i + 3]) for i in range(1, len(got), 3)]
    if got == want:
        return None
    if got[0] != want[0]:
        return (f'canvas background is {got[0]}; CSS 2.1 14.2 (root element, else its BODY child) gives {want[0]}')
    for g, w in zip(got[1:], want[1:]):
        if g != w:
            gid, gbg, gmat = g.strip('()').split(' ')
            wid, wbg, wmat = w.strip('()').split(' ')
            if gid != wid:
                return f'after layout the boxes are {g} where {w} is expected (tree order)'
            if gbg != wbg:
                return (f'box {gid} has the background {gbg} after layout; its style and CSS 2.1 14.2 (a background '
                        f'propagated to the canvas is not painted at its box; canvas = {want[0]}) prescribe {wbg}')
            return (f'box {gid} has the transformation matrix {gmat} (none | sing | x translation) after layout; its '
                    f'transform on a transformable box (css-transforms-1) prescribes {wmat}: the transform is not '
                    'applied to the box and its subtree')
    return 'laid-out lists differ in length'


def branch_tags(page_attrs, kids_wire, canvas, info=None):
    page = normalise(dict(zip(SLOTS, page_attrs)))
    if info is not None:
        canvas = propagate_canvas([build(k) for k in kids_wire], info)
    tags = set()
    if isinstance(page['bg'], int):
        tags.add('p:page-background')
    if isinstance(canvas, int):
        tags.add('p:canvas-background')
    if isinstance(page['border'], int):
        tags.add('p:page-border')

    def walk(wire, is_page_child):
        if wire[0] == 'P':
            tags.add('d:placeholder')
            return walk(wire[1], is_page_child)
        a = normalise(dict(zip(SLOTS, wire[1])))
        node = N(wire[1], [], None)
        unit = classify(node, is_page_child)
        kind = a['kind']
        if unit:
            tags.add(f'd:{unit}')
            z = a['z'] if a['z'] != 'auto' else 0
            tags.add('p:neg-z' if z < 0 else 'p:pos-z' if z > 0 else 'p:zero-z')
            if a['matrix'] == 'sing':
                tags.add('p:singular')
            tags.add('p:point2' if kind in POINT2 else
                     'p:point6-inline-root' if kind == 'InlineBox' else 'p:root-without-decoration')
            if not a['overflowVisible']:
                tags.add('p:overflow-clip')
            if a['isRoot'] and not page['overflowVisible']:
                tags.add('p:viewport-clip')
            if a['absPos'] and a['clipProp']:
                tags.add('p:clip-property')
            if a['opacity'] < 1:
                tags.add('p:opacity-group')
            if isinstance(a['matrix'], int):
                tags.add('p:transform')
        elif wire[0] == 'L':
            tags.add('d:leaf')
        elif kind in BLOCK_LEVEL:
            tags.add('d:block')
        elif kind == 'TableCellBox':
            tags.add('d:cell')
            if a['cellEmpty'] and not a['emptyCellsShow']:
                tags.add('p:cell-hidden')
        else:
            tags.add('d:parent-other')
        if kind in ('TableBox', 'InlineTableBox'):
            tags.add('p:table-collapse' if a['collapse'] else 'p:table')
            if a['colGroups']:
                tags.add('p:column-backgrounds')
        if kind == 'BlockReplacedBox':
            tags.add('p:replaced-block')
        if kind == 'InlineReplacedBox':
            tags.add('p:replaced-inline')
        if kind == 'TextBox':
            tags.add('p:text' if a['visible'] else 'p:text-hidden')
        if kind == 'LineBox':
            tags.add('p:point7-lines')
        if isinstance(a['border'], int):
            tags.add('p:border-hidden' if not a['visible'] else
                     'p:border-4' if a['borderSides'] == 4 else 'p:border-partial')
        if isinstance(a['outline'], int):
            tags.add('p:outline')
        if wire[0] == 'N':
            for kid in wire[2]:
                walk(kid, False)

    for kid in kids_wire:
        walk(kid, True)
    return sorted(tags)
