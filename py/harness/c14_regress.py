"""C14 regression cases of repaired findings (`fixed:` lines of known_findings.txt), corpus first.

Every case of `corpus/C14/fixed_regressions.json` is run on the real code *before* the random sections,
compared with the Lean model through the driver and judged with the property clause, so that a repaired
defect that comes back is reported as a VIOLATION with the committed input (a `fixed:` entry suppresses
nothing).  Kinds of case:

* `parsesel`  — `parse_page_selectors` on an `@page` prelude (function level);
* `pagerule`  — a document whose second `@page` rule has the prelude: rendered by the real pipeline, outcome
  canonicalised to what the parser model prints for the prelude (`none` = the rule was ignored and the page keeps
  the margin of the first rule; `err:<Class>` = rendering raised; `(applied)` = the rule took effect);
* `pdf`       — `/MediaBox /TrimBox /BleedBox` of the first page of a document at a zoom, against the model and
  the zoom-1 boxes of the same page.
"""
import json
import pathlib
from fractions import Fraction as F

from harness import c14_docs, docs
from vlib import sx

CORPUS = pathlib.Path(__file__).resolve().parents[2] / 'corpus' / 'C14' / 'fixed_regressions.json'


def cases():
    return json.loads(CORPUS.read_text())['cases']


def pagerule_html(prelude):
    return (f'<style>@page {{ size: 200px; margin: 10px }} @page {prelude} {{ margin: 30px }}</style>'
            f'<p>x</p><p style="break-before: page">y</p>')


def pagerule_outcome(prelude):
    try:
        document = docs.render(pagerule_html(prelude))
    except Exception as exc:  # an exception of the implementation is an outcome
        # a StopIteration raised inside the stylesheet generator surfaces as RuntimeError(__cause__=StopIteration)
        if isinstance(exc, RuntimeError) and isinstance(exc.__cause__, StopIteration):
            exc = exc.__cause__
        return f'err:{type(exc).__name__}'
    margins = {page._page_box.margin_left for page in document.pages}
    return 'none' if margins == {10} else '(applied)'


def correspondence(prop, run):
    from props.c14 import impl_parsesel
    sec = run.section(
        'fixed-regressions', 'the committed inputs of the repaired findings of C14 (corpus/C14/fixed_regressions.json), '
        'function level and rendered documents, vs the model and the property clause; non-trivial = every case')
    pdf_sec = run.section(
        'fixed-regressions-pdf', 'PDF page boxes of the committed documents of the repaired TrimBox / BleedBox findings '
        'at the recorded zoom vs the model and vs the boxes at zoom 1; non-trivial = every case')
    collecting = getattr(run, 'found', None) is not None
    for case in cases():
        kind = case['kind']
        if kind in ('parsesel', 'pagerule'):
            toks, out = impl_parsesel(case['prelude'])
            if toks is None:
                continue
            line = sx.line('parsesel', toks)
            if kind == 'parsesel':
                sec.add(line, out, meta={'fn': 'parsesel', 'args': [case['prelude']], 'fixed': case['fixed']},
                        tags=[case['fixed']])
            else:
                sec.add(line, pagerule_outcome(case['prelude']),
                        meta={'fn': 'reg-pagerule', 'args': [case['prelude']], 'html': pagerule_html(case['prelude']),
                              'fixed': case['fixed']}, tags=[case['fixed']])
        elif kind == 'pdf':
            zoom = F(case['zoom'])
            try:
                document = docs.render(case['html'])
                page = document.pages[0]
                rects = c14_docs.pdf_boxes(document, float(zoom))[0]
                rects1 = c14_docs.pdf_boxes(document, 1.0)[0]
            except Exception as exc:  # an exception of the implementation is an outcome
                pdf_sec.add(sx.line('pdfboxes', 0, 0, [0, 0, 0, 0], zoom), f'err:{type(exc).__name__}',
                            meta={'fn': 'reg-pagerule', 'args': [''], 'html': case['html'], 'fixed': case['fixed']})
                continue
            bleed = [page.bleed[s] for s in ('top', 'right', 'bottom', 'left')]
            line = sx.line('pdfboxes', F(page.width), F(page.height), [F(b) for b in bleed], zoom)
            out = ' '.join('(' + ' '.join(sx.atom(F(v)) for v in r) + ')' for r in rects)
            pdf_sec.add(line, out, meta={
                'fn': 'pdf', 'args': [page.width, page.height, bleed, str(zoom)], 'html': case['html'], 'page': 0,
                'rects': [[float(v) for v in r] for r in rects], 'rects1': [[float(v) for v in r] for r in rects1],
                'fixed': case['fixed']}, tags=[case['fixed']])


def judge(meta, impl):
    """fn == 'reg-pagerule': a malformed / unsupported page selector must leave the document untouched."""
    prelude = meta['args'][0]
    if impl.startswith('err:'):
        return f'rendering a document with `@page {prelude} {{…}}` raised {impl} (the rule must be ignored)'
    if impl != 'none':
        return f'the unsupported page selector `@page {prelude}` was applied instead of being ignored'
    return None


def replay(meta):
    return judge(meta, pagerule_outcome(meta['args'][0]))
