"""C17 helpers: scene generator, export of a laid-out page to the abstract tree of Model/Stacking.lean,
canonical form of a real StackingContext, display list of a real content stream.

Colour coding: element number i (>= 1) gets background 4i, text colour 4i+1, border 4i+2, outline 4i+3
(as 24-bit sRGB), so every fill / text-show of the content stream names the element and the role it
paints.  Transforms are `translate(Xpx, 0)` with a distinct integer X (the transform's code), opacities
are dyadic.
"""
from fractions import Fraction

from harness import docs

SLOTS = ('id kind positioned absPos z gridItem opacity styleTransform overflowVisible floated visible matrix '
         'clipProp isRoot bg border borderSides outline color collapse emptyCellsShow cellEmpty colGroups').split()


def hexcode(code):
    return f'#{code:06x}'


def color_code(color):
    r, g, b = (round(max(0.0, min(1.0, c)) * 255) for c in color.to('srgb').coordinates)
    return (r << 16) | (g << 8) | b


# ---------------------------------------------------------------------------------------------------
# export: real laid-out boxes -> abstract attributes (one attribute read of the drawing code each)

def bg_of(box):
    bg = getattr(box, 'background', None)
    if bg is None:
        return 'none'
    return color_code(bg.color) if bg.color.alpha > 0 else 'transparent'


def attrs_of(box, vid):
    from weasyprint.draw.color import get_color
    from weasyprint.formatting_structure import boxes
    style = box.style
    matrix = box.transformation_matrix
    if not matrix:
        mat = 'none'
    elif not matrix.determinant:
        mat = 'sing'
    else:
        mat = round(matrix.values[4])
    widths = [getattr(box, f'border_{side}_width', 0) for side in ('top', 'right', 'bottom', 'left')]
    sides = ('top', 'right', 'bottom', 'left')
    painted = [side for side, width in zip(sides, widths) if width]
    border = color_code(get_color(style, f'border_{painted[0]}_color')) if painted else 'none'
    outline_color = get_color(style, 'outline_color')
    outline = color_code(outline_color) if style['outline_width'] and outline_color.alpha else 'none'
    groups = []
    if isinstance(box, boxes.TableBox):
        for group in box.column_groups:
            group._vid = vid()
            cols = []
            for col in group.children:
                col._vid = vid()
                cols.append([col._vid, bg_of(col)])
            groups.append([group._vid, bg_of(group), cols])
    return [
        box._vid, type(box).__name__, style['position'] != 'static', bool(box.is_absolutely_positioned()),
        style['z_index'], bool(box.is_grid_item), Fraction(style['opacity']), bool(style['transform']),
        style['overflow'] == 'visible', bool(box.is_floated()), style['visibility'] == 'visible', mat,
        bool(style['clip']), bool(box.is_for_root_element), bg_of(box), border, sum(1 for w in widths if w), outline,
        color_code(style['color']), style['border_collapse'] == 'collapse', style['empty_cells'] == 'show',
        bool(getattr(box, 'empty', False)), groups]


def export_box(box, vid):
    """-> wire form (L attrs) | (N attrs (kids)) | (P box); tags every real box with `_vid`."""
    from weasyprint.formatting_structure import boxes
    from weasyprint.layout.absolute import AbsolutePlaceholder
    if isinstance(box, AbsolutePlaceholder):
        return ['P', export_box(box._box, vid)]
    box._vid = vid()
    attrs = attrs_of(box, vid)
    if isinstance(box, boxes.ParentBox):
        return ['N', attrs, [export_box(child, vid) for child in box.children]]
    return ['L', attrs]


def export_page(page_box):
    counter = iter(range(1, 10 ** 9))
    vid = lambda: next(counter)  # noqa: E731
    page_box._vid = 0
    attrs = attrs_of(page_box, vid)
    kids = [export_box(child, vid) for child in page_box.children]
    return attrs, kids, bg_of_canvas(page_box)


def bg_of_canvas(page_box):
    bg = page_box.canvas_background
    if bg is None:
        return 'none'
    return color_code(bg.color) if bg.color.alpha > 0 else 'transparent'


# ---------------------------------------------------------------------------------------------------
# canonical form of a real StackingContext (same string as Drive/Stacking.lean `showNode`)

def show_node(node):
    from weasyprint.formatting_structure import boxes
    from weasyprint.layout.absolute import AbsolutePlaceholder
    from weasyprint.stacking import StackingContext
    if isinstance(node, StackingContext):
        return ['ctx', node.z_index, show_node(node.box),
                [show_node(c) for c in node.negative_z_contexts],
                [show_node(c) for c in node.zero_z_contexts],
                [show_node(c) for c in node.positive_z_contexts],
                [show_node(b) for b in node.block_level_boxes],
                [show_node(c) for c in node.float_contexts],
                [show_node(b) for b in node.blocks_and_cells]]
    if isinstance(node, AbsolutePlaceholder):
        return ['ph']
    if isinstance(node, boxes.ParentBox):
        return [node._vid] + [show_node(child) for child in node.children]
    return [node._vid]


# ---------------------------------------------------------------------------------------------------
# display list of a real content stream

def new_stream(document, rectangle=(0, 0, 1000, 1000)):
    import pydyf
    from weasyprint.pdf.stream import Stream
    resources = pydyf.Dictionary({
        'ExtGState': pydyf.Dictionary(), 'XObject': pydyf.Dictionary(), 'Pattern': pydyf.Dictionary(),
        'Shading': pydyf.Dictionary(), 'ColorSpace': pydyf.Dictionary(), 'Font': pydyf.Dictionary()})
    return Stream(document.fonts, rectangle, resources, {}, False, compress=False), resources


def display_list(stream, state=None):
    """Interpret the operators of a content stream: every fill / text show with the fill colour, the
    number of clip paths, the enclosing opacity groups and the applied translations.
    -> list of strings in the format of Drive/Stacking.lean `showItem`."""
    out = []
    if state is None:
        state = {'color': None, 'clips': 0, 'alpha': Fraction(1), 'alphas': (), 'transforms': ()}
    stack = []
    for op in stream.stream:
        tokens = op.split()
        if not tokens:
            continue
        name = tokens[-1]
        if name == b'q':
            stack.append(dict(state))
        elif name == b'Q':
            state = stack.pop()
        elif name == b'rg':
            r, g, b = (round(float(x) * 255) for x in tokens[:3])
            state['color'] = (r << 16) | (g << 8) | b
        elif name in (b'W', b'W*'):
            state['clips'] += 1
        elif name == b'gs':
            key = tokens[0][1:].decode()
            if key.startswith('a'):
                state['alpha'] = Fraction(float(key[1:]))
        elif name == b'cm':
            a, b, c, d, e, f = (float(x) for x in tokens[:6])
            if (a, b, c, d) == (1, 0, 0, 1):
                if (e, f) != (0, 0):
                    state['transforms'] = state['transforms'] + (round(e),)
            else:
                state['transforms'] = state['transforms'] + (f'matrix({a},{b},{c},{d},{e},{f})',)
        elif name in (b'f', b'f*', b'TJ', b'Tj'):
            kind = 'f' if name in (b'f', b'f*') else 't'
            alphas = ','.join(
                str(x.numerator) if x.denominator == 1 else f'{x.numerator}/{x.denominator}'
                for x in state['alphas'])
            transforms = ','.join(str(t) for t in state['transforms'])
            out.append(f'{kind}:{state["color"]}:{state["clips"]}:{alphas}:{transforms}')
        elif name in (b'S', b's', b'B', b'B*', b'b', b'b*'):
            out.append(f'stroke:{state["color"]}')
        elif name == b'Do':
            key = tokens[0][1:].decode()
            inner = dict(state)
            inner['color'] = None
            inner['alphas'] = state['alphas'] + (state['alpha'],)
            inner['alpha'] = Fraction(1)
            out.extend(display_list(stream._resources['XObject'][key], inner))
    return out


def paint_page(document, page):
    stream, resources = new_stream(document)
    page.paint(stream, 1)
    return ' '.join(display_list(stream))


# ---------------------------------------------------------------------------------------------------
# scene generator

Z_VALUES = ['auto', 'auto', '0', '-1', '-2', '1', '2', '1', '-1', '5']
WORDS = ['ab', 'cd ef', 'g', 'hi jk lm', 'nop']


class Scene:
    """A generated document: nested element specs -> HTML.  Everything random comes from `rng`."""

    def __init__(self, rng, max_depth=4, features=None):
        self.rng = rng
        self.count = 0
        self.transforms = 0
        self.max_depth = max_depth
        self.features = features or {}
        self.used = set()

    # -- style pieces
    def new_id(self):
        self.count += 1
        return self.count

    def paint_style(self, i, inline=False, bg=0.85, border=0.25, outline=0.12):
        """`inline=True`: no border at all (table rows / groups, cells of collapsed tables)."""
        rng = self.rng
        parts = [f'color:{hexcode(4 * i + 1)}']
        if rng.random() < bg:
            parts.append(f'background:{hexcode(4 * i)}')
        if not inline and rng.random() < border:
            sides = rng.choice(['border', 'border', 'border', 'border-left', 'border-top', 'border-bottom'])
            parts.append(f'{sides}:{rng.choice([1, 2, 4])}px solid {hexcode(4 * i + 2)}')
            if sides != 'border':
                self.used.add('partial-border')
        if rng.random() < outline:
            parts.append(f'outline:{rng.choice([1, 2])}px solid {hexcode(4 * i + 3)}')
        return parts

    def effect_style(self, positioned=False, allow_overflow=True):
        """opacity / transform / overflow / visibility / z-index, each with a small probability."""
        rng = self.rng
        parts = []
        if rng.random() < 0.12:
            parts.append(f'opacity:{rng.choice(["0.5", "0.25", "0.75", "0.125", "1", "0"])}')
            self.used.add('opacity')
        if rng.random() < 0.10:
            if rng.random() < 0.15:
                parts.append('transform:scale(0)')
                self.used.add('singular')
            else:
                self.transforms += 1
                parts.append(f'transform:translate({1000 + self.transforms}px,0)')
                self.used.add('transform')
        if allow_overflow and rng.random() < 0.10:
            parts.append(f'overflow:{rng.choice(["hidden", "hidden", "auto", "scroll"])}')
            self.used.add('overflow')
        if rng.random() < 0.06:
            parts.append(f'visibility:{rng.choice(["hidden", "hidden", "visible"])}')
            self.used.add('visibility')
        if positioned or rng.random() < 0.08:
            z = rng.choice(Z_VALUES)
            if z != 'auto' or rng.random() < 0.3:
                parts.append(f'z-index:{z}')
            if z != 'auto':
                self.used.add('z')
        return parts

    def position_style(self):
        rng = self.rng
        kind = rng.choice(['relative', 'relative', 'absolute', 'absolute', 'fixed'])
        parts = [f'position:{kind}']
        if kind == 'relative':
            parts.append(f'top:{rng.choice([0, 2, -3])}px;left:{rng.choice([0, 4, -2])}px')
        else:
            parts.append(f'top:{rng.randrange(0, 200)}px;left:{rng.randrange(0, 300)}px')
            if rng.random() < 0.15:
                parts.append('clip:rect(0px,30px,30px,0px)')
                self.used.add('clip')
        self.used.add('positioned')
        return parts

    # -- content
    def text(self):
        return self.rng.choice(WORDS)

    def inline_content(self, depth, budget=4):
        rng = self.rng
        out = []
        for _ in range(rng.randrange(1, budget + 1)):
            roll = rng.random()
            if roll < 0.4 or depth <= 0:
                out.append(self.text() + ' ')
            elif roll < 0.62:
                i = self.new_id()
                style = self.paint_style(i, border=0.2)
                if rng.random() < 0.25:
                    style += ['position:relative'] + self.effect_style(positioned=True, allow_overflow=False)
                    self.used.add('positioned-inline')
                else:
                    style += self.effect_style(allow_overflow=False)
                out.append(f'<span style="{";".join(style)}">{self.inline_content(depth - 1, 3)}</span>')
            elif roll < 0.76:
                i = self.new_id()
                display = rng.choice(['inline-block', 'inline-block', 'inline-block', 'inline-flex',
                                      'inline-table', 'inline-grid'])
                style = [f'display:{display}'] + self.paint_style(i) + self.effect_style()
                if display == 'inline-table':
                    style.append('border-collapse:separate')
                if rng.random() < 0.15:
                    style += self.position_style()
                self.used.add(display)
                inner = self.flow_children(depth - 1, 2) if rng.random() < 0.4 else self.inline_content(depth - 1, 2)
                out.append(f'<div style="{";".join(style)}">{inner}</div>')
            elif roll < 0.88:
                out.append(self.floating(depth - 1))
            else:
                out.append(self.positioned(depth - 1))
        return ''.join(out)

    def floating(self, depth):
        i = self.new_id()
        style = ([f'float:{self.rng.choice(["left", "right"])}', f'width:{self.rng.choice([30, 50, 80])}px'] +
                 self.paint_style(i) + self.effect_style())
        if self.rng.random() < 0.2:
            style += ['position:relative'] + self.effect_style(positioned=True)
            self.used.add('float+relative')
        self.used.add('float')
        return f'<div style="{";".join(style)}">{self.block_inner(depth)}</div>'

    def positioned(self, depth):
        i = self.new_id()
        style = self.position_style() + self.paint_style(i) + self.effect_style(positioned=True)
        return f'<div style="{";".join(style)}">{self.block_inner(depth)}</div>'

    def block_inner(self, depth):
        if depth <= 0 or self.rng.random() < 0.5:
            return self.inline_content(depth, 3)
        return self.flow_children(depth, 3)

    def table(self, depth):
        rng = self.rng
        i = self.new_id()
        style = self.paint_style(i) + self.effect_style()
        if rng.random() < 0.3:
            style.append('border-collapse:collapse')
            style = [s for s in style if not s.startswith('border')] + ['border-collapse:collapse']
            collapse = True
            self.used.add('collapse')
        else:
            collapse = False
            style.append('border-collapse:separate')      # the property is inherited: say it on every table
            if rng.random() < 0.3:
                style.append(f'empty-cells:{rng.choice(["show", "hide"])}')
        if rng.random() < 0.2:
            style += self.position_style()
        self.used.add('table')
        html = [f'<table style="{";".join(style)}">']
        if rng.random() < 0.3:
            c = self.new_id()
            html.append(f'<caption style="{";".join(self.paint_style(c) + self.effect_style())}">'
                        f'{self.text()}</caption>')
        ncols = rng.randrange(1, 4)
        if rng.random() < 0.35:
            g = self.new_id()
            html.append(f'<colgroup style="background:{hexcode(4 * g)}">')
            for _ in range(ncols):
                c = self.new_id()
                bg = f'background:{hexcode(4 * c)}' if rng.random() < 0.6 else ''
                html.append(f'<col style="{bg}">')
            html.append('</colgroup>')
        for _ in range(rng.randrange(1, 3)):
            g = self.new_id()
            tag = rng.choice(['tbody', 'tbody', 'thead', 'tfoot'])
            gstyle = self.paint_style(g, inline=True)
            if rng.random() < self.features.get('table_part_context', 0.0):
                gstyle += self.effect_style(allow_overflow=False)
            html.append(f'<{tag} style="{";".join(gstyle)}">')
            for _ in range(rng.randrange(1, 3)):
                r = self.new_id()
                rstyle = self.paint_style(r, inline=True)
                if rng.random() < self.features.get('table_part_context', 0.0):
                    rstyle += rng.choice([['position:relative'], ['opacity:0.5'], self.effect_style()])
                html.append(f'<tr style="{";".join(rstyle)}">')
                for _ in range(ncols):
                    c = self.new_id()
                    cstyle = self.paint_style(c, inline=collapse) + self.effect_style()
                    if rng.random() < 0.15:
                        cstyle += ['position:relative'] + self.effect_style(positioned=True)
                    if rng.random() < 0.2:
                        cstyle.append(f'empty-cells:{rng.choice(["show", "hide"])}')
                    roll = rng.random()
                    if roll < 0.2:
                        inner = ''
                    elif roll < 0.8 or depth <= 0:
                        inner = self.inline_content(depth - 1, 2)
                    else:
                        inner = self.flow_children(depth - 1, 2)
                    html.append(f'<td style="{";".join(cstyle)}">{inner}</td>')
                html.append('</tr>')
            html.append(f'</{tag}>')
        html.append('</table>')
        return ''.join(html)

    def flex_or_grid(self, depth):
        rng = self.rng
        i = self.new_id()
        display = rng.choice(['flex', 'flex', 'grid'])
        style = [f'display:{display}'] + self.paint_style(i)
        if display == 'flex' or rng.random() < self.features.get('grid_context', 0.0):
            style += self.effect_style()
            if rng.random() < 0.2:
                style += self.position_style()
        self.used.add(display)
        items = []
        for _ in range(rng.randrange(1, 4)):
            k = self.new_id()
            kstyle = self.paint_style(k)
            if rng.random() < 0.4:
                kstyle.append(f'z-index:{rng.choice(Z_VALUES)}')
                self.used.add('item-z')
            kstyle += self.effect_style()
            items.append(f'<div style="{";".join(kstyle)}">{self.block_inner(depth - 1)}</div>')
        return f'<div style="{";".join(style)}">{"".join(items)}</div>'

    def flow_children(self, depth, budget=4):
        rng = self.rng
        out = []
        for _ in range(rng.randrange(1, budget + 1)):
            roll = rng.random()
            if depth <= 0 or roll < 0.25:
                i = self.new_id()
                style = self.paint_style(i) + self.effect_style()
                out.append(f'<p style="{";".join(style)}">{self.inline_content(depth - 1, 4)}</p>')
            elif roll < 0.50:
                i = self.new_id()
                style = self.paint_style(i) + self.effect_style()
                out.append(f'<div style="{";".join(style)}">{self.block_inner(depth - 1)}</div>')
            elif roll < 0.62:
                out.append(self.floating(depth - 1))
            elif roll < 0.77:
                out.append(self.positioned(depth - 1))
            elif roll < 0.89:
                out.append(self.table(depth - 1))
            else:
                out.append(self.flex_or_grid(depth - 1))
        return ''.join(out)

    def document(self):
        rng = self.rng
        page = ['size:700px 4000px', 'margin:30px']
        if rng.random() < 0.2:
            page.append(f'background:{hexcode(0xf00000 + rng.randrange(1, 255))}')
        if rng.random() < 0.15:
            page.append(f'border:2px solid {hexcode(0xe00000 + rng.randrange(1, 255))}')
        margin = ''
        if rng.random() < 0.25:
            m = self.new_id()
            margin = (f'@top-left{{content:"m";{";".join(self.paint_style(m))}}}'
                      f'@bottom-center{{content:"n";color:{hexcode(4 * m + 3)}}}')
            self.used.add('margin-box')
        html_style, body_style = [], ['margin:0', 'font-size:10px', 'line-height:12px']
        if rng.random() < 0.4:
            html_style.append(f'background:{hexcode(0xd00000 + rng.randrange(1, 255))}')
        if rng.random() < 0.3:
            body_style.append(f'background:{hexcode(0xc00000 + rng.randrange(1, 255))}')
        if rng.random() < 0.15:
            html_style.append(f'overflow:{rng.choice(["hidden", "auto"])}')
            self.used.add('viewport-overflow')
        if rng.random() < 0.08:
            html_style.append(rng.choice(['opacity:0.5', 'position:relative;z-index:1', 'float:left',
                                          'transform:translate(1000px,0)', 'position:absolute']))
        if rng.random() < 0.08:
            body_style.append(rng.choice(['opacity:0.5', 'position:relative;z-index:-1', 'overflow:hidden',
                                          'display:flex', 'position:relative']))
        content = self.flow_children(self.max_depth, 4)
        return (f'<style>@page{{{";".join(page)};{margin}}}html{{{";".join(html_style)}}}'
                f'body{{{";".join(body_style)}}}</style>{content}')


def render(html):
    docs.quiet()
    return docs.render(html)
