"""C17 helpers: scene generator, export of a laid-out page to the abstract tree of Model/Stacking.lean,
canonical form of a real StackingContext, display list of a real content stream.

Colour coding: element number i (>= 1) gets background 4i, text colour 4i+1, border 4i+2, outline 4i+3
(as 24-bit sRGB), so every fill / text-show of the content stream names the element and the role it
paints.  Transforms are `translate(Xpx, 0)` with a distinct integer X (the transform's code), opacities
are dyadic.
"""
from fractions import Fraction

from harness import docs

SLOTS = ('id kind positioned absPos z gridItem opacity styleTransform overflowVisible floated visible matrix '
         'clipProp isRoot bg border borderSides outline color collapse emptyCellsShow cellEmpty colGroups').split()


def hexcode(code):
    return f'#{code:06x}'


def color_code(color):
    r, g, b = (round(max(0.0, min(1.0, c)) * 255) for c in color.to('srgb').coordinates)
    return (r << 16) | (g << 8) | b


# ---------------------------------------------------------------------------------------------------
# export: real laid-out boxes -> abstract attributes (one attribute read of the drawing code each)

def bg_of(box):
    bg = getattr(box, 'background', None)
    if bg is None:
        return 'none'
    return color_code(bg.color) if bg.color.alpha > 0 else 'transparent'


def mat_of(box):
    """`box.transformation_matrix` as draw_stacking_context reads it: none | sing | rounded x translation."""
    matrix = box.transformation_matrix
    if not matrix:
        return 'none'
    if not matrix.determinant:
        return 'sing'
    return round(matrix.values[4])


def style_bg(box):
    """Style-level background (S visibility colour images): what layout_box_backgrounds reads of the style."""
    from weasyprint.draw.color import get_color
    style = box.style
    color = get_color(style, 'background_color')
    images = sum(1 for type_, value in style['background_image'] if type_ != 'none' and value is not None)
    return ['S', style['visibility'], color_code(color) if color.alpha > 0 else 'transparent', images]


def style_matrix(box):
    """Style-level transform (T border-box origin functions): what gather_anchors reads of style and geometry."""
    fns = box.style['transform']
    if not fns:
        return ['T', [0, 0, 0, 0], [0, False, 0, False], []]
    wire = []
    for name, args in fns:
        if name == 'translate':
            (x, y) = args
            wire.append(['translate', Fraction(x.value), x.unit == '%', Fraction(y.value), y.unit == '%'])
        elif name in ('scale', 'matrix'):
            wire.append([name] + [Fraction(v) for v in args])
        else:
            raise ValueError(f'transform function {name} is outside the exported subset')
    ox, oy = box.style['transform_origin']
    rect = [Fraction(box.border_box_x()), Fraction(box.border_box_y()), Fraction(box.border_width()),
            Fraction(box.border_height())]
    return ['T', rect, [Fraction(ox.value), ox.unit == '%', Fraction(oy.value), oy.unit == '%'], wire]


def attrs_of(box, vid, style_level=False):
    from weasyprint.draw.color import get_color
    from weasyprint.formatting_structure import boxes
    style = box.style
    mat = style_matrix(box) if style_level else mat_of(box)
    own_bg = style_bg if style_level else bg_of
    widths = [getattr(box, f'border_{side}_width', 0) for side in ('top', 'right', 'bottom', 'left')]
    sides = ('top', 'right', 'bottom', 'left')
    painted = [side for side, width in zip(sides, widths) if width]
    border = color_code(get_color(style, f'border_{painted[0]}_color')) if painted else 'none'
    outline_color = get_color(style, 'outline_color')
    outline = color_code(outline_color) if style['outline_width'] and outline_color.alpha else 'none'
    groups = []
    if isinstance(box, boxes.TableBox):
        for group in box.column_groups:
            group._vid = vid()
            cols = []
            for col in group.children:
                col._vid = vid()
                cols.append([col._vid, own_bg(col)])
            groups.append([group._vid, own_bg(group), cols])
    return [
        box._vid, type(box).__name__, style['position'] != 'static', bool(box.is_absolutely_positioned()),
        style['z_index'], bool(box.is_grid_item), Fraction(style['opacity']), bool(style['transform']),
        style['overflow'] == 'visible', bool(box.is_floated()), style['visibility'] == 'visible', mat,
        bool(style['clip']), bool(box.is_for_root_element), own_bg(box), border, sum(1 for w in widths if w), outline,
        color_code(style['color']), style['border_collapse'] == 'collapse', style['empty_cells'] == 'show',
        bool(getattr(box, 'empty', False)), groups]


# A laid-out page can hold the same box object below two parents (a `position: fixed` box cut by the page bottom:
# its continuation and its repeated copy share their out-of-flow children — C11 finding
# fixed-box-fragmented-on-own-page).  Boxes are identified by object (`_vid`), so export_box de-aliases the tree
# first: the second occurrence is replaced by a shallow copy (same attributes, painted the same way).  SHARED
# lists what was copied by the last export_page.
SHARED = []
EXPORT_PASS = [0]


def dealias_children(box):
    import copy

    from weasyprint.layout.absolute import AbsolutePlaceholder
    children, changed, here = [], False, set()
    for child in box.children:
        placeholder = isinstance(child, AbsolutePlaceholder)
        inner = child._box if placeholder else child
        if getattr(inner, '_export_pass', None) == EXPORT_PASS[0] or id(inner) in here:
            SHARED.append(f'{type(inner).__name__} <{inner.element_tag}>')
            inner = copy.copy(inner)
            inner._export_pass = None
            child = AbsolutePlaceholder(inner) if placeholder else inner
            changed = True
        here.add(id(inner))
        children.append(child)
    if changed:
        box.children = type(box.children)(children) if isinstance(box.children, (list, tuple)) else children


def export_box(box, vid, style_level=False):
    """-> wire form (L attrs) | (N attrs (kids)) | (P box); tags every real box with `_vid`."""
    from weasyprint.formatting_structure import boxes
    from weasyprint.layout.absolute import AbsolutePlaceholder
    if isinstance(box, AbsolutePlaceholder):
        return ['P', export_box(box._box, vid, style_level)]
    box._export_pass = EXPORT_PASS[0]
    box._vid = vid()
    attrs = attrs_of(box, vid, style_level)
    if isinstance(box, boxes.ParentBox):
        dealias_children(box)
        return ['N', attrs, [export_box(child, vid, style_level) for child in box.children]]
    return ['L', attrs]


def export_page(page_box, style_level=False):
    """`style_level=False`: `bg` / `matrix` are what layout left on the boxes (`box.background`,
    `box.transformation_matrix`: the attributes the drawing code reads); `style_level=True`: they are the
    style-level forms (S …) / (T …) from which Model/LaidOut.lean computes those attributes itself."""
    counter = iter(range(1, 10 ** 9))
    vid = lambda: next(counter)  # noqa: E731
    page_box._vid = 0
    EXPORT_PASS[0] += 1
    del SHARED[:]
    attrs = attrs_of(page_box, vid, style_level)
    dealias_children(page_box)
    kids = [export_box(child, vid, style_level) for child in page_box.children]
    return attrs, kids, bg_of_canvas(page_box)


def doc_info(page_box):
    """(rootHtml (isBody …)): the two element_tag tests of layout_backgrounds."""
    if not page_box.children:
        return [False, []]
    root = page_box.children[0]
    return [(root.element_tag or '').lower() == 'html',
            [(child.element_tag or '').lower() == 'body' for child in getattr(root, 'children', ())]]


def laid_out(page_box):
    """What layout left on the real boxes, in the format of the `laidout` command: canvas, then (id bg matrix)
    for every box (and column group / column) in export order."""
    from weasyprint.formatting_structure import boxes
    out = [str(bg_of_canvas(page_box))]

    def visit(box):
        box = getattr(box, '_box', box)
        out.append(f'({box._vid} {bg_of(box)} {mat_of(box)})')
        if isinstance(box, boxes.TableBox):
            for group in box.column_groups:
                out.append(f'({group._vid} {bg_of(group)} none)')
                for col in group.children:
                    out.append(f'({col._vid} {bg_of(col)} none)')
        if isinstance(box, boxes.ParentBox):
            for child in box.children:
                visit(child)

    for child in page_box.children:
        visit(child)
    return ' '.join(out)


def bg_of_canvas(page_box):
    bg = page_box.canvas_background
    if bg is None:
        return 'none'
    return color_code(bg.color) if bg.color.alpha > 0 else 'transparent'


# ---------------------------------------------------------------------------------------------------
# canonical form of a real StackingContext (same string as Drive/Stacking.lean `showNode`)

def show_node(node):
    from weasyprint.formatting_structure import boxes
    from weasyprint.layout.absolute import AbsolutePlaceholder
    from weasyprint.stacking import StackingContext
    if isinstance(node, StackingContext):
        return ['ctx', node.z_index, show_node(node.box),
                [show_node(c) for c in node.negative_z_contexts],
                [show_node(c) for c in node.zero_z_contexts],
                [show_node(c) for c in node.positive_z_contexts],
                [show_node(b) for b in node.block_level_boxes],
                [show_node(c) for c in node.float_contexts],
                [show_node(b) for b in node.blocks_and_cells]]
    if isinstance(node, AbsolutePlaceholder):
        return ['ph']
    if isinstance(node, boxes.ParentBox):
        return [node._vid] + [show_node(child) for child in node.children]
    return [node._vid]


# ---------------------------------------------------------------------------------------------------
# display list of a real content stream

def new_stream(document, rectangle=(0, 0, 1000, 1000)):
    import pydyf
    from weasyprint.pdf.stream import Stream
    resources = pydyf.Dictionary({
        'ExtGState': pydyf.Dictionary(), 'XObject': pydyf.Dictionary(), 'Pattern': pydyf.Dictionary(),
        'Shading': pydyf.Dictionary(), 'ColorSpace': pydyf.Dictionary(), 'Font': pydyf.Dictionary()})
    return Stream(document.fonts, rectangle, resources, {}, False, compress=False), resources


def display_list(stream, state=None):
    """Interpret the operators of a content stream: every fill / text show with the fill colour, the
    number of clip paths, the enclosing opacity groups and the applied translations.
    -> list of strings in the format of Drive/Stacking.lean `showItem`."""
    out = []
    if state is None:
        state = {'color': None, 'clips': 0, 'alpha': Fraction(1), 'alphas': (), 'transforms': ()}
    stack = []
    for op in stream.stream:
        tokens = op.split()
        if not tokens:
            continue
        name = tokens[-1]
        if name == b'q':
            stack.append(dict(state))
        elif name == b'Q':
            state = stack.pop()
        elif name == b'rg':
            r, g, b = (round(float(x) * 255) for x in tokens[:3])
            state['color'] = (r << 16) | (g << 8) | b
        elif name in (b'W', b'W*'):
            state['clips'] += 1
        elif name == b'gs':
            key = tokens[0][1:].decode()
            if key == 'a1' and not state.get('suppress'):
                # `stream.set_alpha(1)` of draw_replacedbox (an int: every other alpha is a float): what the
                # replacement draws until the matching Q is one opaque item
                alphas = ','.join(
                    str(x.numerator) if x.denominator == 1 else f'{x.numerator}/{x.denominator}'
                    for x in state['alphas'])
                transforms = ','.join(str(t) for t in state['transforms'])
                out.append(f'r:0:{state["clips"]}:{alphas}:{transforms}')
                state['suppress'] = True
            elif key.startswith('a'):
                state['alpha'] = Fraction(float(key[1:]))
        elif state.get('suppress'):
            pass
        elif name == b'cm':
            a, b, c, d, e, f = (float(x) for x in tokens[:6])
            if (a, b, c, d) == (1, 0, 0, 1):
                if (e, f) != (0, 0):
                    state['transforms'] = state['transforms'] + (round(e),)
            else:
                state['transforms'] = state['transforms'] + (f'matrix({a},{b},{c},{d},{e},{f})',)
        elif name in (b'f', b'f*', b'TJ', b'Tj'):
            kind = 'f' if name in (b'f', b'f*') else 't'
            alphas = ','.join(
                str(x.numerator) if x.denominator == 1 else f'{x.numerator}/{x.denominator}'
                for x in state['alphas'])
            transforms = ','.join(str(t) for t in state['transforms'])
            out.append(f'{kind}:{state["color"]}:{state["clips"]}:{alphas}:{transforms}')
        elif name in (b'S', b's', b'B', b'B*', b'b', b'b*'):
            out.append(f'stroke:{state["color"]}')
        elif name == b'Do':
            key = tokens[0][1:].decode()
            inner = dict(state)
            inner['color'] = None
            inner['alphas'] = state['alphas'] + (state['alpha'],)
            inner['alpha'] = Fraction(1)
            out.extend(display_list(stream._resources['XObject'][key], inner))
    return out


def paint_page(document, page):
    stream, resources = new_stream(document)
    page.paint(stream, 1)
    return ' '.join(display_list(stream))


# ---------------------------------------------------------------------------------------------------
# scene generator

EMPTY_SVG = "data:image/svg+xml,%3Csvg xmlns='http://www.w3.org/2000/svg' width='10' height='8'%3E%3C/svg%3E"
Z_VALUES = ['auto', 'auto', '0', '-1', '-2', '1', '2', '1', '-1', '5']
WORDS = ['ab', 'cd ef', 'g', 'hi jk lm', 'nop']


class Scene:
    """A generated document: nested element specs -> HTML.  Everything random comes from `rng`."""

    def __init__(self, rng, max_depth=4, features=None):
        self.rng = rng
        self.count = 0
        self.transforms = 0
        self.max_depth = max_depth
        self.features = features or {}
        self.used = set()
        self.geo = bool(self.features.get('geo'))   # geometry mode: only decorations whose paths are modelled
        self.hidden = 0      # > 0 while generating the content of a `visibility: hidden` element

    # -- style pieces
    def new_id(self):
        self.count += 1
        return self.count

    def paint_style(self, i, inline=False, bg=0.85, border=0.25, outline=0.12):
        """`inline=True`: no border at all (table rows / groups, cells of collapsed tables)."""
        rng = self.rng
        parts = [f'color:{hexcode(4 * i + 1)}']
        if rng.random() < bg:
            parts.append(f'background:{hexcode(4 * i)}')
        if self.geo:
            return parts + self.geo_style(i, inline or border == 0.2)
        if not inline and rng.random() < border:
            sides = rng.choice(['border', 'border', 'border', 'border-left', 'border-top', 'border-bottom'])
            parts.append(f'{sides}:{rng.choice([1, 2, 4])}px solid {hexcode(4 * i + 2)}')
            if sides != 'border':
                self.used.add('partial-border')
        if rng.random() < outline:
            parts.append(f'outline:{rng.choice([1, 2])}px solid {hexcode(4 * i + 3)}')
        return parts

    def geo_style(self, i, no_border):
        """Geometry mode: four solid sides of independent widths, paddings, (elliptical) radii in px or %,
        background-clip; everything whose path the model predicts."""
        rng = self.rng
        parts = []
        if not no_border and rng.random() < 0.55:
            widths = [rng.choice([1, 2, 3, 5, 8, 13]) for _ in range(4)]
            if rng.random() < 0.3:
                widths = [widths[0]] * 4
            parts.append(f'border-style:solid;border-color:{hexcode(4 * i + 2)};'
                         f'border-width:{" ".join(f"{w}px" for w in widths)}')
            self.used.add('border-asym' if len(set(widths)) > 1 else 'border-sym')
        if not no_border and rng.random() < 0.5:
            parts.append('padding:' + ' '.join(f'{rng.choice([0, 1, 2, 4, 7])}px' for _ in range(4)))
        if rng.random() < 0.45:
            def radius():
                return rng.choice(['0', '2px', '4px', '6px', '10px', '16px', '30px', '50%', '25%'])
            if rng.random() < 0.4:
                parts.append(f'border-radius:{radius()}')
            else:
                parts.append('border-radius:' + ' '.join(radius() for _ in range(4)) + ' / ' +
                             ' '.join(radius() for _ in range(4)))
            self.used.add('radius')
        if rng.random() < 0.2:
            parts.append(f'font-size:{rng.choice(["9.5px", "12.25px", "10.75px", "7.5px"])}')
            self.used.add('fractional-font-size')
        if rng.random() < 0.4:
            clip = rng.choice(['padding-box', 'content-box', 'border-box'])
            parts.append(f'background-clip:{clip}')
            self.used.add(clip)
        return parts

    def effect_style(self, positioned=False, allow_overflow=True):
        """opacity / transform / overflow / visibility / z-index, each with a small probability."""
        rng = self.rng
        parts = []
        if rng.random() < 0.12:
            parts.append(f'opacity:{rng.choice(["0.5", "0.25", "0.75", "0.125", "1", "0"])}')
            self.used.add('opacity')
        if rng.random() < 0.10:
            if rng.random() < 0.15:
                parts.append('transform:scale(0)')
                self.used.add('singular')
            else:
                self.transforms += 1
                parts.append(f'transform:translate({1000 + self.transforms}px,0)')
                self.used.add('transform')
        if allow_overflow and rng.random() < 0.10:
            parts.append(f'overflow:{rng.choice(["hidden", "hidden", "auto", "scroll"])}')
            self.used.add('overflow')
        if self.hidden and rng.random() < 0.5:
            # `visibility` is inherited and can be reset: visible content inside a hidden element
            parts.append('visibility:visible')
            self.used.add('visibility-reset')
        elif rng.random() < 0.06:
            parts.append(f'visibility:{rng.choice(["hidden", "hidden", "visible", "collapse"])}')
            self.used.add('visibility')
        if positioned or rng.random() < 0.08:
            z = rng.choice(Z_VALUES)
            if z != 'auto' or rng.random() < 0.3:
                parts.append(f'z-index:{z}')
            if z != 'auto':
                self.used.add('z')
        return parts

    def position_style(self):
        rng = self.rng
        kind = rng.choice(['relative', 'relative', 'absolute', 'absolute', 'fixed'])
        parts = [f'position:{kind}']
        if kind == 'relative':
            parts.append(f'top:{rng.choice([0, 2, -3])}px;left:{rng.choice([0, 4, -2])}px')
        else:
            parts.append(f'top:{rng.randrange(0, 200)}px;left:{rng.randrange(0, 300)}px')
            roll = rng.random()
            if roll < 0.15 and not self.geo:
                parts.append('clip:rect(0px,30px,30px,0px)')
                self.used.add('clip')
            elif roll < 0.3 and self.geo:
                # geometry mode: the rectangle itself is compared; every side a length or `auto`
                sides = [rng.choice(['0px', '2px', '5px', 'auto']), rng.choice(['20px', '30px', '45px', 'auto', 'auto']),
                         rng.choice(['15px', '30px', 'auto']), rng.choice(['0px', '3px', '10px', 'auto', 'auto'])]
                parts.append(f'clip:rect({",".join(sides)})')
                self.used.add('clip-auto' if 'auto' in sides else 'clip')
        self.used.add('positioned')
        return parts

    def inside(self, style, make):
        """Generate the content of an element with this style, remembering whether it is hidden."""
        hidden = any(part.startswith('visibility:') and part != 'visibility:visible' for part in style)
        shown = any(part == 'visibility:visible' for part in style)
        saved = self.hidden
        self.hidden = (saved + 1) if hidden and not shown else (0 if shown else saved)
        try:
            return make()
        finally:
            self.hidden = saved

    # -- content
    def text(self):
        return self.rng.choice(WORDS)

    def image(self, block):
        """A replaced box (empty SVG): what it draws is one opaque `r` item of the display list."""
        i = self.new_id()
        style = self.paint_style(i) + self.effect_style(allow_overflow=False) + ['width:10px', 'height:8px']
        if block:
            style.append('display:block')
        if self.rng.random() < 0.15:
            style += self.position_style()
        self.used.add('block-replaced' if block else 'inline-replaced')
        return f'<img src="{EMPTY_SVG}" style="{";".join(style)}">'

    def inline_content(self, depth, budget=4):
        rng = self.rng
        out = []
        for _ in range(rng.randrange(1, budget + 1)):
            roll = rng.random()
            if roll < 0.05 and not self.geo:
                out.append(self.image(False))
            elif roll < 0.4 or depth <= 0:
                out.append(self.text() + ' ')
            elif roll < 0.62:
                i = self.new_id()
                style = self.paint_style(i, border=0.2)
                if rng.random() < 0.25:
                    style += ['position:relative'] + self.effect_style(positioned=True, allow_overflow=False)
                    self.used.add('positioned-inline')
                else:
                    style += self.effect_style(allow_overflow=False)
                inner = self.inside(style, lambda: self.inline_content(depth - 1, 3))
                out.append(f'<span style="{";".join(style)}">{inner}</span>')
            elif roll < 0.76:
                i = self.new_id()
                display = rng.choice(['inline-block', 'inline-block', 'inline-block', 'inline-flex',
                                      'inline-grid' if self.geo else 'inline-table', 'inline-grid'])
                style = [f'display:{display}'] + self.paint_style(i) + self.effect_style()
                if display == 'inline-table':
                    style.append('border-collapse:separate')
                if rng.random() < 0.15:
                    style += self.position_style()
                self.used.add(display)
                inner = self.inside(style, lambda: (
                    self.flow_children(depth - 1, 2) if rng.random() < 0.4 else self.inline_content(depth - 1, 2)))
                out.append(f'<div style="{";".join(style)}">{inner}</div>')
            elif roll < 0.88:
                out.append(self.floating(depth - 1))
            else:
                out.append(self.positioned(depth - 1))
        return ''.join(out)

    def floating(self, depth):
        i = self.new_id()
        style = ([f'float:{self.rng.choice(["left", "right"])}', f'width:{self.rng.choice([30, 50, 80])}px'] +
                 self.paint_style(i) + self.effect_style())
        if self.rng.random() < 0.2:
            style += ['position:relative'] + self.effect_style(positioned=True)
            self.used.add('float+relative')
        self.used.add('float')
        return f'<div style="{";".join(style)}">{self.inside(style, lambda: self.block_inner(depth))}</div>'

    def positioned(self, depth):
        i = self.new_id()
        style = self.position_style() + self.paint_style(i) + self.effect_style(positioned=True)
        return f'<div style="{";".join(style)}">{self.inside(style, lambda: self.block_inner(depth))}</div>'

    def block_inner(self, depth):
        if depth <= 0 or self.rng.random() < 0.5:
            return self.inline_content(depth, 3)
        return self.flow_children(depth, 3)

    def table(self, depth):
        rng = self.rng
        i = self.new_id()
        style = self.paint_style(i) + self.effect_style()
        if rng.random() < 0.3 and not self.geo:
            style.append('border-collapse:collapse')
            style = [s for s in style if not s.startswith('border')] + ['border-collapse:collapse']
            collapse = True
            self.used.add('collapse')
        else:
            collapse = False
            style.append('border-collapse:separate')      # the property is inherited: say it on every table
            if rng.random() < 0.3:
                style.append(f'empty-cells:{rng.choice(["show", "hide"])}')
        if rng.random() < 0.2:
            style += self.position_style()
        self.used.add('table')
        html = [f'<table style="{";".join(style)}">']
        if rng.random() < 0.3:
            c = self.new_id()
            html.append(f'<caption style="{";".join(self.paint_style(c) + self.effect_style())}">'
                        f'{self.text()}</caption>')
        ncols = rng.randrange(1, 4)
        if rng.random() < 0.35:
            g = self.new_id()
            html.append(f'<colgroup style="background:{hexcode(4 * g)}">')
            for _ in range(ncols):
                c = self.new_id()
                bg = f'background:{hexcode(4 * c)}' if rng.random() < 0.6 else ''
                html.append(f'<col style="{bg}">')
            html.append('</colgroup>')
        for _ in range(rng.randrange(1, 3)):
            g = self.new_id()
            tag = rng.choice(['tbody', 'tbody', 'thead', 'tfoot'])
            gstyle = self.paint_style(g, inline=True)
            if rng.random() < self.features.get('table_part_context', 0.0):
                gstyle += self.effect_style(allow_overflow=False)
            html.append(f'<{tag} style="{";".join(gstyle)}">')
            for _ in range(rng.randrange(1, 3)):
                r = self.new_id()
                rstyle = self.paint_style(r, inline=True)
                if rng.random() < self.features.get('table_part_context', 0.0):
                    rstyle += rng.choice([['position:relative'], ['opacity:0.5'], self.effect_style()])
                html.append(f'<tr style="{";".join(rstyle)}">')
                for _ in range(ncols):
                    c = self.new_id()
                    cstyle = self.paint_style(c, inline=collapse) + self.effect_style()
                    if rng.random() < 0.15:
                        cstyle += ['position:relative'] + self.effect_style(positioned=True)
                    if rng.random() < 0.2:
                        cstyle.append(f'empty-cells:{rng.choice(["show", "hide"])}')
                    roll = rng.random()
                    if roll < 0.2:
                        inner = ''
                    elif roll < 0.8 or depth <= 0:
                        inner = self.inline_content(depth - 1, 2)
                    else:
                        inner = self.flow_children(depth - 1, 2)
                    html.append(f'<td style="{";".join(cstyle)}">{inner}</td>')
                html.append('</tr>')
            html.append(f'</{tag}>')
        html.append('</table>')
        return ''.join(html)

    def flex_or_grid(self, depth):
        rng = self.rng
        i = self.new_id()
        display = rng.choice(['flex', 'flex', 'grid'])
        style = [f'display:{display}'] + self.paint_style(i)
        if display == 'flex' or rng.random() < self.features.get('grid_context', 0.0):
            style += self.effect_style()
            if rng.random() < 0.2:
                style += self.position_style()
        self.used.add(display)
        items = []
        for _ in range(rng.randrange(1, 4)):
            k = self.new_id()
            kstyle = self.paint_style(k)
            if rng.random() < 0.4:
                kstyle.append(f'z-index:{rng.choice(Z_VALUES)}')
                self.used.add('item-z')
            kstyle += self.effect_style()
            items.append(f'<div style="{";".join(kstyle)}">{self.block_inner(depth - 1)}</div>')
        return f'<div style="{";".join(style)}">{"".join(items)}</div>'

    def flow_children(self, depth, budget=4):
        rng = self.rng
        out = []
        for _ in range(rng.randrange(1, budget + 1)):
            roll = rng.random()
            if roll < 0.04 and not self.geo:
                out.append(self.image(True))
            elif depth <= 0 or roll < 0.25:
                i = self.new_id()
                style = self.paint_style(i) + self.effect_style()
                inner = self.inside(style, lambda: self.inline_content(depth - 1, 4))
                out.append(f'<p style="{";".join(style)}">{inner}</p>')
            elif roll < 0.50:
                i = self.new_id()
                style = self.paint_style(i) + self.effect_style()
                inner = self.inside(style, lambda: self.block_inner(depth - 1))
                out.append(f'<div style="{";".join(style)}">{inner}</div>')
            elif roll < 0.62:
                out.append(self.floating(depth - 1))
            elif roll < 0.77:
                out.append(self.positioned(depth - 1))
            elif roll < 0.89 and (not self.geo or self.features.get('geo_tables')):
                out.append(self.table(depth - 1))
            else:
                out.append(self.flex_or_grid(depth - 1))
        return ''.join(out)

    def document(self):
        rng = self.rng
        page = ['size:700px 4000px', 'margin:30px']
        if rng.random() < 0.2:
            page.append(f'background:{hexcode(0xf00000 + rng.randrange(1, 255))}')
        if rng.random() < 0.15:
            page.append(f'border:2px solid {hexcode(0xe00000 + rng.randrange(1, 255))}')
        margin = ''
        if rng.random() < 0.25 and not self.geo:
            m = self.new_id()
            margin = (f'@top-left{{content:"m";{";".join(self.paint_style(m))}}}'
                      f'@bottom-center{{content:"n";color:{hexcode(4 * m + 3)}}}')
            self.used.add('margin-box')
        html_style, body_style = [], ['margin:0', 'font-size:10px', 'line-height:12px']
        if self.geo:
            body_style.append('font-family:weasyprint')
            if rng.random() < 0.3:
                page.append(f'padding:{rng.choice([0, 5, 10])}px')
        if rng.random() < 0.4:
            html_style.append(f'background:{hexcode(0xd00000 + rng.randrange(1, 255))}')
        if rng.random() < 0.3:
            body_style.append(f'background:{hexcode(0xc00000 + rng.randrange(1, 255))}')
        if rng.random() < 0.15:
            html_style.append(f'overflow:{rng.choice(["hidden", "auto"])}')
            self.used.add('viewport-overflow')
        if rng.random() < 0.08:
            html_style.append(rng.choice(['opacity:0.5', 'position:relative;z-index:1', 'float:left',
                                          'transform:translate(1000px,0)', 'position:absolute']))
        if rng.random() < 0.08:
            body_style.append(rng.choice(['opacity:0.5', 'position:relative;z-index:-1', 'overflow:hidden',
                                          'display:flex', 'position:relative']))
        content = self.flow_children(self.max_depth, 4)
        return (f'<style>@page{{{";".join(page)};{margin}}}html{{{";".join(html_style)}}}'
                f'body{{{";".join(body_style)}}}</style>{content}')


def render(html):
    docs.quiet()
    return docs.render(html)


# ---------------------------------------------------------------------------------------------------
# geometry: the paths of the content stream vs the rectangles / rounded boxes of the laid-out boxes

GEO_ATTRS = ('position_x position_y margin_left margin_top border_top_width border_right_width '
             'border_bottom_width border_left_width padding_top padding_right padding_bottom padding_left '
             'width height').split()
RADII = ('top_left', 'top_right', 'bottom_right', 'bottom_left')
TABLE_PART_NAMES = {'TableRowGroupBox', 'TableRowBox', 'TableColumnGroupBox', 'TableColumnBox'}


def geo_of(box):
    values = [Fraction(getattr(box, name, 0) or 0) for name in GEO_ATTRS]
    radii = [[Fraction(r) for r in getattr(box, f'border_{corner}_radius', (0, 0))] for corner in RADII]
    return values + radii


def geometry_table(page_box):
    """Entries of the `paintgeo` command for every tagged box of a laid-out page (after export_page)."""
    from weasyprint.formatting_structure import boxes
    entries = []

    def visit(box):
        if type(box).__name__ not in TABLE_PART_NAMES and hasattr(box, 'width'):
            clip = box.style['background_clip'][0]
            entries.append(['B', box._vid, geo_of(box), clip])
        name = type(box).__name__
        if box.is_absolutely_positioned() and box.style['clip']:
            entries.append(['P', box._vid,
                            [Fraction(box.border_box_x()), Fraction(box.border_box_y()), Fraction(box.border_width()),
                             Fraction(box.border_height())],
                            ['auto' if side == 'auto' else Fraction(side) for side in box.style['clip']]])
        if name == 'TableRowBox':
            entries.append(['R', box._vid, geo_of(box), [cell._vid for cell in box.children]])
        elif name == 'TableRowGroupBox':
            entries.append(['G', box._vid, geo_of(box), [[cell._vid for cell in row.children] for row in box.children]])
        if isinstance(box, boxes.TableBox):
            for group in box.column_groups:
                entries.append(['K', group._vid, geo_of(group), [cell._vid for cell in group.get_cells()]])
                for col in group.children:
                    entries.append(['K', col._vid, geo_of(col), [cell._vid for cell in col.get_cells()]])
        if isinstance(box, boxes.TextBox):
            entries.append(['T', box._vid, Fraction(box.position_x), Fraction(box.position_y + box.baseline),
                            Fraction(box.style['font_size'])])
        for child in getattr(box, 'children', ()):
            visit(getattr(child, '_box', child))

    visit(page_box)
    if page_box.background is not None:
        entries.append(['A', 0] + [Fraction(v) for v in page_box.background.layers[-1].painting_area])
    # the canvas painting area is not given: the model takes the page's border box (entry B 0)
    return entries


def show_dec(value):
    """Same as Drive/PaintGeo.lean `showDec`: at most six decimals, half away from zero."""
    value = Fraction(value)
    neg = value < 0
    scaled = int(abs(value) * 1000000 + Fraction(1, 2))
    ip, fp = divmod(scaled, 1000000)
    digits = f'{fp:06d}'.rstrip('0')
    body = f'{ip}.{digits}' if digits else str(ip)
    return '-' + body if neg and scaled else body


def geo_display_list(stream, state=None):
    """Like display_list, with the clip *paths* and the geometry of every painted item."""
    out = []
    if state is None:
        state = {'color': None, 'clips': (), 'alpha': Fraction(1), 'alphas': (), 'transforms': (),
                 'tm': None, 'size': None}
    stack = []
    subpaths = []
    for op in stream.stream:
        tokens = op.split()
        if not tokens:
            continue
        name = tokens[-1]
        nums = tokens[:-1]
        if name == b'q':
            stack.append(dict(state))
        elif name == b'Q':
            state = stack.pop()
        elif name == b'rg':
            r, g, b = (round(float(x) * 255) for x in nums[:3])
            state['color'] = (r << 16) | (g << 8) | b
        elif name == b're':
            subpaths.append('re(' + ','.join(show_dec(x.decode()) for x in nums) + ')')
        elif name == b'm':
            subpaths.append('m(' + ','.join(show_dec(x.decode()) for x in nums) + ')')
        elif name in (b'l', b'c'):
            text = name.decode() + '(' + ','.join(show_dec(x.decode()) for x in nums) + ')'
            if subpaths:
                subpaths[-1] += text
            else:
                subpaths.append(text)
        elif name in (b'W', b'W*'):
            state['clips'] = state['clips'] + ('+'.join(subpaths),)
        elif name == b'n':
            subpaths = []
        elif name == b'gs':
            key = nums[0][1:].decode()
            if key == 'a1' and not state.get('suppress'):
                alphas = ','.join(
                    str(x.numerator) if x.denominator == 1 else f'{x.numerator}/{x.denominator}'
                    for x in state['alphas'])
                transforms = ','.join(str(t) for t in state['transforms'])
                out.append(f'r:0:{alphas}:{transforms}:{"|".join(state["clips"])}:*')
                state['suppress'] = True
            elif key.startswith('a'):
                state['alpha'] = Fraction(float(key[1:]))
        elif state.get('suppress'):
            pass
        elif name == b'cm':
            a, b, c, d, e, f = (float(x) for x in nums[:6])
            if (a, b, c, d) == (1, 0, 0, 1):
                if (e, f) != (0, 0):
                    state['transforms'] = state['transforms'] + (round(e),)
            else:
                state['transforms'] = state['transforms'] + (f'matrix({a},{b},{c},{d},{e},{f})',)
        elif name == b'Tm':
            state['tm'] = (nums[4].decode(), nums[5].decode(), tuple(x.decode() for x in nums[:4]))
        elif name == b'Tf':
            state['size'] = nums[1].decode()
        elif name in (b'f', b'f*', b'TJ', b'Tj'):
            alphas = ','.join(
                str(x.numerator) if x.denominator == 1 else f'{x.numerator}/{x.denominator}'
                for x in state['alphas'])
            transforms = ','.join(str(t) for t in state['transforms'])
            if name in (b'TJ', b'Tj'):
                kind = 't'
                x, y, abcd = state['tm']
                geom = f'tm({show_dec(x)},{show_dec(y)},{show_dec(state["size"])})'
                if abcd != ('1', '0', '0', '-1'):
                    geom += f'!{abcd}'
            else:
                kind = 'f'
                geom = '+'.join(subpaths)
                subpaths = []
            out.append(f'{kind}:{state["color"]}:{alphas}:{transforms}:{"|".join(state["clips"])}:{geom}')
        elif name in (b'S', b's', b'B', b'B*', b'b', b'b*'):
            out.append(f'stroke:{state["color"]}')
            subpaths = []
        elif name == b'Do':
            key = nums[0][1:].decode()
            inner = dict(state)
            inner['color'] = None
            inner['alphas'] = state['alphas'] + (state['alpha'],)
            inner['alpha'] = Fraction(1)
            out.extend(geo_display_list(stream._resources['XObject'][key], inner))
    return out


def paint_page_geo(document, page):
    stream, _ = new_stream(document)
    page.paint(stream, 1)
    return ' '.join(geo_display_list(stream))


NUMBER = None


def snap(impl, model, tolerance=Fraction(1, 10000)):
    """Canonicalise the implementation's geometric display list on the model's numbers: equal skeleton and
    every number within `tolerance` -> the model's string (and how many numbers differed textually);
    otherwise the implementation's string unchanged."""
    import re
    global NUMBER
    if NUMBER is None:
        NUMBER = re.compile(r'(?<![\w/])-?\d+(?:\.\d*)?(?![\w/])')
    if impl == model:
        return impl, 0
    skeleton_i, skeleton_m = NUMBER.sub('#', impl), NUMBER.sub('#', model)
    if skeleton_i != skeleton_m:
        return impl, 0
    ni, nm = NUMBER.findall(impl), NUMBER.findall(model)
    differed = 0
    for a, b in zip(ni, nm):
        if a != b:
            if abs(Fraction(a) - Fraction(b)) > tolerance:
                return impl, 0
            differed += 1
    return model, differed


# ---------------------------------------------------------------------------------------------------
# ToUnicode: glyphs of the text-showing operators mapped back through the written CMap

def paint_all(document):
    """Paint every page (fills `font.cmap` of every font) -> list of streams."""
    streams = []
    for page in document.pages:
        stream, _ = new_stream(document)
        page.paint(stream, 1)
        streams.append(stream)
    return streams


def written_cmaps(document):
    """The ToUnicode streams `build_fonts_dictionary` writes: {font hash: [(glyph, [utf-16 units])]}."""
    import re

    import pydyf
    from weasyprint import DEFAULT_OPTIONS
    from weasyprint.pdf.fonts import build_fonts_dictionary
    pdf = pydyf.PDF()
    references = build_fonts_dictionary(pdf, document.fonts, False, True, dict(DEFAULT_OPTIONS))
    by_number = {obj.number: obj for obj in pdf.objects if hasattr(obj, 'number')}
    out = {}
    for font_hash, reference in references.items():
        font_dict = by_number[int(reference.split()[0])]
        stream = by_number[int(font_dict['ToUnicode'].split()[0])]
        entries, inside = [], False
        for line in stream.stream:
            if line.endswith(b'beginbfchar'):
                inside = True
            elif line == b'endbfchar':
                inside = False
            elif inside:
                m = re.fullmatch(rb'<([0-9a-f]+)> <([0-9a-f]*)>', line)
                units = [int(m.group(2)[i:i + 4], 16) for i in range(0, len(m.group(2)), 4)]
                entries.append((int(m.group(1), 16), units))
        out[font_hash] = entries
    return out


def written_bfchar_lines(document):
    """[(glyph, text of font.cmap, the bfchar line written for it)] over all fonts of a painted document: the
    entries of `font.cmap` in order against the lines between beginbfchar / endbfchar, in order."""
    import pydyf
    from weasyprint import DEFAULT_OPTIONS
    from weasyprint.pdf.fonts import build_fonts_dictionary
    pdf = pydyf.PDF()
    references = build_fonts_dictionary(pdf, document.fonts, False, True, dict(DEFAULT_OPTIONS))
    by_number = {obj.number: obj for obj in pdf.objects if hasattr(obj, 'number')}
    out = []
    by_hash = {font.hash: font for font in document.fonts.values()}    # the last font of a hash is the one kept
    for font_hash, reference in references.items():
        font_dict = by_number[int(reference.split()[0])]
        stream = by_number[int(font_dict['ToUnicode'].split()[0])]
        lines, inside = [], False
        for line in stream.stream:
            if line.endswith(b'beginbfchar'):
                inside = True
            elif line == b'endbfchar':
                inside = False
            elif inside:
                lines.append(line.decode('ascii', 'replace'))
        items = list(by_hash[font_hash].cmap.items())
        if len(items) != len(lines):
            out.append((0, '', f'{len(lines)} bfchar lines for {len(items)} glyphs of the font'))
            continue
        out.extend((glyph, text, line) for (glyph, text), line in zip(items, lines))
    return out


def text_runs(stream, runs=None):
    """[(x, y, [(font, [glyph…])…])] for every text matrix set in the stream (groups included)."""
    import re
    if runs is None:
        runs = []
    font = None
    for op in stream.stream:
        tokens = op.split()
        if not tokens:
            continue
        name = tokens[-1]
        if name == b'Tf':
            font = tokens[0][1:].decode()
        elif name == b'Tm':
            runs.append((tokens[4].decode(), tokens[5].decode(), []))
        elif name in (b'TJ', b'Tj') and runs:
            glyphs = []
            for chunk in re.findall(rb'<([0-9a-f]*)>', op):
                glyphs += [int(chunk[i:i + 4], 16) for i in range(0, len(chunk), 4)]
            runs[-1][2].append((font, glyphs))
        elif name == b'Do':
            text_runs(stream._resources['XObject'][tokens[0][1:].decode()], runs)
    return runs


def utf16_units(text):
    data = text.encode('utf-16-be')
    return [int.from_bytes(data[i:i + 2], 'big') for i in range(0, len(data), 2)]
