"""C15 helpers, TargetCollector half: snapshots of the page-counter state (`target_lookup_items`,
`counter_lookup_items`, `page_maker` remake states), a recorder of every `make_page` call of a render (state
before, what `page.descendants(placeholders=True)` shows to the counter section, state after, `parse_again`
calls) and of the `page_maker` entry `remake_page` writes; direct calls of the real
`TargetCollector.cache_target_page_counters` on generated states."""
import contextlib

from harness import c15_styles as S
from harness import docs
from vlib import sx


def w_vals(values):
    return [[S.enc(k), [int(v) for v in values[k]]] for k in sorted(values)]


def w_opt(value):
    return 'none' if value is None else int(value)


def lookup_list(collector):
    return list(collector.counter_lookup_items.items())


def w_state(collector, page_maker):
    lookups = lookup_list(collector)
    ordinal = {id(item): k for k, (_, item) in enumerate(lookups)}
    targets = [[S.enc(name), item.state == 'up-to-date', w_opt(item.page_maker_index),
                w_vals(item.cached_page_counter_values)]
               for name, item in collector.target_lookup_items.items()]
    items = [[token == 'content', [S.enc(n) for n in item.missing_counters],
              [[S.enc(a), [S.enc(n) for n in names]] for a, names in item.missing_target_counters.items()],
              w_opt(item.page_maker_index), bool(item.pending), w_vals(item.cached_page_counter_values)]
             for (_, token), item in lookups]
    maker = [[bool(entry[-1]['content_changed']), bool(entry[-1]['pages_wanted']),
              [S.enc(a) for a in entry[-1].get('anchors', [])],
              [ordinal.get(i, 9999) for i in entry[-1].get('content_lookups', [])]]
             for entry in page_maker]
    return targets, items, maker


def show_state(collector, page_maker, calls):
    targets, items, maker = w_state(collector, page_maker)
    return ' '.join(sx.dumps(x) for x in (targets, items, maker, [[k, w_vals(v)] for k, v in calls]))


def page_events(collector, page):
    lookups = lookup_list(collector)
    ordinal = {id(item): k for k, (_, item) in enumerate(lookups)}
    events = []
    for child in page.descendants(placeholders=True):
        anchor = child.style['anchor']
        key = None
        if child.missing_link:
            item = collector.counter_lookup_items.get((child.missing_link, 'content'))
            if item is not None:
                key = ordinal[id(item)]
        events.append(['none' if not anchor else S.enc(anchor), w_opt(key)])
    return events


class PageRecorder:
    """Every make_page call of a render as one correspondence case; every remake_page as a `nextentry` case."""

    def __init__(self):
        self.cases = []        # (line, impl_out, tags)
        self.entries = []      # (line, impl_out)

    @contextlib.contextmanager
    def installed(self):
        import weasyprint.layout.page as page_mod
        orig_make, orig_remake = page_mod.make_page, page_mod.remake_page
        recorder = self

        def make_page(context, root_box, page_type, resume_at, page_number, page_state):
            collector = context.target_collector
            before = w_state(collector, context.page_maker)
            collecting = bool(collector.collecting)
            calls = []
            lookups = lookup_list(collector)
            originals = []
            for k, (_, item) in enumerate(lookups):
                originals.append(item.parse_again)

                def logged(mixin=None, _orig=item.parse_again, _k=k):
                    calls.append((_k, dict(mixin or {})))
                    return _orig(mixin)
                item.parse_again = logged
            try:
                result = orig_make(context, root_box, page_type, resume_at, page_number, page_state)
            finally:
                for (_, item), orig in zip(lookups, originals):
                    item.parse_again = orig
            page = result[0]
            values = page_state[1]
            events = page_events(collector, page)
            line = sx.line('mp', collecting, before[0], before[1], before[2], page_number, w_vals(values), events)
            out = 'ok ' + show_state(collector, context.page_maker, calls)
            tags = [f'calls{min(len(calls), 3)}']
            if any(e[0] != 'none' for e in events):
                tags.append('anchor')
            if any(e[1] != 'none' for e in events):
                tags.append('lookup')
            recorder.cases.append((line, out, tags))
            return result

        def remake_page(index, page_groups, context, root_box, html):
            maker = context.page_maker
            old = maker[index + 1] if index + 1 < len(maker) else None
            old_tuple = None if old is None else (old[0], old[1], old[2], old[3])
            old_state = None if old is None else old[4]
            result = orig_remake(index, page_groups, context, root_box, html)
            new = context.page_maker[index + 1]
            is_new = old is None
            changed = (not is_new) and new[4] is not old_state
            # `changed` is observed (a fresh remake_state dict was written); the tuple comparison is the model's input
            tuple_changed = (not is_new) and old_tuple != (new[0], new[1], new[2], new[3])
            line = sx.line('nextentry', is_new, tuple_changed, new[0] is None)
            out = ('keep' if not (is_new or changed) else
                   sx.dumps([bool(new[4]['content_changed']), bool(new[4]['pages_wanted'])]))
            recorder.entries.append((line, out))
            return result

        page_mod.make_page, page_mod.remake_page = make_page, remake_page
        try:
            yield self
        finally:
            page_mod.make_page, page_mod.remake_page = orig_make, orig_remake


# ---------------------------------------------------------------- direct calls of cache_target_page_counters

NAMES = ['page', 'pages', 'chapter']
ANCHORS = ['a', 'b', 'c']


def gen_vals(rng):
    out = {}
    for name in NAMES:
        if rng.random() < 0.7:
            out[name] = [rng.choice([0, 1, 2, 3, 7])]
    return out


def gen_collector_case(rng):
    """A real TargetCollector with real lookup items, a page_maker list, and the call arguments."""
    from weasyprint.css.targets import CounterLookupItem, TargetCollector, TargetLookupItem
    collector = TargetCollector()
    collector.collecting = rng.random() < 0.08
    for anchor in rng.sample(ANCHORS, rng.choice([1, 2, 3])):
        item = TargetLookupItem(rng.choice(['up-to-date', 'up-to-date', 'up-to-date', 'pending']))
        item.page_maker_index = rng.choice([None, 0, 1, 2])
        item.cached_page_counter_values = gen_vals(rng) if rng.random() < 0.7 else {}
        collector.target_lookup_items[anchor] = item
    n_pages = rng.choice([1, 2, 3, 4])
    page_maker = [(None, None, None, None, {'content_changed': rng.random() < 0.2, 'pages_wanted': rng.random() < 0.2,
                                            'anchors': [], 'content_lookups': []}) for _ in range(n_pages)]
    for k in range(rng.choice([0, 1, 2, 3, 5])):
        missing_target = {a: rng.sample(NAMES, rng.choice([0, 1, 1, 2, 3])) for a in rng.sample(ANCHORS, rng.choice([0, 1, 2, 3]))}
        item = CounterLookupItem(None, rng.sample(NAMES, rng.choice([0, 1])), missing_target)
        item.page_maker_index = rng.choice([None, 0, 0, 1, 1, 2, 3, 5])
        item.pending = rng.random() < 0.2
        item.cached_page_counter_values = gen_vals(rng) if rng.random() < 0.5 else {}
        collector.counter_lookup_items[(object(), rng.choice(['content', 'content', 'content', 'bookmark-label']))] = item
    anchor = rng.choice(ANCHORS * 3 + ['zz'])
    values = gen_vals(rng)
    if rng.random() < 0.25 and anchor in collector.target_lookup_items:
        values = dict(collector.target_lookup_items[anchor].cached_page_counter_values)
    return collector, page_maker, anchor, values, rng.randrange(n_pages)


def cache_target_case(rng):
    collector, page_maker, anchor, values, index = gen_collector_case(rng)
    before = w_state(collector, page_maker)
    calls = []
    for k, (_, item) in enumerate(lookup_list(collector)):
        item.parse_again = (lambda mixin=None, _k=k: calls.append((_k, dict(mixin or {}))))
    line = sx.line('ct', bool(collector.collecting), before[0], before[1], before[2], S.enc(anchor), w_vals(values), index)
    try:
        collector.cache_target_page_counters(anchor, values, index, page_maker)
        out = 'ok ' + show_state(collector, page_maker, calls)
    except Exception as exc:  # noqa: BLE001
        out = f'err:{type(exc).__name__}'
    tags = [f'calls{min(len(calls), 3)}', 'collecting' if collector.collecting else 'paginating']
    return line, out, tags, bool(calls) or any(i.pending for _, i in lookup_list(collector))


def render_recorded(html_text):
    recorder = PageRecorder()
    with recorder.installed():
        document = docs.render(html_text)
    return document, recorder
