"""C15 helpers, content-function half: `counter()`, `counters()`, `target-counter()`, `target-counters()`,
`target-text()` as CSS text -> real tinycss2 tokens -> the real `get_content_list_token` (css/utils.py), against
`Model/ContentFns.lean` on the abstract argument tokens; and a relational document-level clause for `judge` /
`search`: what `target-counter(#t, N, style)` prints equals what `counter(N, style)` prints at the target."""
import tinycss2

from harness import c15_dom as D
from harness import c15_styles as S
from vlib import sx

BASE = 'http://x.invalid/'
# counter names are <custom-ident>s: case-sensitive, every spelling
NAMES = ['c', 'd', 'list-item', 'page', 'Sec', 'chapterNum', 'SECTION', 'é', 'X1', 'c']
STYLES = ['decimal', 'lower-roman', 'UPPER-ROMAN', 'Lower-Alpha', 'none', 'NONE', 'nosuch', 'disc']
LINKS = ['"#t"', '"#T"', 'url(#t)', 'attr(href)', 'attr(href url)', '"t"', 'url(http://x.invalid/p#q)']
SOUP = ['3', '1.5', 'f(x)', '"s"', 'c', ',', ',', 'before', 'After', 'first-letter', 'content', 'x y']


def gen_function(rng):
    r = rng.random()
    fname = rng.choice(['counter', 'counters', 'target-counter', 'target-counters', 'target-text'])
    if rng.random() < 0.06:
        fname = rng.choice([fname.upper(), fname.capitalize()])
    name = rng.choice(NAMES)
    style = rng.choice(STYLES + ['"*"'])
    sep = rng.choice(['"."', '"-"', '""', '" / "'])
    link = rng.choice(LINKS)
    comma = rng.choice([', ', ', ', ' , ', ' '])          # commas are optional in target-*()
    if r < 0.2:
        args = [rng.choice(SOUP + NAMES + LINKS) for _ in range(rng.choice([0, 1, 2, 3, 4, 5]))]
        return f'{fname}({" ".join(args)})'
    base = fname.lower()
    if base == 'counter':
        parts = [name] + ([style] if rng.random() < 0.6 else [])
    elif base == 'counters':
        parts = [name, sep] + ([style] if rng.random() < 0.6 else [])
    elif base == 'target-counter':
        parts = [link, name] + ([style] if rng.random() < 0.6 else [])
    elif base == 'target-counters':
        parts = [link, name, sep] + ([style] if rng.random() < 0.6 else [])
    else:
        parts = [link] + ([rng.choice(['content', 'before', 'After', 'first-letter', 'marker', '"x"'])]
                          if rng.random() < 0.6 else [])
    if rng.random() < 0.08 and len(parts) > 1:
        del parts[rng.randrange(len(parts))]
    if rng.random() < 0.05:
        parts.append(rng.choice(SOUP))
    joiner = ', ' if base in ('counter', 'counters') else comma
    return f'{fname}({joiner.join(parts)})'


class OutsideModel(Exception):
    pass


def w_atok(token):
    if token.type == 'ident':
        return ['i', S.enc(token.value)]
    if token.type == 'string':
        return ['s', S.enc(token.value)]
    if token.type == 'url':
        return ['u', S.enc(token.value)]
    if token.type == 'literal' and token.value == ',':
        return 'comma'
    if token.type == 'function':
        if token.name == 'attr':
            return 'attr'
        if token.lower_name in ('url', 'counter', 'counters', 'content', 'string', 'symbols', 'attr'):
            raise OutsideModel(token.lower_name)        # functions the parsers look into
        return 'other'
    return 'other'


def w_link(link):
    if link[0] == 'string':
        return ['s', S.enc(link[1])]
    if link[0] == 'url':
        return ['ui', S.enc(link[1][1])] if link[1][0] == 'internal' else 'ue'
    if link[0] == 'attr()':
        return 'attr'
    raise OutsideModel(link[0])


def w_parsed(parsed):
    if parsed is None:
        return 'none'
    type_, value = parsed
    # Python None as a style (what get_target stored before 9677ed2) is an outcome the model never prints
    style = lambda s: 'none' if s is None else S.enc(s)  # noqa: E731
    if type_ == 'counter()':
        return ['c', S.enc(value[0]), S.w_name(value[1])]
    if type_ == 'counters()':
        return ['cs', S.enc(value[0]), S.enc(value[1]), S.w_name(value[2])]
    if type_ == 'target-counter()':
        return ['tc', w_link(value[0]), S.enc(value[1]), style(value[2])]
    if type_ == 'target-counters()':
        if value[2][0] != 'string':
            raise OutsideModel('separator')
        return ['tcs', w_link(value[0]), S.enc(value[1]), S.enc(value[2][1]), style(value[3])]
    if type_ == 'target-text()':
        return ['tt', w_link(value[0]), S.enc(value[1])]
    raise OutsideModel(type_)


def cfn_case(text):
    """-> (line, impl_out) for one function token, or None when outside the model."""
    from weasyprint.css.utils import get_content_list_token
    tokens = [t for t in tinycss2.parse_component_value_list(text) if t.type not in ('whitespace', 'comment')]
    if len(tokens) != 1 or tokens[0].type != 'function':
        return None
    token = tokens[0]
    try:
        args = [w_atok(t) for t in token.arguments if t.type not in ('whitespace', 'comment')]
        line = sx.line('cfn', S.enc(token.name), args)
        try:
            parsed = get_content_list_token(token, BASE)
        except Exception as exc:  # noqa: BLE001
            return line, f'err:{type(exc).__name__}'
        if parsed is not None and parsed[0] not in ('counter()', 'counters()', 'target-counter()',
                                                    'target-counters()', 'target-text()'):
            return None
        return line, sx.dumps(w_parsed(parsed))
    except OutsideModel:
        return None


# ---------------------------------------------------------------- relational clause (judge / search only)

def relation_document(name, style, forward, counters_sep=None):
    """A target that prints `counter(name, style)` itself and a link that prints `target-counter(#t, name, style)`
    (or the `counters()` pair), the link before or after the target."""
    style_arg = f', {style}' if style else ''
    if counters_sep is None:
        own, ref = f'counter({name}{style_arg})', f'target-counter("#t", {name}{style_arg})'
    else:
        own = f'counters({name}, "{counters_sep}"{style_arg})'
        ref = f'target-counters("#t", {name}, "{counters_sep}"{style_arg})'
    css = f'#t::before {{ content: {own} }} a::after {{ content: {ref} }} ::before, ::after {{ white-space: pre }}'
    target = f'<div style="counter-reset: {name} 3"><p style="counter-reset: {name} 6"><span id="t" style="counter-increment: {name}">T</span></p></div>'
    link = '<a>x</a>'
    body = link + target if forward else target + link
    return f'<html><head><style>{css}</style></head><body>{body}</body></html>'


def relation_clause(name, style, forward, counters_sep=None):
    """None when the link prints what the target prints for the same counter (or the document does not build /
    the declaration is dropped on both sides)."""
    html_text = relation_document(name, style, forward, counters_sep)
    html, context, counter_style = D.build(html_text)
    try:
        obs = D.impl_texts(html, context, counter_style)
    except Exception:  # noqa: BLE001 - crashes are other findings' business
        return None
    texts = dict((kind, text) for kind, text in obs)
    if 'before' not in texts or 'after' not in texts:
        return None
    if texts['before'] != texts['after']:
        fn = 'target-counters' if counters_sep is not None else 'target-counter'
        return (f'{fn}("#t", {name}{", " + style if style else ""}) prints {texts["after"]!r}; the target itself '
                f'prints {texts["before"]!r} for the same counter (counter names are case-sensitive custom-idents): '
                f'{html_text}')
    return None


def function_clause(text):
    """Clause on one parsed function: the counter name is the identifier as written."""
    from weasyprint.css.utils import get_content_list_token
    tokens = [t for t in tinycss2.parse_component_value_list(text) if t.type not in ('whitespace', 'comment')]
    if len(tokens) != 1 or tokens[0].type != 'function':
        return None
    token = tokens[0]
    try:
        parsed = get_content_list_token(token, BASE)
    except Exception:  # noqa: BLE001
        return None
    if parsed is None or parsed[0] not in ('counter()', 'counters()', 'target-counter()', 'target-counters()'):
        return None
    args = [t for t in token.arguments if t.type not in ('whitespace', 'comment', 'literal')]
    position = 0 if parsed[0].startswith('counter') else 1
    if len(args) <= position or args[position].type != 'ident':
        return None
    written = args[position].value
    got = parsed[1][position]
    if got != written:
        forward = relation_clause(written, None, True, '.' if 'counters' in parsed[0] else None)
        return (f'{text} is parsed with the counter name {got!r} instead of {written!r}'
                + (f'; document: {forward}' if forward else ''))
    return None
