"""C13: which branch of the Lean model a correspondence case exercises.

`branches(line, out)` derives, from the protocol line alone (the abstract input) and the outcome, the
names of the model branches that fire; `EXPECTED` is the universe of branch names.  The check reports
the histogram and the branches never hit in a run (`coverage.model_branches` of the evidence).
"""
from fractions import Fraction

from harness.c13_oracle import INF, parse

EXPECTED = set()


def _declare(*names):
    EXPECTED.update(names)
    return names


_declare('mmar:ok-ok', 'mmar:max-ok', 'mmar:min-ok', 'mmar:ok-max', 'mmar:ok-min', 'mmar:max-max', 'mmar:min-min',
         'mmar:min-max', 'mmar:max-min', 'mmar:zero-size', 'mmar:type-error')
_declare('rbw:keep', 'rbw:point1', 'rbw:point2a', 'rbw:point2b', 'rbw:point3', 'rbw:point4', 'rbw:point5')
_declare('rbh:keep', 'rbh:both-auto-ih', 'rbh:both-auto-none', 'rbh:ratio', 'rbh:ratio-zero', 'rbh:ih', 'rbh:150')
_declare('minmax:w-over-max', 'minmax:w-under-min', 'minmax:h-over-max', 'minmax:h-under-min')
_declare('blw:width-auto', 'blw:both-margins-auto', 'blw:left-auto', 'blw:right-auto', 'blw:over-constrained',
         'blw:overflow', 'blw:rtl')
_declare('dis:both', 'dis:w-ratio', 'dis:w-ih', 'dis:w-default', 'dis:h-ratio', 'dis:h-iw', 'dis:h-default',
         'dis:intrinsic', 'dis:contain-default', 'dis:zero-division')
_declare('constraint:no-ratio', 'constraint:height-bound', 'constraint:width-bound', 'constraint:zero-division')
_declare('fit:fill', 'fit:contain', 'fit:cover', 'fit:none', 'fit:scale-down', 'fit:other', 'fit:intrinsic-missing',
         'pos:from-right', 'pos:from-bottom', 'pos:px', 'pos:pct')
_declare('layer:no-image', 'layer:zero-intrinsic', 'layer:fixed', 'layer:page', 'layer:cover', 'layer:contain',
         'layer:explicit', 'layer:round-x', 'layer:round-y', 'layer:round-x-restores-ratio',
         'layer:round-y-restores-ratio', 'layer:round-skipped-zero', 'layer:table-part')
_declare('tile:single', 'tile:nothing', 'tile:no-repeat', 'tile:repeat', 'tile:round', 'tile:space-fits',
         'tile:space-single')
_declare('dedupe:new-image', 'dedupe:seen-image', 'dedupe:alpha-mask', 'dedupe:group', 'dedupe:pattern',
         'dedupe:nested')
_declare('rdraw:degenerate', 'rdraw:no-dpi', 'rdraw:dpi-zero', 'rdraw:dpi-lowered', 'rdraw:dpi-kept',
         'rdraw:zero-division', 'drawrep:invisible', 'drawrep:empty-box', 'drawrep:empty-rect', 'drawrep:painted')
_declare('svgintr:both', 'svgintr:both-zero', 'svgintr:vb-width', 'svgintr:vb-height', 'svgintr:vb-only',
         'svgintr:vb-degenerate', 'svgintr:nothing')
_declare('svg:identity', 'svg:root-intrinsic', 'svg:none', 'svg:meet', 'svg:slice', 'svg:marker', 'svg:index-error',
         'svg:value-error', 'svg:xmin', 'svg:xmid', 'svg:xmax', 'svg:ymin', 'svg:ymid', 'svg:ymax',
         'svg:zero-viewbox-side')
_declare('svgimage:both-known', 'svgimage:nothing-known', 'svgimage:ratio-only', 'svgimage:width-known',
         'svgimage:height-known', 'svgimage:type-error', 'svgimage:zero-division')
_declare('embed:transparency-rgba', 'embed:to-rgb', 'embed:kept-mode', 'embed:jpeg-pass-through',
         'embed:jpeg-reencoded', 'embed:png-pass-through', 'embed:png-reencoded', 'embed:os-error', 'embed:smask',
         'embed:invert-cmyk', 'embed:unknown-mode')
_declare('orient:none', 'orient:from-image', 'orient:0', 'orient:90', 'orient:180', 'orient:270', 'orient:flip',
         'orientangle:negative', 'orientangle:beyond-turn')
_declare('pref:px', 'pref:pct', 'pref:auto', 'pref:min-maxw-pct', 'pref:min-ratio-only', 'pref:outer',
         'pref:ratio-transfer', 'pref:pct-sum-100')
_declare('doc:cb-height-auto', 'doc:cb-height-fixed', 'doc:block', 'doc:inline', 'doc:rtl', 'doc:svg', 'doc:raster')

RBOX = ('width', 'height', 'ml', 'mr', 'mt', 'mb', 'pl', 'pr', 'bl', 'br', 'minw', 'maxw', 'minh', 'maxh', 'px', 'col')


def _viol(x, lo, hi):
    hi = max(lo, hi)
    return 'min' if x < lo else 'max' if x > hi else 'ok'


def _rbw(b, intr, tags):
    iw, ih, r = intr
    if b['width'] != 'auto':
        tags.append('rbw:keep')
    elif b['height'] == 'auto':
        if iw is not None:
            tags.append('rbw:point1')
        elif r is not None:
            tags.append('rbw:point2a' if ih is not None else 'rbw:point3')
        else:
            tags.append('rbw:point5')
    elif r is not None:
        tags.append('rbw:point2b')
    else:
        tags.append('rbw:point4' if iw is not None else 'rbw:point5')


def _rbh(b, intr, tags, width_set=True):
    iw, ih, r = intr
    if b['height'] != 'auto':
        tags.append('rbh:keep')
    elif b['width'] == 'auto' and not width_set:
        tags.append('rbh:both-auto-ih' if ih is not None else 'rbh:both-auto-none')
    elif r is not None:
        tags.append('rbh:ratio' if r != 0 else 'rbh:ratio-zero')
    else:
        tags.append('rbh:ih' if ih is not None else 'rbh:150')


def _blw(b, cb, tags):
    if b['width'] == 'auto':
        tags.append('blw:width-auto')
    else:
        if b['ml'] == 'auto' and b['mr'] == 'auto':
            tags.append('blw:both-margins-auto')
        elif b['ml'] == 'auto':
            tags.append('blw:left-auto')
        elif b['mr'] == 'auto':
            tags.append('blw:right-auto')
        else:
            tags.append('blw:over-constrained')
        total = b['pl'] + b['pr'] + b['bl'] + b['br'] + b['width'] + sum(
            0 if b[k] == 'auto' else b[k] for k in ('ml', 'mr'))
        if total > cb[0]:
            tags.append('blw:overflow')
    if cb[1]:
        tags.append('blw:rtl')


def _position(pos, tags):
    fr, xd, fb, yd = pos
    if fr:
        tags.append('pos:from-right')
    if fb:
        tags.append('pos:from-bottom')
    for d in (xd, yd):
        tags.append('pos:px' if d[0] == 'px' else 'pos:pct')


def _svg_align(par_points, tags):
    par = ''.join(chr(int(c)) for c in par_points)
    words = par.split()
    if not words:
        tags.append('svg:index-error')
        return
    if words[0] == 'none':
        tags.append('svg:none')
        return
    tags.append('svg:slice' if words[1:2] == ['slice'] else 'svg:meet')
    x, y = words[0][1:4].lower(), words[0][5:].lower()
    tags.append({'mid': 'svg:xmid', 'max': 'svg:xmax'}.get(x, 'svg:xmin'))
    tags.append({'mid': 'svg:ymid', 'max': 'svg:ymax'}.get(y, 'svg:ymin'))


def branches(line, out):
    try:
        return ['br:' + t for t in _branches(line, out)]
    except Exception:  # noqa: BLE001 - the classification is advisory
        return []


def _branches(line, out):
    cmd, args = parse(line)
    tags = []
    err = out.startswith('err')
    if cmd == 'mmar':
        b = dict(zip(RBOX, args[0]))
        if 'auto' in (b['width'], b['height']):
            return ['mmar:type-error']
        if b['width'] == 0 or b['height'] == 0:
            tags.append('mmar:zero-size')
        tags.append('mmar:' + _viol(b['width'], b['minw'], b['maxw']) + '-' + _viol(b['height'], b['minh'], b['maxh']))
    elif cmd in ('rbw', 'rbwcore', 'brw', 'brwcore'):
        intr, cb, b = args
        b = dict(zip(RBOX, b))
        _rbw(b, intr, tags)
        if cmd in ('rbw', 'brw') and not err:
            w = Fraction(out.split()[1])
            if isinstance(b['maxw'], Fraction) and w == max(b['minw'], b['maxw']) and b['width'] != w:
                tags.append('minmax:w-over-max')
            if w == b['minw'] and b['width'] != w:
                tags.append('minmax:w-under-min')
    elif cmd in ('rbh', 'rbhcore'):
        intr, b = args
        b = dict(zip(RBOX, b))
        _rbh(b, intr, tags, width_set=False)
        if cmd == 'rbh' and not err:
            h = Fraction(out.split()[2])
            if isinstance(b['maxh'], Fraction) and h == b['maxh'] and b['height'] != h:
                tags.append('minmax:h-over-max')
            if h == b['minh'] and b['height'] != h:
                tags.append('minmax:h-under-min')
    elif cmd in ('blw', 'blwcore'):
        _blw(dict(zip(RBOX, args[0])), args[1], tags)
    elif cmd in ('irwh', 'irl', 'brl', 'absrep'):
        intr = args[1]
        b = dict(zip(RBOX, args[-1]))
        _rbw(b, intr, tags)
        _rbh(b, intr, tags)
    elif cmd == 'dis':
        (iw, ih, r), sw, sh, dw, dh = args
        sw = None if sw == 'auto' else sw
        sh = None if sh == 'auto' else sh
        if err:
            tags.append('dis:zero-division')
        elif sw is not None and sh is not None:
            tags.append('dis:both')
        elif sw is not None:
            tags.append('dis:w-ratio' if r is not None else 'dis:w-ih' if ih is not None else 'dis:w-default')
        elif sh is not None:
            tags.append('dis:h-ratio' if r is not None else 'dis:h-iw' if iw is not None else 'dis:h-default')
        else:
            tags.append('dis:intrinsic' if (iw is not None or ih is not None) else 'dis:contain-default')
    elif cmd == 'constraint':
        cw, ch, r, cover = args
        if err:
            tags.append('constraint:zero-division')
        elif r is None:
            tags.append('constraint:no-ratio')
        else:
            tags.append('constraint:height-bound' if (cw > ch * r) != cover else 'constraint:width-bound')
    elif cmd == 'rlayout':
        g, fit, pos, intr = args
        fit = 'none' if fit is None else fit
        tags.append('fit:' + (fit if fit in ('fill', 'contain', 'cover', 'none', 'scale-down') else 'other'))
        if intr[0] is None or intr[1] is None:
            tags.append('fit:intrinsic-missing')
        _position(pos, tags)
    elif cmd in ('bglayer', 'bgdraw'):
        g, kind, page_g, image, size, clip, rx, ry, origin, pos, fixed = args
        if kind != 'plain':
            tags.append('layer:page' if kind[0] == 'page' else 'layer:table-part')
        if image is None:
            tags.append('layer:no-image')
        elif image[0] == 0 or image[1] == 0:
            tags.append('layer:zero-intrinsic')
        else:
            tags.append('layer:' + (size if isinstance(size, str) else 'explicit'))
            if fixed:
                tags.append('layer:fixed')
            if cmd == 'bglayer' and out.startswith('ok') and ' size (' in out:
                nums = out.replace('(', ' ').replace(')', ' ').split()
                sw, sh = Fraction(nums[nums.index('size') + 1]), Fraction(nums[nums.index('size') + 2])
                for axis, rep, other, value, idx in (('x', rx, ry, sw, 1), ('y', ry, rx, sh, 0)):
                    if rep == 'round':
                        if value == 0:
                            tags.append('layer:round-skipped-zero')
                        else:
                            tags.append(f'layer:round-{axis}')
                            if other != 'round' and not isinstance(size, str) and size[idx] == 'auto':
                                tags.append(f'layer:round-{axis}-restores-ratio')
            if cmd == 'bgdraw' and out.startswith('ok'):
                kind_out = out.split()[1]
                if kind_out == 'single':
                    tags.append('tile:single')
                elif kind_out == 'nothing':
                    tags.append('tile:nothing')
                else:
                    nums = [Fraction(t) for t in out.replace('(', ' ').replace(')', ' ').split()[2:]]
                    # fill rect (4), e, f, w, h, xstep, ystep
                    for rep, tile, step in ((rx, nums[6], nums[8]), (ry, nums[7], nums[9])):
                        if rep == 'space':
                            tags.append('tile:space-fits' if step != tile and step > tile else 'tile:space-single')
                        else:
                            tags.append('tile:' + rep)
    elif cmd == 'dedupe':
        seen = set()

        def walk(draws, depth):
            for d in draws:
                if d[0] == 'i':
                    name = (str(d[1]), d[2])
                    tags.append('dedupe:seen-image' if name in seen else 'dedupe:new-image')
                    seen.add(name)
                    if d[4]:
                        tags.append('dedupe:alpha-mask')
                else:
                    tags.append('dedupe:group' if d[0] == 'g' else 'dedupe:pattern')
                    if depth:
                        tags.append('dedupe:nested')
                    walk(d[1:], depth + 1)
        walk(args[1], 0)
    elif cmd == 'rdraw':
        image_id, pw, ph, dpi, cw, ch, c00, c11, auto = args
        if pw <= 0 or ph <= 0:
            tags.append('rdraw:degenerate')
        elif dpi is None:
            tags.append('rdraw:no-dpi')
        elif dpi == 0:
            tags.append('rdraw:dpi-zero')
        elif err:
            tags.append('rdraw:zero-division')
        else:
            tags.append('rdraw:dpi-kept' if out.split()[3] == '1' else 'rdraw:dpi-lowered')
    elif cmd == 'drawrep':
        visible, g = args[0], args[1]
        if not visible:
            tags.append('drawrep:invisible')
        elif g[14] == 0 or g[15] == 0:
            tags.append('drawrep:empty-box')
        elif out == 'ok none':
            tags.append('drawrep:empty-rect')
        elif not err:
            tags.append('drawrep:painted')
    elif cmd == 'svgintr':
        w, h, vb = args
        if w is not None and h is not None:
            tags.append('svgintr:both' if w and h else 'svgintr:both-zero')
        elif vb is not None and vb[0] and vb[1]:
            tags.append('svgintr:vb-width' if w else 'svgintr:vb-height' if h else 'svgintr:vb-only')
        elif vb is not None:
            tags.append('svgintr:vb-degenerate')
        else:
            tags.append('svgintr:nothing')
    elif cmd in ('svgratio', 'svgroot'):
        if cmd == 'svgratio':
            viewbox, root, iw, ih, par, marker, width, height = args
        else:
            viewbox, iw, ih, par, width, height = args
            root, marker = True, None
        if out.startswith('err:ValueError'):
            tags.append('svg:value-error')
        elif out.startswith('err:IndexError') and viewbox and len(viewbox) < 4:
            tags.append('svg:index-error')
        elif not viewbox and not (root and iw is not None and ih is not None):
            tags.append('svg:identity')
        else:
            if not viewbox:
                tags.append('svg:root-intrinsic')
            elif viewbox[2] == 0 or viewbox[3] == 0:
                tags.append('svg:zero-viewbox-side')
            if marker is not None:
                tags.append('svg:marker')
            _svg_align(par, tags)
    elif cmd == 'svgimage':
        width, height, iw, ih, ir = args
        if out.startswith('err:TypeError'):
            tags.append('svgimage:type-error')
        elif out.startswith('err:ZeroDivisionError'):
            tags.append('svgimage:zero-division')
        elif iw is not None and ih is not None:
            tags.append('svgimage:both-known')
        elif iw is None and ih is None:
            tags.append('svgimage:nothing-known' if ir is None or (not width and not height) else 'svgimage:ratio-only')
        else:
            tags.append('svgimage:width-known' if iw is not None else 'svgimage:height-known')
    elif cmd == 'embed':
        mode, transparency, fmt, app14, rotated, has_data, optimize, quality = args
        mode = {Fraction(1): '1'}.get(mode, mode)
        if transparency:
            tags.append('embed:transparency-rgba')
        elif mode in ('1', 'P', 'I'):
            tags.append('embed:to-rgb')
        else:
            tags.append('embed:kept-mode')
        if err:
            tags.append('embed:os-error')
        else:
            t = out.split()
            jpeg, reencoded = t[2] == 'true', t[3] == 'true'
            tags.append('embed:' + ('jpeg' if jpeg else 'png') + ('-reencoded' if reencoded else '-pass-through'))
            if t[8] == 'true':
                tags.append('embed:smask')
            if t[9] == 'true':
                tags.append('embed:invert-cmyk')
            if t[1] not in ('L', 'LA', 'RGB', 'RGBA', 'CMYK'):
                tags.append('embed:unknown-mode')
    elif cmd == 'orient':
        kind, angle, flip, rows = args
        kind = 'none' if kind is None else kind
        if kind != 'turn':
            tags.append('orient:' + kind)
        else:
            tags.append(f'orient:{int(angle)}')
            if flip:
                tags.append('orient:flip')
    elif cmd == 'orientangle':
        q = args[0]
        if q < 0:
            tags.append('orientangle:negative')
        if abs(q) >= 4:
            tags.append('orientangle:beyond-turn')
    elif cmd == 'prefwidth':
        minimum, outer, style, intr = args
        width, maxw = style[0], style[3]
        if isinstance(width, list):
            tags.append('pref:px' if width[0] == 'px' else 'pref:pct')
        elif minimum and isinstance(maxw, list) and maxw[0] == '%':
            tags.append('pref:min-maxw-pct')
        elif minimum and intr[2] and not intr[0] and not intr[1]:
            tags.append('pref:min-ratio-only')
        else:
            tags.append('pref:auto')
        if outer:
            tags.append('pref:outer')
            pct = sum(d[1] for d in (style[6], style[7], style[8], style[9]) if isinstance(d, list) and d[0] == '%')
            if pct >= 100:
                tags.append('pref:pct-sum-100')
        if intr[2] is not None and any(isinstance(style[k], list) and style[k][0] == 'px' for k in (4, 5)):
            tags.append('pref:ratio-transfer')
    elif cmd in ('docimg', 'docsvg'):
        tags.append('doc:block' if args[0] else 'doc:inline')
        tags.append('doc:cb-height-auto' if args[3] == 'auto' else 'doc:cb-height-fixed')
        if args[2][1]:
            tags.append('doc:rtl')
        tags.append('doc:svg' if cmd == 'docsvg' else 'doc:raster')
    return tags


def report(counter):
    """{'hit': {branch: n}, 'never_hit': [...]} from a Counter of all tags of a run."""
    hit = {k[3:]: v for k, v in counter.items() if k.startswith('br:')}
    return {'hit': dict(sorted(hit.items())), 'never_hit': sorted(EXPECTED - set(hit)),
            'unexpected': sorted(set(hit) - EXPECTED)}
