"""C20 document level: generated documents referencing resources of every kind through a recording memory fetcher,
rendered and written to PDF under a sys.addaudithook watch; compared with `Wp.Res.Doc.run` (Model/ResourcesDoc.lean)
on the same abstract document.  Also: the property oracle (judge / search), finding replays, replay."""
import itertools
import shutil
import tempfile
from pathlib import Path
from urllib.parse import urljoin

from harness import c20_res as R
from harness import docs
from harness.c20_res import Spec, enc
from vlib import sx

GOOD_IMAGES = ['png', 'png_rgba', 'png_p', 'jpeg', 'jpeg_l', 'jpeg_exif6', 'gif', 'svg', 'png_cut_tail', 'webp']
BAD_IMAGES = ['html', 'empty', 'garbage', 'png_cut20', 'png_cut40', 'jpeg_cut30', 'jpeg_cut_half', 'svg_cut', 'css',
              'svg_import', 'otf']
FONTS = ['otf', 'otf', 'woff', 'woff2', 'otf_cut', 'woff_bad', 'woff2_bad', 'empty', 'garbage', 'html']
ATTACHED = ['png', 'css', 'empty', 'html', 'garbage']
_counter = itertools.count(1)
CASE_SECONDS = 20      # one document: render + write_pdf (normally a few hundredths of a second)
LATE = ('background', 'borderimage', 'maskborder')      # fetched by layout_backgrounds, after the whole tree has been built
PAGE_KINDS = ('marginbox', 'pagebg')                    # images of the page itself: no element, no wrapper block


def fetch_rank(kind):
    """Stage of the render in which the image of a reference is fetched: boxes are built for the whole tree; the content
    of the page margin boxes when the page is made; then backgrounds, border images and masks of the boxes of the page
    (children first), then the background of the page box itself."""
    return 1 if kind == 'marginbox' else 3 if kind == 'pagebg' else 2 if kind in LATE else 0


def fetch_order(images):
    return sorted(range(len(images)), key=lambda i: fetch_rank(images[i]['kind']))


def doc_fonts(rng):
    """Font payloads for documents: the plain ones, or a damaged real font that can never be installed (the shared
    fontconfig configuration of the harness must not collect half-broken fonts)."""
    if rng.random() < 0.5:
        return FONTS
    return R.damaged_names('font', lambda c: not (c.font_ok and (c.woff_ok or not c.woff)))


def doc_images(rng):
    r = rng.random()
    if r < 0.5:
        return GOOD_IMAGES
    if r < 0.8:
        return BAD_IMAGES + ['xhtml']
    return R.damaged_names('image')


def fail_spec(rng, names, p_fail, mimes=(None,), escaping=0.06, redirects=(None,)):
    """A fetch outcome for a document resource.  Failure modes: the fetcher raises; empty / truncated / wrong-type /
    HTML data; wrong MIME type.  With probability `escaping`, one of the outcomes that the loaders do not absorb
    (read() raises, not a dict, neither 'string' nor 'file_obj')."""
    contents = R.bank()
    r = rng.random()
    if r < escaping:
        which = rng.random()
        if which < 0.6:
            return Spec('resp', content=contents[rng.choice(names)], string=False,
                        file_obj=(rng.choice(R.EXCEPTIONS)(), False), mime=rng.choice(mimes))
        if which < 0.8:
            return Spec('notdict')
        return Spec('resp', content=contents[rng.choice(names)], string=False, file_obj=None, mime=rng.choice(mimes))
    if r < escaping + p_fail / 2:
        return Spec('raises', exc=rng.choice(R.EXCEPTIONS + [R.url_fetching_error])())
    string = rng.random() < 0.6
    return Spec('resp', content=contents[rng.choice(names)], string=string,
                file_obj=None if string else (None, rng.random() < 0.1), mime=rng.choice(mimes),
                has_mime=rng.random() < 0.9, redirected=rng.choice(redirects))


def expected_uri(iri):
    """RFC 3987 → 3986 as the property needs it (the harness's own statement, not weasyprint's iri_to_uri): UTF-8, then
    percent-encoding of every byte that is not allowed in a URI; an existing `%` escape is kept."""
    if iri.startswith('data:'):
        return iri
    from urllib.parse import quote
    return quote(iri.encode('utf-8'), safe=b"/:?#[]@!$&'()*+,;=~%")


class DocGen:
    def __init__(self, rng, tmp):
        self.rng, self.tmp = rng, tmp
        self.n = next(_counter)
        self.table = {}
        self.fs = {}                 # path -> Content (files that exist under tmp)
        self.base = rng.choice(['http://doc.test/dir/', f'file://{tmp}/', 'https://doc.test/a/b/'])
        self.rule_ids = set()
        self.kinds = set()
        self.ids = itertools.count(1)

    # ---------------------------------------------------------------- URLs
    def url(self, stem, ext, base=None, decor=''):
        """(text written in the document, absolute URL the fetcher must receive); relative references resolve
        against `base` (the URL of the stylesheet they are written in; default: the document's base URL).
        `decor`: characters put in the file name that `iri_to_uri` must (or must not) escape."""
        base = base or self.base
        name = f'{stem}{self.n}x{next(self.ids)}{decor}.{ext}'
        r = self.rng.random() if not base.startswith('data:') else 0.5
        if decor:
            r = min(r, 0.89)        # not a data: URL (left as it is by iri_to_uri)
        if r < 0.3:
            return name, expected_uri(urljoin(base, name))             # relative
        if r < 0.4:
            return f'sub/{name}', expected_uri(urljoin(base, f'sub/{name}'))
        if r < 0.6:
            url = f'http://res.test/{name}'
        elif r < 0.8:
            url = f'file://{self.tmp}/{name}'
        elif r < 0.9:
            url = f'https://cdn.test/x/{name}'
        else:
            url = f'data:application/x-c20;n={name},QUJD'
        return url, expected_uri(url)

    def local_file(self, url, spec):
        """For file: URLs (or redirects) under tmp: sometimes a *different* file exists at that path."""
        from weasyprint.images import urlparse, url2pathname
        target = spec.redirected if (spec.kind == 'resp' and spec.redirected) else url
        if not target.startswith(f'file://{self.tmp}/'):
            return
        path = url2pathname(urlparse(target).path)
        if self.rng.random() < 0.5 and path not in self.fs:
            # another file of the same format and mode at that path (other pixels)
            pil = spec.content.pil if spec.kind == 'resp' else None
            twins = R.bank()
            if pil and pil[0] in ('JPEG', 'MPO'):
                foreign = twins['jpeg_l_twin' if pil[1] == 'L' else 'jpeg_twin']
            else:
                foreign = twins['png_rgba_twin' if (pil and pil[1] == 'RGBA') else 'png_twin']
            self.fs[path] = foreign
            Path(path).parent.mkdir(parents=True, exist_ok=True)
            Path(path).write_bytes(foreign.data)

    # ---------------------------------------------------------------- stylesheets
    def media(self):
        r = self.rng.random()
        if r < 0.6:
            return '', ["'all"], True
        if r < 0.8:
            return ' print', ["'print"], True
        if r < 0.92:
            return ' screen', ["'screen"], False
        return ' 5px', 'none', False

    def css_items(self, depth, base=None):
        """Abstract items of a stylesheet whose own URL is `base`."""
        items = []
        for _ in range(self.rng.choice([1, 1, 2, 3])):
            r = self.rng.random()
            if r < 0.4 or (depth <= 0 and r < 0.7):
                n = self.rng.randrange(1, 40)
                self.rule_ids.add(n)
                items.append({'kind': 'rule', 'n': n})
            elif r < 0.45:
                items.append({'kind': 'other'})
            elif r < 0.75 and depth > 0:
                mtext, mwire, _ = self.media()
                text, url = self.url('imp', 'css', base)
                sheet = self.sheet(url, depth - 1, ['text/css'] * 3 + [None, 'text/html'])
                items.append({'kind': 'import', 'text': text, 'url': url, 'mtext': mtext, 'mwire': mwire, 'sheet': sheet,
                              'quoted': self.rng.random() < 0.5})
                self.kinds.add('import')
            elif r < 0.82 and depth > 0:
                mtext, mwire, _ = self.media()
                items.append({'kind': 'media', 'mtext': mtext or ' all', 'mwire': mwire if mtext else ["'all"],
                              'items': self.css_items(depth - 1, base)})
            else:
                srcs = []
                for _ in range(self.rng.randrange(1, 4)):
                    if self.rng.random() < 0.9:
                        text, url = self.url('font', self.rng.choice(['otf', 'woff', 'woff2']), base)
                        spec = fail_spec(self.rng, doc_fonts(self.rng), 0.4)
                        self.table[url] = spec
                        srcs.append({'kind': 'ext', 'text': text, 'url': url, 'spec': spec})
                    else:
                        srcs.append({'kind': 'local', 'name': 'No Such Font C20'})
                items.append({'kind': 'fontface', 'key': next(_counter), 'srcs': srcs})
                self.kinds.add('fontface')
        return items

    def sheet(self, url, depth, mimes):
        spec = fail_spec(self.rng, ['css'], 0.35, mimes=mimes,
                         redirects=[None] * 5 + [f'http://moved.test/m{self.n}x{next(self.ids)}/s.css'])
        # CSS.__init__: base_url = result.get('redirected_url', url): relative @imports resolve against it
        own = spec.redirected if (spec.kind == 'resp' and spec.redirected) else url
        sheet = {'url': url, 'spec': spec, 'items': self.css_items(depth, own)}
        self.table[url] = spec
        return sheet

    @staticmethod
    def font_src_ok(src):
        if src['kind'] != 'ext':
            return False
        spec = src['spec']
        return spec.delivers and spec.content.font_ok and (spec.content.woff_ok or not spec.content.woff)

    def css_text(self, items, drop_failed):
        parts = []
        for item in items:
            kind = item['kind']
            if kind == 'rule':
                parts.append(f'.r{item["n"]}{{width:{item["n"]}px}}')
            elif kind == 'other':
                parts.append('@page{margin:1px}')
            elif kind == 'import':
                if drop_failed and item['sheet']['spec'].kind == 'raises':
                    continue
                target = item['text']
                parts.append(f'@import "{target}"{item["mtext"]};' if item['quoted']
                             else f'@import url({target}){item["mtext"]};')
            elif kind == 'media':
                parts.append(f'@media{item["mtext"]}{{{self.css_text(item["items"], drop_failed)}}}')
            else:
                srcs = []
                for src in item['srcs']:
                    if src['kind'] == 'local':
                        srcs.append(f'local("{src["name"]}")')
                    elif not (drop_failed and not self.font_src_ok(src)):
                        srcs.append(f'url({src["text"]})')
                if srcs:
                    parts.append(f'@font-face{{font-family:c20f{item["key"]};src:{",".join(srcs)}}}')
                else:
                    parts.append(f'@font-face{{font-family:c20f{item["key"]}}}')
        return ''.join(parts)

    def css_wire(self, items):
        out = []
        for item in items:
            kind = item['kind']
            if kind == 'rule':
                out.append(['rule', item['n']])
            elif kind == 'other':
                out.append('other')
            elif kind == 'import':
                out.append(['import', enc(item['url']), item['mwire'], self.sheet_wire(item['sheet'])])
            elif kind == 'media':
                out.append(['media', item['mwire'], self.css_wire(item['items'])])
            else:
                srcs = [['ext', enc(s['url'])] if s['kind'] == 'ext'
                        else ['local', enc(s['name']), True, False, enc('file:///none')] for s in item['srcs']]
                out.append(['fontface', True, [item['key'], srcs]])
        return out

    def sheet_wire(self, sheet):
        return ['sheet', sheet['spec'].sx(), self.css_wire(sheet['items'])]

    def serve_sheets(self, items, table, drop_failed):
        """Put the text of every served stylesheet in `table` (a copy of the spec with its own content)."""
        for item in items:
            if item['kind'] == 'import':
                sheet = item['sheet']
                spec = sheet['spec']
                if spec.kind == 'resp' and not sheet.get('raw'):
                    content = R.Content(5000 + next(_counter), 'css', self.css_text(sheet['items'], drop_failed).encode())
                    content.xml_ok, content.pil, content.woff, content.woff_ok, content.font_ok = False, None, False, True, False
                    table[sheet['url']] = Spec('resp', content=content, string=spec.string, file_obj=spec.file_obj,
                                               mime=spec.mime, has_mime=spec.has_mime, redirected=spec.redirected)
                    spec.content = content if not drop_failed else spec.content
                self.serve_sheets(sheet['items'], table, drop_failed)
            elif item['kind'] == 'media':
                self.serve_sheets(item['items'], table, drop_failed)

    # ---------------------------------------------------------------- the document
    def reset(self):
        self.styles, self.images, self.metas, self.annots = [], [], [], []
        self.svg_docs = {}        # url -> (Content, [('image', resolved url | None) | ('use', url)])
        self.api_attachments = []
        self.optimize = self.quality = False
        self.disk_cache = False
        return self

    def generate(self):
        rng = self.rng
        self.reset()
        for _ in range(rng.choice([0, 1, 1, 2, 3])):
            if rng.random() < 0.4:
                self.styles.append({'kind': 'style', 'items': self.css_items(2)})
            else:
                text, url = self.url('sheet', 'css', decor=rng.choice(['', '', '', '', ' b', '%41', '\u00e9']))
                sheet = self.sheet(url, 2, ['text/css'] * 4 + ['text/html', None])
                if rng.random() < 0.15:
                    text = rng.choice([' {} ', '\n{}', '{}\t']).format(text)
                self.styles.append({'kind': 'link', 'text': text, 'url': url, 'sheet': sheet})
                self.kinds.add('link')
        for _ in range(rng.choice([0, 1, 2, 3, 4, 6])):
            kind = rng.choice(['img', 'img', 'img', 'embed', 'object', 'background', 'liststyle', 'content', 'borderimage', 'maskborder'])
            if rng.random() < 0.07:
                # an inline <svg> element: its <image> / <use> elements are fetched when it is painted, relative to the document
                key = f'inline:{self.n}x{next(self.ids)}'
                spec = self.svg_document(self.base, depth=1, inline=True)
                self.svg_docs[key] = self.svg_docs.pop(self.base)
                self.images.append({'kind': 'inlinesvg', 'layers': None, 'text': None, 'url': None, 'alt': None,
                                    'orient': 'from-image', 'forced': None, 'svg': spec.content})
                self.kinds.add('inline-svg')
                continue
            missing = kind in ('img', 'embed', 'object') and rng.random() < 0.08
            decor = rng.choice(['', '', '', '', '', ' b', '%41', '\u00e9'])
            text, url = self.url('pic', rng.choice(['png', 'jpg', 'svg']), decor=decor)
            if self.images and rng.random() < 0.15:      # the same resource twice: one fetch
                previous = rng.choice(self.images)
                if previous['url'] and previous['url'] not in self.svg_docs:
                    text, url = previous['text'], previous['url']
                    if kind not in ('img', 'embed', 'object'):
                        text = text.strip()      # a CSS string cannot hold the newline an HTML attribute may carry
            names = doc_images(rng)
            if (url not in self.table and kind in ('img', 'embed', 'object') and not missing and
                    not url.startswith('data:') and rng.random() < 0.22):
                self.table[url] = self.svg_document(url)
                self.kinds.add('svg-with-references')
            elif (url not in self.table and kind not in ('img', 'embed', 'object') and not url.startswith('data:')
                  and rng.random() < 0.15):
                # an SVG with <image> elements as a CSS image: painted in the pass of its kind (backgrounds, border images
                # and masks; then inline content; then list markers), possibly several times (border image: nine parts) —
                # its references are plain ones, for which the number of drawings cannot be seen
                self.table[url] = self.svg_document(url, css=True)
                self.kinds.add('svg-as-css-image')
            if url not in self.table:
                redirects = [None] * 6 + [f'file://{self.tmp}/redir{self.n}x{next(self.ids)}.png', 'http://cdn.test/moved.png']
                spec = fail_spec(rng, names, 0.35, mimes=[None, 'image/png', 'image/svg+xml', 'text/html', 'image/jpeg'],
                                 redirects=redirects)
                self.table[url] = spec
                self.local_file(url, spec)
            orient = rng.choice(['from-image'] * 5 + ['none', (90, False)])
            if kind in ('liststyle', 'content', 'borderimage', 'maskborder'):
                orient = 'from-image'   # ::marker / ::before do not inherit image-orientation in WeasyPrint
            if kind in ('img', 'embed', 'object') and rng.random() < 0.15:
                text = rng.choice([' {} ', '\n{}', '{}\t ', '  {}\n']).format(text)     # HTML: the attribute value is stripped
            layers = None
            if kind == 'background' and rng.random() < 0.6:
                # a multi-layer background: the url() layer among `none` / gradient layers, each layer with its own
                # position, size and repeat (a failing layer must leave the other layers where they are)
                layers = self.background_layers()
            self.images.append({'kind': kind, 'layers': layers, 'text': None if missing else text, 'url': None if missing else url,
                                'alt': rng.choice([None, '', f'ALT{len(self.images)}']) if kind == 'img' else None,
                                'orient': orient, 'forced': rng.choice([None, None, 'image/png', 'image/svg+xml'])
                                if kind in ('embed', 'object') else None})
            self.kinds.add(kind)
        for kind in PAGE_KINDS:
            # an image in a page margin box (@top-left { content: url() "M" }) / as the background of the page box
            if rng.random() < 0.18:
                text, url = self.url('pic', rng.choice(['png', 'jpg']))
                if url not in self.table:
                    self.table[url] = fail_spec(rng, doc_images(rng), 0.35, mimes=[None, 'image/png', 'text/html', 'image/jpeg'])
                self.images.append({'kind': kind, 'layers': None, 'text': text.strip(), 'url': url, 'alt': None,
                                    'orient': 'from-image', 'forced': None})
                self.kinds.add(kind)
        for _ in range(rng.choice([0, 0, 1, 2])):
            text, url = self.url('att', 'bin')
            self.table.setdefault(url, fail_spec(rng, ATTACHED, 0.5))
            self.metas.append({'text': text, 'url': url})
            self.kinds.add('attachment')
        self.api_attachments = []       # write_pdf(attachments=[url, …]): fetched like the <link rel=attachment> ones, after them
        for _ in range(rng.choice([0, 0, 0, 1, 2])):
            url = f'http://res.test/att{self.n}x{next(self.ids)}.bin'
            self.table.setdefault(url, fail_spec(rng, ATTACHED, 0.5))
            self.api_attachments.append(url)
            self.kinds.add('api-attachment')
        for _ in range(rng.choice([0, 0, 1, 2])):
            text, url = self.url('lnk', 'bin')
            if self.annots and rng.random() < 0.3:
                text, url = self.annots[0]['text'], self.annots[0]['url']
            self.table.setdefault(url, fail_spec(rng, ATTACHED, 0.5))
            self.annots.append({'text': text, 'url': url})
            self.kinds.add('attachment-link')
        self.optimize = rng.random() < 0.25
        self.quality = rng.random() < 0.15
        self.disk_cache = rng.random() < 0.3       # render(cache=<folder>): a DiskCache instead of a dict
        if self.disk_cache:
            self.kinds.add('disk-cache')
        return self

    def background_layers(self):
        """(index of the url() layer, the other layers as CSS text, per-layer declarations)."""
        rng = self.rng
        n = rng.choice([2, 2, 3, 4])
        at = rng.randrange(n)
        others = [rng.choice(['none', 'linear-gradient(red, blue)', 'linear-gradient(to right, lime, black)',
                              'radial-gradient(white, black)']) for _ in range(n)]
        count = rng.choice([n, n, n, 2, 1])     # shorter lists are cycled
        decls = ('background-position:' + ','.join(f'{1 + 2 * i}px {2 + 3 * i}px' for i in range(count)) + ';'
                 'background-size:' + ','.join(f'{4 + i}px {3 + 2 * i}px' for i in range(count)) + ';'
                 'background-repeat:' + ','.join(['no-repeat', 'repeat-x', 'repeat-y', 'repeat'][i % 4] for i in range(count)) + ';'
                 'background-origin:' + ','.join(['padding-box', 'content-box', 'border-box'][i % 3] for i in range(count)) + ';'
                 'background-clip:' + ','.join(['border-box', 'padding-box', 'content-box'][i % 3] for i in range(count)) + ';')
        return {'at': at, 'others': others, 'decls': decls}

    @staticmethod
    def background_declaration(layers, src):
        """`background-image` with the url() layer at its place, or `none` there when the reference is dropped."""
        if layers is None:
            return f"background-image:url('{src}');" if src is not None else ''
        values = list(layers['others'])
        values[layers['at']] = f"url('{src}')" if src is not None else 'none'
        return f'background-image:{",".join(values)};{layers["decls"]}'

    def svg_document(self, url, depth=0, inline=False, css=False):
        """An SVG image whose drawing fetches: <image> elements (href relative to the SVG's URL, absolute, or missing;
        a raster, or an SVG image with references of its own — itself, an SVG met before, a new one),
        <use> of another document (the fetcher is called directly) and of a local element (no fetch)."""
        rng = self.rng
        parts, items = [], []
        for _ in range(rng.choice([1, 1, 2, 3])):
            r = rng.random()
            if css:
                r = 0.2 + 0.52 * r        # rasters and <image> without href only
            if r < 0.2:
                # an SVG image inside the SVG image: this very document, one generated before, or a new one
                known = [u for u in self.svg_docs if not u.startswith(('data:', 'inline:'))]
                which = rng.random()
                if (which < 0.35 or depth >= 2) and not inline:
                    inner = url
                elif which < 0.6 and known:
                    inner = rng.choice(known)
                else:
                    inner = f'http://res.test/inner{self.n}x{next(self.ids)}.svg'
                    self.table[inner] = self.svg_document(inner, depth + 1)
                parts.append(f'<image href="{inner}" width="5" height="5"/>')
                items.append(('image', inner))
                self.kinds.add('svg-in-svg')
            elif r < 0.62:
                text, inner = self.url('inner', rng.choice(['png', 'jpg']), base=url)
                if inner.startswith('data:'):
                    text = inner = f'http://res.test/inner{self.n}x{next(self.ids)}.png'
                spec = fail_spec(rng, doc_images(rng), 0.35, mimes=[None, 'image/png', 'text/html'], escaping=0 if css else 0.1)
                if spec.kind == 'resp' and spec.content.name == 'xhtml':
                    spec.content = R.bank()['html']
                self.table[inner] = spec
                self.local_file(inner, spec)
                attr = rng.choice(['href', 'xlink:href'])
                parts.append(f'<image {attr}="{text}" width="5" height="5"/>')
                items.append(('image', inner))
            elif r < 0.72:
                parts.append('<image width="5" height="5"/>')
                items.append(('image', None))
            elif r < 0.9:
                target = urljoin(url, f'use{self.n}x{next(self.ids)}.svg') + '#a'
                self.table[target] = fail_spec(rng, ['svg', 'html', 'empty'], 0.4, escaping=0.2)
                parts.append(f'<use xlink:href="{target.rsplit("/", 1)[1]}"/>')
                items.append(('use', target))
            else:
                parts.append('<use href="#loc"/><g id="loc"><rect width="1" height="1"/></g>')
        opening = ('<svg width="12" height="9">' if inline else
                   '<svg xmlns="http://www.w3.org/2000/svg" xmlns:xlink="http://www.w3.org/1999/xlink" width="12" height="9">')
        data = (opening + ''.join(parts) + '</svg>').encode()
        content = R.Content(7000 + next(_counter), 'svgdoc', data)
        content.xml_ok, content.pil, content.woff, content.woff_ok, content.font_ok = True, None, False, True, False
        self.svg_docs[url] = (content, items)
        string = rng.random() < 0.7
        return Spec('resp', content=content, string=string, file_obj=None if string else (None, False),
                    mime=rng.choice(['image/svg+xml', None] if css else ['image/svg+xml', None, 'image/png']))

    def api_list(self, drop_failed=False):
        return [u for u in self.api_attachments if not (drop_failed and self.table[u].kind == 'raises')]

    def image_failed(self, ref):
        if not ref['url']:
            return False
        spec = self.table[ref['url']]
        return spec.kind == 'raises' or (spec.delivers and not spec.content.image_loads)

    def html(self, drop_failed=False):
        head, body, rules = [], [], []
        for style in self.styles:
            if style['kind'] == 'style':
                head.append(f'<style>{self.css_text(style["items"], drop_failed)}</style>')
            else:
                spec = style['sheet']['spec']
                failed = spec.kind == 'raises' or (spec.kind == 'resp' and (spec.mime != 'text/css' or not spec.has_mime))
                if not (drop_failed and failed):
                    head.append(f'<link rel=stylesheet href="{style["text"]}">')
        for meta in self.metas:
            if not (drop_failed and self.table[meta['url']].kind == 'raises'):
                head.append(f'<link rel=attachment href="{meta["text"]}">')
        for i, ref in enumerate(self.images):
            drop = drop_failed and self.image_failed(ref)
            src = None if drop else ref['text']
            orient = {'from-image': '', 'none': 'image-orientation:none;'}.get(ref['orient'], 'image-orientation:90deg;')
            kind = ref['kind']
            if kind == 'marginbox':
                image = f"url('{src}') " if src is not None else ''
                rules.append(f'@page{{margin-top:14px;@top-left{{content:{image}"M";font-size:10px}}}}')
                continue
            if kind == 'pagebg':
                if src is not None:
                    rules.append(f"@page{{background-image:url('{src}');background-repeat:no-repeat}}")
                continue
            if kind == 'inlinesvg':
                inner = ref['svg'].data.decode()
            elif kind == 'img':
                attrs = (f' src="{src}"' if src is not None else '') + (f' alt="{ref["alt"]}"' if ref['alt'] is not None else '')
                inner = f'<img{attrs} style="{orient}">'
            elif kind == 'embed':
                attrs = (f' src="{src}"' if src is not None else '') + (f' type="{ref["forced"]}"' if ref['forced'] else '')
                inner = f'<embed{attrs} style="{orient}">'
            elif kind == 'object':
                attrs = (f' data="{src}"' if src is not None else '') + (f' type="{ref["forced"]}"' if ref['forced'] else '')
                inner = f'<object{attrs} style="{orient}">FB{i}</object>'
            elif kind == 'background':
                decl = self.background_declaration(ref.get('layers'), src)
                inner = f'<div id=bg{i} style="{decl}{orient}padding:1px;border:1px solid;width:30px;height:10px"></div>'
            elif kind == 'borderimage':
                decl = f'border-image-source:url(\'{src}\');' if src is not None else ''
                inner = f'<div id=bg{i} style="border:2px solid;{decl}width:30px;height:10px"></div>'
            elif kind == 'maskborder':
                decl = f'mask-border-source:url(\'{src}\');mask-border-slice:1;' if src is not None else ''
                inner = f'<div id=bg{i} style="border:2px solid;{decl}width:30px;height:10px;background:lime"></div>'
            elif kind == 'liststyle':
                decl = f'list-style-image:url(\'{src}\');' if src is not None else ''
                inner = f'<ul><li id=li{i} style="{decl}{orient}">x</li></ul>'
            else:
                if src is not None:
                    rules.append(f'#c{i}::before{{content:url(\'{src}\')}}')
                elif ref['text'] is not None:
                    # css-content: an image that cannot be displayed is left out of the content list
                    rules.append(f'#c{i}::before{{content:""}}')
                inner = f'<div id=c{i} style="{orient}">y</div>'
            body.append(f'<div id=w{i}>{inner}</div>')
        for n in sorted(self.rule_ids):
            body.append(f'<i class=r{n} id=p{n}></i>')
        for j, annot in enumerate(self.annots):
            if not (drop_failed and self.table[annot['url']].kind == 'raises'):
                body.append(f'<p><a rel=attachment href="{annot["text"]}">a{j}</a></p>')
            else:
                body.append(f'<p><a>a{j}</a></p>')
        base_css = ('@page{size:400px 1000px;margin:0}body{margin:0;font-size:10px;line-height:10px}'
                    'i{display:block;height:1px}img,embed,object{width:20px;height:10px}' + ''.join(rules))
        # the probe rules come *after* the generated sheets would be wrong: generated sheets must win -> put base first
        return f'<html><head><style>{base_css}</style>{"".join(head)}</head><body>{"".join(body)}</body></html>'

    def wire(self):
        styles = [['el', False, 'none', 'none', 'none', 'none', 'none', [], ['sheet', 'notdict', []]]]  # the base <style>: no fetch
        styles[0][7] = ['other']
        for style in self.styles:
            if style['kind'] == 'style':
                styles.append(['el', False, 'none', 'none', 'none', 'none', 'none', self.css_wire(style['items']),
                               ['sheet', 'notdict', []]])
            else:
                styles.append(['el', True, 'none', 'none', enc('stylesheet'), enc(style['text']), enc(style['url']), [],
                               self.sheet_wire(style['sheet'])])
        ordered = [self.images[i] for i in fetch_order(self.images)]
        images = [['inlinesvg', r['svg'].id] if r['kind'] == 'inlinesvg' else
                  [{'marginbox': 'content', 'pagebg': 'background'}.get(r['kind'], r['kind']), enc(r['url']), enc(r['alt']),
                   r['orient'] if isinstance(r['orient'], str) else list(r['orient']), enc(r['forced'])] for r in ordered]
        fs = [[enc(path), content.id] for path, content in self.fs.items()]
        table = R.Recorder(self.table).sx()
        svgs = [[content.id, [['image', enc(u)] if k == 'image' else ['use', enc(u)] for k, u in items]]
                for content, items in self.svg_docs.values()]
        return ['doc', enc('print'), styles, images, [enc(m['url']) for m in self.metas] + [enc(u) for u in self.api_attachments],
                [enc(a['url']) for a in self.annots], table, [self.optimize, 60 if self.quality else None, None], fs, svgs]

    def fetch_table(self, drop_failed=False):
        table = dict(self.table)
        for style in self.styles:
            items = style['items'] if style['kind'] == 'style' else style['sheet']['items']
            if style['kind'] == 'link':
                sheet = style['sheet']
                spec = sheet['spec']
                if spec.kind == 'resp' and not sheet.get('raw'):
                    content = R.Content(5000 + next(_counter), 'css', self.css_text(items, drop_failed).encode())
                    content.xml_ok, content.pil, content.woff, content.woff_ok, content.font_ok = False, None, False, True, False
                    table[sheet['url']] = Spec('resp', content=content, string=spec.string, file_obj=spec.file_obj,
                                               mime=spec.mime, has_mime=spec.has_mime, redirected=spec.redirected)
            self.serve_sheets(items, table, drop_failed)
        return table


# ----------------------------------------------------------------------------------------------------
# running a document on the implementation

def category(url):
    name = url.rsplit('/', 1)[-1] if not url.startswith('data:') else url.split('n=', 1)[-1]
    for stem, cat in (('imp', 'css'), ('sheet', 'css'), ('font', 'css'), ('pic', 'img'), ('att', 'att'), ('lnk', 'att'),
                      ('redir', 'img'), ('inner', 'paint'), ('use', 'paint')):
        if name.startswith(stem):
            return cat
    return 'other'


def split_log(events, paint_urls=()):
    """Recorder events -> {category: [events]}; a close event belongs to the call before it.  `paint_urls`: URLs
    referenced from inside SVG images (asked for when the SVG is drawn, whatever their name says)."""
    out = {'css': [], 'img': [], 'att': [], 'paint': [], 'other': []}
    current = 'other'
    for event in events:
        if event.startswith('call='):
            url = decode(event[5:])
            current = 'paint' if url in paint_urls else category(url)
        out[current].append(event)
    return out


def decode(text):
    assert text.startswith("'")
    out, i, text = [], 0, text[1:]
    while i < len(text):
        if text[i] == '~' and text[i + 1] == 'u':
            out.append(chr(int(text[i + 2:i + 8], 16)))
            i += 8
        elif text[i] == '~':
            out.append(chr(int(text[i + 1:i + 3], 16)))
            i += 3
        else:
            out.append(text[i])
            i += 1
    return ''.join(out)


def walk(box):
    """All boxes below `box`, including those behind absolute placeholders (list markers)."""
    yield box
    inner = getattr(box, '_box', None)
    if inner is not None and type(box).__name__.endswith('Placeholder'):
        yield from walk(inner)
        return
    for child in getattr(box, 'children', None) or ():
        yield from walk(child)


def fingerprint(document):
    from weasyprint.formatting_structure import boxes
    pages = []
    for page in document.pages:
        items = []
        for box in walk(page._page_box):
            text = box.text if isinstance(box, boxes.TextBox) else ''
            items.append((type(box).__name__, box.element_tag, round(box.position_x, 3), round(box.position_y, 3),
                          round(box.width, 3) if box.width != 'auto' else 'auto',
                          round(box.height, 3) if box.height != 'auto' else 'auto', text, painted(box)))
        pages.append(items)
    return pages


def image_identity(image):
    """What an image paints, as far as the comparison of two renderings goes."""
    if image is None:
        return None
    return (type(image).__name__, getattr(image, 'id', None), getattr(image, 'width', None), getattr(image, 'height', None))


def rounded(value):
    if isinstance(value, (int, float)):
        return round(value, 3)
    if isinstance(value, (tuple, list)):
        return tuple(rounded(v) for v in value)
    return str(value)


def painted(box):
    """Backgrounds (every layer: image, size, position, repeat, areas) and border image of a box."""
    background = getattr(box, 'background', None)
    layers = None
    if background:
        layers = tuple((image_identity(layer.image), rounded(layer.size), rounded(layer.position), rounded(layer.repeat),
                        rounded(layer.painting_area), rounded(layer.positioning_area)) for layer in background.layers)
    return layers, image_identity(getattr(box, 'border_image', None)), image_identity(getattr(box, 'mask_border_image', None))


def ref_boxes(document, gen):
    """Per image reference (model order): the boxes it produced, in the model's vocabulary."""
    from weasyprint.formatting_structure import boxes
    by_id = {}
    for page in document.pages:
        for box in walk(page._page_box):
            element = getattr(box, 'element', None)
            if element is not None and element.get('id') and box.element_tag == element.tag:
                by_id.setdefault(element.get('id'), box)
    out = {}
    for i, ref in enumerate(gen.images):
        wrapper = by_id.get(f'w{i}')
        kind = ref['kind']
        inside = list(walk(wrapper))[1:] if wrapper is not None else []
        replaced = any(isinstance(b, boxes.ReplacedBox) for b in inside)
        texts = ''.join(b.text for b in inside if isinstance(b, boxes.TextBox))
        if kind == 'marginbox':
            margin = [b for b in document.pages[0]._page_box.children if getattr(b, 'at_keyword', None) == '@top-left']
            shown = ['replaced'] if any(isinstance(b, boxes.ReplacedBox) for m in margin for b in walk(m)) else []
        elif kind == 'pagebg':
            from weasyprint.images import RasterImage, SVGImage
            background = document.pages[0]._page_box.background
            shown = ['replaced'] if (background and any(isinstance(layer.image, (RasterImage, SVGImage))
                                                      for layer in background.layers)) else []
        elif kind == 'borderimage':
            box = by_id.get(f'bg{i}')
            shown = ['replaced'] if (box is not None and getattr(box, 'border_image', None) is not None) else []
        elif kind == 'maskborder':
            box = by_id.get(f'bg{i}')
            shown = ['replaced'] if (box is not None and getattr(box, 'mask_border_image', None) is not None) else []
        elif kind == 'background':
            box = by_id.get(f'bg{i}')
            from weasyprint.images import RasterImage, SVGImage
            layers = box.background.layers if (box is not None and box.background) else []
            shown = ['replaced'] if any(isinstance(layer.image, (RasterImage, SVGImage)) for layer in layers) else []
        elif kind == 'img':
            shown = ['replaced'] if replaced else ([f'alt={enc(texts)}'] if texts else [])
        elif kind == 'embed':
            shown = ['replaced'] if replaced else []
        elif kind == 'object':
            shown = ['replaced'] if replaced else (['fallback'] if f'FB{i}' in texts else ['?'])
        else:
            shown = ['replaced'] if replaced else []
        out[i] = '[' + ','.join(shown) + ']'
    ordered = fetch_order(gen.images)
    return [out[i] for i in ordered]


def applied_rules(document, gen):
    found = set()
    for page in document.pages:
        for box in walk(page._page_box):
            element = getattr(box, 'element', None)
            if element is not None and box.element_tag == 'i' and (element.get('id') or '').startswith('p'):
                n = int(element.get('id')[1:])
                if box.width == n:
                    found.add(n)
    return sorted(found)


def painted_streams(pdf):
    """What is painted: the content stream of every page and of every form XObject (groups, patterns, SVG images), in
    object order.  Images and fonts are referred to by resource names given in order of first use, so two renderings that
    paint the same things give the same bytes."""
    import pydyf
    out = []
    for page_reference in pdf.page_references:
        page = pdf.objects[int(page_reference.split()[0])]
        contents = page.get('Contents')
        references = [contents] if isinstance(contents, (str, bytes)) else list(contents or [])
        for reference in references:
            text = reference.decode() if isinstance(reference, bytes) else str(reference)
            out.append(('page', stream_bytes(pdf.objects[int(text.split()[0])])))
    for obj in pdf.objects:
        if isinstance(obj, pydyf.Stream) and obj.extra.get('Subtype') == '/Form':
            out.append(('form', stream_bytes(obj)))
    return out


def stream_bytes(obj):
    return b'\n'.join(item if isinstance(item, bytes) else str(item).encode() for item in obj.stream)


def catalog_shape(pdf):
    """The document-level structure of the PDF: the keys of the catalog and, for each name tree of /Names, how many names
    it holds.  A reference that could not be fetched must leave no trace here either (an empty /EmbeddedFiles tree, a
    dangling /AF, …)."""
    def resolve(value):
        text = value.decode() if isinstance(value, bytes) else value
        if isinstance(text, str) and text.endswith(' R'):
            return pdf.objects[int(text.split()[0])]
        return value
    shape = []
    for key in sorted(pdf.catalog):
        value = resolve(pdf.catalog[key])
        if key == 'Names' and hasattr(value, 'items'):
            for name, tree in sorted(value.items()):
                tree = resolve(tree)
                names = tree.get('Names', []) if hasattr(tree, 'get') else []
                shape.append(f'Names/{name}:{len(list(names)) // 2}')
        elif key == 'AF':
            shape.append(f'AF:{len(list(value))}')
        else:
            shape.append(key)
    return shape


CATALOG_DIFF = ('the catalog of the PDF is not the one of the document without the failed references (a name tree or an entry '
                'left behind by a reference that could not be fetched)')


def pdf_attachments(pdf):
    """(embedded metadata attachments, file-attachment annotations) as content ids, from the pydyf document."""
    from props.c20 import attachment_id, md5_index
    by_md5 = md5_index()
    embedded, annots = [], []
    names = pdf.catalog.get('Names')
    if names and 'EmbeddedFiles' in names:
        tree = pdf.objects[int(names['EmbeddedFiles'].split()[0])]
        # the name tree is sorted by file name (pdf/__init__.py generate_pdf); the object numbers give back the order in
        # which write_pdf_attachment embedded the files, which is what the model lists
        for number in sorted(int(reference.split()[0]) for reference in list(tree['Names'])[1::2]):
            embedded.append(attachment_id(pdf, pdf.objects[number], by_md5))
    for page_reference in pdf.page_references:
        page = pdf.objects[int(page_reference.split()[0])]
        for reference in page.get('Annots', []):
            annot = pdf.objects[int(reference.split()[0])]
            if annot.get('Subtype') == '/FileAttachment':
                annots.append(attachment_id(pdf, pdf.objects[int(annot['FS'].split()[0])], by_md5))
    return embedded, annots


def app_font_count():
    from weasyprint.text.ffi import ffi, fontconfig
    _, _, config = docs._env()
    fonts = fontconfig.FcConfigGetFonts(config._config, fontconfig.FcSetApplication)
    return 0 if fonts == ffi.NULL else fonts.nfont


def run_real(gen, drop_failed=False, watch=True):
    """Render and write the document; -> dict of observables."""
    recorder = R.Recorder(gen.fetch_table(drop_failed))
    recorder.check_named = True
    obs = {'render': 'ok', 'write': 'ok', 'fingerprint': None, 'boxes': [], 'rules': [], 'embedded': [], 'annots': [],
           'opens': [], 'net': [], 'installed': 0}
    fonts_before = app_font_count()
    holder = {}
    cache_folder = tempfile.mkdtemp(prefix='c20-diskcache-') if gen.disk_cache else None     # outside gen.tmp: not a named file
    with R.Audit.watch() as events, R.time_limit(CASE_SECONDS):
        try:
            document = docs.html(gen.html(drop_failed), base_url=gen.base, url_fetcher=recorder).render(
                optimize_images=gen.optimize, jpeg_quality=60 if gen.quality else None,
                cache=(Path(cache_folder) / 'c') if cache_folder else None)
        except Exception as exc:  # noqa: BLE001
            document = None
            obs['render'] = obs['write'] = f'err:{type(exc).__name__}'
        obs['installed'] = app_font_count() - fonts_before
        n_render = len(recorder.events)
        if document is not None:
            obs['fingerprint'] = fingerprint(document)
            obs['boxes'] = ref_boxes(document, gen)
            obs['rules'] = applied_rules(document, gen)
            try:
                document.write_pdf(finisher=lambda doc, pdf: holder.setdefault('pdf', pdf), uncompressed_pdf=True,
                                   attachments=gen.api_list(drop_failed) or None)
                obs['embedded'], obs['annots'] = pdf_attachments(holder['pdf'])
                obs['painted'] = painted_streams(holder['pdf'])
                obs['catalog'] = catalog_shape(holder['pdf'])
            except Exception as exc:  # noqa: BLE001
                obs['write'] = f'err:{type(exc).__name__}'
    if cache_folder:
        document = None
        shutil.rmtree(cache_folder, ignore_errors=True)
    prefix = str(gen.tmp)
    obs['opens'] = sorted({path for kind, path in events if kind == 'open' and path.startswith(prefix)})
    obs['net'] = [detail for kind, detail in events if kind == 'net']
    obs['log_render'] = split_log(recorder.events[:n_render])
    obs['log_write'] = split_log(recorder.events[n_render:],
                                 {u for _, items in gen.svg_docs.values() for _, u in items if u})
    obs['events'] = list(recorder.events)
    return obs


def embedded_tree(obs):
    """Number of names of the /EmbeddedFiles name tree of the catalog (`none`: no such tree; `-`: nothing was written)."""
    if obs['write'] != 'ok':
        return '-'
    for entry in obs.get('catalog') or []:
        if entry.startswith('Names/EmbeddedFiles:'):
            return entry.split(':')[1]
    return 'none'


def show_real(gen, obs, absent):
    def log(events):
        return '[' + ','.join(events) + ']'
    render_css = obs['log_render']['css']
    render_img = obs['log_render']['img']
    stray = obs['log_render']['att'] + obs['log_render']['other'] + obs['log_write']['css'] + obs['log_write']['img'] + \
        obs['log_write']['other'] + obs['log_render']['paint']
    opens = '-' if obs['write'] == 'err:FileNotFoundError' else '[' + ','.join(enc(p) for p in obs['opens']) + ']'
    text = (f'css={log(render_css)} rules=[{",".join(map(str, obs["rules"]))}] fonts=[] installed={obs["installed"]} '
            f'img={log(render_img)} boxes=[{",".join(obs["boxes"])}] render={obs["render"]} '
            f'att={log(obs["log_write"]["att"])} paint={log(obs["log_write"]["paint"])} embedded=[{",".join(obs["embedded"])}] tree={embedded_tree(obs)} annots=[{",".join(obs["annots"])}] '
            f'opens={opens} write={obs["write"]} absent={absent}')
    if stray:
        text += f' STRAY-FETCH={log(stray)}'
    if obs['net']:
        text += f' NETWORK={obs["net"][:3]}'
    return text


def section(run):
    docs.quiet()
    R.Audit.install()
    R.cleanup_at_exit(docs._env()[2])
    sec = run.section('documents', 'generated documents referencing 0..12 resources of every kind (link/@import stylesheets, '
                      '@font-face, img/embed/object, background / list-style / content images, rel=attachment links) through file:, '
                      'http:, data: and relative URLs; recording memory fetcher with every failure mode; render + write_pdf under '
                      'sys.addaudithook: fetch log per stage, boxes, applied rules, embedded files, local files opened, outcome, '
                      'layout fingerprint vs the document without the failed references; non-trivial = a reference fails')
    import collections
    stats = collections.defaultdict(collections.Counter)
    tmp = Path(tempfile.mkdtemp(prefix='c20-doc-'))
    try:
        for _ in range(run.n(300, 5000)):
            gen = DocGen(run.rng, tmp).generate()
            line, out, nontrivial = one_document(gen)
            stats['resources-per-document'][min(len(gen.table), 20)] += 1
            for spec in gen.table.values():
                stats['fetch-outcomes'][spec.kind if spec.kind != 'resp' else ('escaping-response' if spec.escaping else spec.content.name.split('@')[0].split('_cut')[0].split('_flip')[0])] += 1
            for stage in ('render', 'write'):
                if f' {stage}=err:' in out:
                    stats['escaping-exception-classes'][out.split(f' {stage}=err:')[1].split(' ')[0]] += 1
                    break
            outcome = [t for t, mark in (('render-escapes', 'render=err'), ('write-escapes', ' write=err'),
                                         ('local-file-read', "opens=['"), ('local-file-missing', 'opens=-'),
                                         ('absent-compared', 'absent=eq')) if mark in out]
            plain = is_plain(gen)
            meta = {'base': gen.base, 'kinds': sorted(gen.kinds), 'plain': plain, 'html': gen.html(),
                    'svg_only_escapes': svg_only_escapes(gen)}
            if plain:
                meta['replay'] = payload(gen, '')['input']
            elif 'absent=DIFF' in out or 'absent=PAINT-DIFF' in out or 'absent=CATALOG-DIFF' in out:
                meta['absent'] = absent_payload(gen)
            sec.add(line, out, meta=meta, nontrivial=nontrivial, tags=sorted(gen.kinds) + outcome + (['plain'] if plain else []))
        sec.flush()
    finally:
        shutil.rmtree(tmp, ignore_errors=True)
    run.extra['document_generator_distribution'] = {k: dict(sorted(v.items(), key=lambda kv: str(kv[0])))
                                                    for k, v in stats.items()}
    matrix_section(run)


# ----------------------------------------------------------------------------------------------------
# the complete matrix: every resource kind x every failure kind, one document each

MATRIX_KINDS = ['link', 'import', 'font', 'img', 'embed', 'object', 'background', 'borderimage', 'maskborder', 'liststyle', 'content',
                'meta', 'annot', 'api', 'svgimage', 'svguse', 'inlinesvgimage']
MATRIX_MODES = ['ok', 'raises', 'empty', 'truncated', 'wrongtype', 'html', 'wrongmime', 'readerror', 'notdict', 'closewarn',
                'truncated-open']


# regression cells for repaired findings (one document each, same observables)
REGRESSION_CELLS = [('svgnohref', 'ok'), ('svgself', 'ok'),
                    # the same image three times (img, img, background) with the `cache` option given as a folder
                    ('imgthrice-diskcache', 'ok'), ('imgthrice-diskcache', 'raises'), ('imgthrice-diskcache', 'html'),
                    ('imgthrice-diskcache', 'truncated')]


def matrix_spec(family, mode):
    """The fetch outcome `mode` for a resource of `family` ('css' | 'image' | 'font' | 'file'); for css -> (spec, raw)."""
    contents = R.bank()
    good = {'image': 'png', 'font': 'otf', 'file': 'css', 'css': 'css'}[family]
    good_mime = {'image': 'image/png', 'font': 'font/otf', 'file': None, 'css': 'text/css'}[family]
    if mode == 'raises':
        return Spec('raises', exc=OSError('connection reset'))
    if mode == 'notdict':
        return Spec('notdict')
    if mode == 'readerror':
        return Spec('resp', content=contents[good], string=False, file_obj=(EOFError('Compressed file ended'), False),
                    mime=good_mime)
    if mode == 'closewarn':
        return Spec('resp', content=contents[good], string=False, file_obj=(None, True), mime=good_mime)
    if mode == 'wrongmime':
        return Spec('resp', content=contents[good], string=True, mime='text/html')
    cut_png = next(n for n in R.damaged_names('image') if n.startswith('png_cut@') and contents[n].pil is None)
    name = {
        'ok': good, 'empty': 'empty', 'html': 'html',
        'truncated': {'image': cut_png, 'font': 'woff2_cut@100', 'file': cut_png, 'css': 'css'}[family],
        'truncated-open': {'image': 'png_cut_tail', 'font': 'otf_cut@60', 'file': 'png_cut_tail', 'css': 'css'}[family],
        'wrongtype': {'image': 'otf', 'font': 'png', 'file': 'otf', 'css': 'png'}[family],
    }[mode]
    return Spec('resp', content=contents[name], string=True, mime=good_mime)


def matrix_document(rng, tmp, kind, mode):
    """One document with one reference of `kind` whose fetch does `mode`."""
    gen = DocGen(rng, tmp).reset()
    gen.base = 'http://doc.test/dir/'
    n = gen.n

    def css_sheet(url):
        spec = matrix_spec('css', mode)
        raw = mode not in ('ok', 'wrongmime', 'closewarn', 'readerror', 'truncated', 'truncated-open')
        items = [] if raw else [{'kind': 'rule', 'n': 7}]
        if mode in ('truncated', 'truncated-open'):
            # a stylesheet cut in the middle of its second rule: the first rule stays
            content = R.Content(6000 + next(_counter), 'css', b'.r7{width:7px}.r9{wid')
            content.xml_ok, content.pil, content.woff, content.woff_ok, content.font_ok = False, None, False, True, False
            spec = Spec('resp', content=content, string=True, mime='text/css')
            raw = True
            items = [{'kind': 'rule', 'n': 7}]
        gen.rule_ids.update({7, 9})
        gen.table[url] = spec
        return {'url': url, 'spec': spec, 'items': items, 'raw': raw}

    if kind == 'link':
        url = f'http://res.test/sheet{n}.css'
        gen.styles.append({'kind': 'link', 'text': url, 'url': url, 'sheet': css_sheet(url)})
    elif kind == 'import':
        url = f'http://res.test/imp{n}.css'
        gen.styles.append({'kind': 'style', 'items': [
            {'kind': 'import', 'text': url, 'url': url, 'mtext': '', 'mwire': ["'all"], 'sheet': css_sheet(url), 'quoted': True},
            {'kind': 'rule', 'n': 3}]})
        gen.rule_ids.add(3)
    elif kind == 'font':
        url = f'http://res.test/font{n}.otf'
        spec = matrix_spec('font', mode)
        gen.table[url] = spec
        gen.styles.append({'kind': 'style', 'items': [
            {'kind': 'fontface', 'key': next(_counter), 'srcs': [{'kind': 'ext', 'text': url, 'url': url, 'spec': spec}]}]})
    elif kind in ('img', 'embed', 'object', 'background', 'borderimage', 'maskborder', 'liststyle', 'content'):
        url = f'http://res.test/pic{n}.png'
        gen.table[url] = matrix_spec('image', mode)
        layers = None
        if kind == 'background':
            # the url() layer first, a gradient layer after it, each with its own position / size / repeat
            layers = {'at': 0, 'others': ['none', 'linear-gradient(red, blue)'],
                      'decls': 'background-position:1px 2px,3px 5px;background-size:4px 3px,5px 5px;'
                               'background-repeat:no-repeat,repeat-x;'}
        gen.images.append({'kind': kind, 'layers': layers, 'text': url, 'url': url, 'alt': 'ALT0' if kind == 'img' else None,
                           'orient': 'from-image', 'forced': None})
    elif kind == 'inlinesvgimage':
        inner = f'http://res.test/inner{n}.png'
        gen.table[inner] = matrix_spec('image', mode)
        data = f'<svg width="12" height="9"><image href="{inner}" width="5" height="5"/></svg>'.encode()
        content = R.Content(7000 + next(_counter), 'svgdoc', data)
        content.xml_ok, content.pil, content.woff, content.woff_ok, content.font_ok = True, None, False, True, False
        gen.svg_docs[f'inline:{n}'] = (content, [('image', inner)])
        gen.images.append({'kind': 'inlinesvg', 'layers': None, 'text': None, 'url': None, 'alt': None, 'orient': 'from-image',
                           'forced': None, 'svg': content})
    elif kind == 'imgthrice-diskcache':
        url = f'http://res.test/pic{n}.png'
        gen.table[url] = matrix_spec('image', mode)
        for which in ('img', 'img', 'background'):
            gen.images.append({'kind': which, 'layers': None, 'text': url, 'url': url, 'alt': 'ALT0' if which == 'img' else None,
                               'orient': 'from-image', 'forced': None})
        gen.disk_cache = True
    elif kind in ('meta', 'annot', 'api'):
        url = f'http://res.test/{"lnk" if kind == "annot" else "att"}{n}.bin'
        gen.table[url] = matrix_spec('file', mode)
        if kind == 'meta':
            gen.metas.append({'text': url, 'url': url})
        elif kind == 'annot':
            gen.annots.append({'text': url, 'url': url})
        else:
            gen.api_attachments.append(url)
    else:
        url = f'http://res.test/pic{n}.svg'
        if kind == 'svgimage':
            inner = f'http://res.test/inner{n}.png'
            gen.table[inner] = matrix_spec('image', mode)
            body, items = f'<image href="{inner}" width="5" height="5"/>', [('image', inner)]
        elif kind == 'svgnohref':
            # regression, repaired finding svg-image-without-href: nothing is fetched for an <image> without href
            body, items = '<image width="5" height="5"/><image href="" width="5" height="5"/>', [('image', None), ('image', None)]
        elif kind == 'svgself':
            # regression, repaired finding svg-self-reference-hang: the cache hands back the SVGImage being drawn
            body = f'<image href="pic{n}.svg" width="5" height="5"/>' * 3
            items = [('image', url)] * 3
        else:
            inner = f'http://res.test/use{n}.svg#a'
            spec = matrix_spec('image', mode)
            if spec.kind == 'resp':
                spec.content = R.bank()['svg'] if mode in ('ok', 'closewarn', 'readerror', 'wrongmime') else spec.content
            gen.table[inner] = spec
            body, items = f'<use xlink:href="{inner}"/>', [('use', inner)]
        data = ('<svg xmlns="http://www.w3.org/2000/svg" xmlns:xlink="http://www.w3.org/1999/xlink" width="12" height="9">'
                + body + '</svg>').encode()
        content = R.Content(7000 + next(_counter), 'svgdoc', data)
        content.xml_ok, content.pil, content.woff, content.woff_ok, content.font_ok = True, None, False, True, False
        gen.svg_docs[url] = (content, items)
        gen.table[url] = Spec('resp', content=content, string=True, mime='image/svg+xml')
        gen.images.append({'kind': 'img', 'text': url, 'url': url, 'alt': 'ALT0', 'orient': 'from-image', 'forced': None})
    gen.kinds.add(f'{kind}/{mode}')
    return gen


def matrix_section(run):
    """Every resource kind x every failure kind: compared with the model, with the document without the reference when
    the failure is a graceful one, and with the known outcome class of the cell."""
    sec = run.section('kind-x-failure-matrix', 'one document per (resource kind, failure kind) cell: ' + ', '.join(MATRIX_KINDS)
                      + ' x ' + ', '.join(MATRIX_MODES) + '; same observables as `documents`; non-trivial = the fetch fails')
    tmp = Path(tempfile.mkdtemp(prefix='c20-matrix-'))
    cells = {}
    try:
        for kind, mode in [(k, m) for k in MATRIX_KINDS for m in MATRIX_MODES] + REGRESSION_CELLS:
            gen = matrix_document(run.rng, tmp, kind, mode)
            line, out, _ = one_document(gen)
            cell = ('completes' if ' write=ok' in out else 'escapes') + ('/absent-eq' if 'absent=eq' in out else '')
            cells[f'{kind}/{mode}'] = cell
            plain = is_plain(gen)
            meta = {'base': gen.base, 'kinds': sorted(gen.kinds), 'plain': plain, 'html': gen.html()}
            if plain:
                meta['replay'] = payload(gen, '')['input']
            elif 'absent=DIFF' in out or 'absent=PAINT-DIFF' in out or 'absent=CATALOG-DIFF' in out:
                meta['absent'] = absent_payload(gen)
            regression = (kind, mode) in REGRESSION_CELLS
            sec.add(line, out, meta=meta, nontrivial=mode != 'ok' or regression,
                    tags=[f'kind:{kind}', f'mode:{mode}', cell] + (['regression-of-repaired-finding'] if regression else []))
    finally:
        shutil.rmtree(tmp, ignore_errors=True)
    run.extra['failure_matrix'] = cells
    # the cells where a failing fetch aborts the rendering (all are instances of the known findings)
    run.extra['failure_matrix_escaping_cells'] = sorted(k for k, v in cells.items() if v.startswith('escapes'))


def one_document(gen):
    obs = run_real(gen)
    absent = '-'
    failed_any = (any(gen.image_failed(r) for r in gen.images) or
                  any(s.kind == 'raises' for s in gen.table.values()))
    if obs['write'] == 'ok':
        other = run_real(gen, drop_failed=True)
        same = (other['fingerprint'] == obs['fingerprint'] and other['embedded'] == obs['embedded'] and
                other['annots'] == obs['annots'] and other['write'] == 'ok')
        absent = 'eq' if same else 'DIFF'
        if same and other.get('painted') != obs.get('painted'):
            absent = 'PAINT-DIFF'      # same boxes, same attachments, but the pages are not painted the same way
        elif same and other.get('catalog') != obs.get('catalog'):
            absent = 'CATALOG-DIFF:' + ','.join(sorted(set(obs.get('catalog') or []) ^ set(other.get('catalog') or [])))
    return sx.line('doc', gen.wire()), show_real(gen, obs, absent), failed_any


# ----------------------------------------------------------------------------------------------------
# the property stated directly on the implementation (used to judge a disagreement and to search)

class PlainFetcher:
    """A recording fetcher built from a JSON table (replay files)."""

    def __init__(self, table_json):
        self.recorder = R.Recorder({url: Spec.from_json(spec) for url, spec in table_json.items()})


def oracle(html, base, table, tmp_prefix, expect, options=None):
    """C20 on one document.  `table`: url -> Spec (only absorbable failure modes); `expect`:
    {'urls': absolute URLs the document names, 'replaced_ids': wrapper ids whose image must be shown,
     'alt': {wrapper id: alt text expected because the image fails}, 'rules': rule ids that must apply,
     'embedded': n metadata attachments that must be embedded, 'absent_html': the document without the failed references}.
    -> text of the violated clause, or None."""
    from weasyprint.formatting_structure import boxes
    docs._env()     # the harness's own UA stylesheet and test font are loaded outside the audit window
    recorder = R.Recorder(dict(table))
    holder = {}
    with R.Audit.watch() as events, R.time_limit(CASE_SECONDS):
        try:
            options = dict(options or {})
            attachments = options.pop('attachments', None)
            document = docs.html(html, base_url=base, url_fetcher=recorder).render(**options)
            document.write_pdf(finisher=lambda doc, pdf: holder.setdefault('pdf', pdf), uncompressed_pdf=True,
                               attachments=attachments or None)
        except Exception as exc:  # noqa: BLE001
            return (f'rendering raised {type(exc).__name__}: {str(exc)[:120]} although every fetch either raised at the '
                    f'fetcher or returned (possibly empty / truncated / wrong-type) bytes')
    unclosed = [fo for fo in recorder.file_objects if not fo.closed]
    if unclosed:
        return f'{len(unclosed)} file object(s) returned by the fetcher were never closed'
    net = [d for k, d in events if k == 'net']
    if net:
        return f'network access behind the fetcher: {net[:3]}'
    opened = sorted({p for k, p in events if k == 'open' and tmp_prefix and p.startswith(tmp_prefix)})
    if opened:
        return f'file named by the document opened behind the fetcher (during render / write_pdf): {opened[:3]}'
    called = [decode(e[5:]) for e in recorder.events if e.startswith('call=')]
    for url in called:
        if url not in expect['urls']:
            return f'the fetcher was called with {url!r}, which is not the absolute URL of any reference of the document'
    for url in expect.get('must_fetch', ()):
        if url not in called:
            return f'the resource {url!r} named by the document was never requested from the fetcher'
    by_id = {}
    for page in document.pages:
        for box in walk(page._page_box):
            element = getattr(box, 'element', None)
            if element is not None and element.get('id') and box.element_tag == element.tag:
                by_id.setdefault(element.get('id'), box)
    for wid in expect.get('replaced_ids', ()):
        wrapper = by_id.get(wid)
        inside = list(walk(wrapper))[1:] if wrapper is not None else []
        if not any(isinstance(b, boxes.ReplacedBox) for b in inside):
            return f'the image of #{wid} was served correctly by the fetcher but is not rendered'
    for wid, alt in expect.get('alt', {}).items():
        wrapper = by_id.get(wid)
        inside = list(walk(wrapper))[1:] if wrapper is not None else []
        if any(isinstance(b, boxes.ReplacedBox) for b in inside):
            return f'the image of #{wid} failed to load but a replaced box is rendered'
        texts = ''.join(b.text for b in inside if isinstance(b, boxes.TextBox))
        if (alt or '') != texts:
            return f'the image of #{wid} failed to load: expected its alternative text {alt!r}, got {texts!r}'
    applied = set()
    for n in expect.get('rules_all', ()):
        box = by_id.get(f'p{n}')
        if box is not None and box.width == n:
            applied.add(n)
    for n in expect.get('rules', ()):
        if n not in applied:
            return f'rule .r{n} of a correctly served stylesheet is not applied'
    for n in expect.get('rules_absent', ()):
        if n in applied:
            return f'rule .r{n} appears only in stylesheets whose fetch failed, yet it is applied'
    embedded, annots = pdf_attachments(holder['pdf'])
    if 'embedded' in expect and sorted(embedded) != sorted(expect['embedded']):
        return f'embedded attachments {embedded} differ from the correctly served ones {expect["embedded"]}'
    if expect.get('absent_html') is not None:
        try:
            other = docs.html(expect['absent_html'], base_url=base, url_fetcher=R.Recorder(dict(expect.get('absent_table', table)))).render(
                **options)
        except Exception as exc:  # noqa: BLE001
            return f'the document without the failed references raised {type(exc).__name__}'
        if fingerprint(other) != fingerprint(document):
            return 'the layout differs from the layout of the same document without the failed references'
        other_holder = {}
        try:
            other.write_pdf(finisher=lambda doc, pdf: other_holder.setdefault('pdf', pdf), uncompressed_pdf=True,
                            attachments=expect.get('absent_attachments', attachments) or None)
        except Exception as exc:  # noqa: BLE001
            return f'writing the document without the failed references raised {type(exc).__name__}'
        if painted_streams(other_holder['pdf']) != painted_streams(holder['pdf']):
            return PAINT_DIFF
        if catalog_shape(other_holder['pdf']) != catalog_shape(holder['pdf']):
            return CATALOG_DIFF
    return None


def plain_document(rng, tmp):
    """A document whose fetch failures are all plain failure modes (fetcher raises; empty / truncated / wrong-type /
    HTML data; wrong MIME type), no file: locations (no LazyLocalImage): the property must hold on it."""
    for _ in range(50):
        gen = DocGen(rng, tmp)
        gen.base = rng.choice(['http://doc.test/dir/', 'https://doc.test/a/b/'])
        gen.generate()
        if is_plain(gen):
            return gen
    return None


def svg_only_escapes(gen):
    """Some fetch outcome is of the unabsorbed kind, but only for resources referenced from inside SVG images — whose
    drawing absorbs every exception: the document must still render and be written."""
    escaping = [url for url, spec in gen.table.items() if spec.escaping]
    return bool(escaping) and all(category(url) == 'paint' for url in escaping)


def is_plain(gen):
    """Only plain failure modes and nothing touching a known finding: the property must hold on this document."""
    for url, spec in gen.table.items():
        if spec.escaping or (spec.kind == 'resp' and spec.redirected and category(url) in ('img', 'paint')):
            return False
        if url.startswith('file:') and category(url) in ('img', 'paint'):
            return False
        if spec.kind == 'resp' and spec.content.name == 'xhtml':
            return False
    for _, items in gen.svg_docs.values():
        for kind, url in items:
            if kind == 'use' and gen.table[url].kind == 'resp' and gen.table[url].file_obj is not None:
                return False        # known finding svg-use-bypasses-fetch (the file object is never closed)
    return True


def reachable_rules(gen):
    """(rule ids that must apply, rule ids that occur only in failed / unreached places) — stated from the
    document's structure: a sheet counts when its fetch delivers text/css (or anything, for @import)."""
    good, seen = set(), set()

    def walk_items(items, active, ignore):
        for item in items:
            kind = item['kind']
            if kind == 'rule':
                seen.add(item['n'])
                if active:
                    good.add(item['n'])
                ignore = True
            elif kind == 'import':
                spec = item['sheet']['spec']
                ok = active and not ignore and item['mwire'] != 'none' and item['mwire'] != ["'screen"] and spec.delivers
                walk_items(item['sheet']['items'], ok, False)
            elif kind == 'media':
                if item['mwire'] == 'none':
                    walk_items(item['items'], False, True)
                    continue
                ok = active and item['mwire'] != ["'screen"]
                walk_items(item['items'], ok, True)
                ignore = True
            else:
                ignore = True
    for style in gen.styles:
        if style['kind'] == 'style':
            walk_items(style['items'], True, False)
        else:
            spec = style['sheet']['spec']
            ok = spec.delivers and spec.has_mime and spec.mime == 'text/css'
            walk_items(style['sheet']['items'], ok, False)
    return good, seen - good


def expectations(gen):
    urls = set(gen.table) | {r['url'] for r in gen.images if r['url']}
    replaced, alt = [], {}
    for i, ref in enumerate(gen.images):
        if not ref['url'] or ref['kind'] in LATE or ref['kind'] in PAGE_KINDS:
            continue
        spec = gen.table[ref['url']]
        loads = spec.delivers and spec.content.image_loads
        if loads:
            replaced.append(f'w{i}')
        elif ref['kind'] == 'img':
            alt[f'w{i}'] = ref['alt']
    good, absent = reachable_rules(gen)
    embedded = [str(gen.table[u].content.id) for u in [m['url'] for m in gen.metas] + gen.api_attachments
                if gen.table[u].delivers]
    must = [r['url'] for r in gen.images if r['url']] + [m['url'] for m in gen.metas] + [a['url'] for a in gen.annots] + \
        [s['url'] for s in gen.styles if s['kind'] == 'link'] + gen.api_attachments
    return {'urls': urls, 'must_fetch': must, 'replaced_ids': replaced, 'alt': alt, 'rules': sorted(good),
            'rules_absent': sorted(absent), 'rules_all': sorted(gen.rule_ids), 'embedded': embedded,
            'absent_html': gen.html(True), 'absent_table': gen.fetch_table(True), 'absent_attachments': gen.api_list(True)}


def check_plain(gen):
    options = {'optimize_images': gen.optimize, 'jpeg_quality': 60 if gen.quality else None,
               'attachments': gen.api_list()}
    return oracle(gen.html(), gen.base, gen.fetch_table(), str(gen.tmp), expectations(gen), options)


def payload(gen, what):
    return {'what': what, 'input': {'kind': 'document', 'html': gen.html(), 'base': gen.base,
                                    'table': {u: s.json() for u, s in gen.fetch_table().items()},
                                    'absent_html': gen.html(True),
                                    'absent_table': {u: s.json() for u, s in gen.fetch_table(True).items()},
                                    'expect': {k: (sorted(v) if isinstance(v, set) else v)
                                               for k, v in expectations(gen).items() if k not in ('absent_html', 'absent_table')},
                                    'options': {'optimize_images': gen.optimize, 'jpeg_quality': 60 if gen.quality else None,
                                                'attachments': gen.api_list()}},
            'signature': 'doc:' + what[:60]}


PAINT_DIFF = ('the pages are not painted like those of the document without the failed references: same boxes, same '
              'attachments, different content streams')


def absent_payload(gen):
    """What is needed to render a document and the document without its failed references again (replay files)."""
    return {'html': gen.html(), 'absent_html': gen.html(True), 'base': gen.base,
            'table': {u: s.json() for u, s in gen.fetch_table().items()},
            'absent_table': {u: s.json() for u, s in gen.fetch_table(True).items()},
            'options': {'optimize_images': gen.optimize, 'jpeg_quality': 60 if gen.quality else None},
            'attachments': gen.api_list(), 'absent_attachments': gen.api_list(True)}


def absent_check(inp):
    """Render and write both variants again; -> what differs, or None."""
    docs.quiet()
    results = []
    for html, table, attachments in ((inp['html'], inp['table'], inp['attachments']),
                                     (inp['absent_html'], inp['absent_table'], inp['absent_attachments'])):
        recorder = R.Recorder({u: Spec.from_json(s) for u, s in table.items()})
        holder = {}
        try:
            with R.time_limit(CASE_SECONDS):
                document = docs.html(html, base_url=inp['base'], url_fetcher=recorder).render(**inp['options'])
                document.write_pdf(finisher=lambda doc, pdf: holder.setdefault('pdf', pdf), uncompressed_pdf=True,
                                   attachments=attachments or None)
        except Exception as exc:  # noqa: BLE001
            results.append(f'err:{type(exc).__name__}')
            continue
        results.append((fingerprint(document), pdf_attachments(holder['pdf']), painted_streams(holder['pdf']),
                        catalog_shape(holder['pdf'])))
    if isinstance(results[0], str) or isinstance(results[1], str):
        return None      # this input no longer reaches the comparison
    if results[0][:2] != results[1][:2]:
        return 'the result differs from the result of the document without the failed references'
    if results[0][2] != results[1][2]:
        return PAINT_DIFF
    if results[0][3] != results[1][3]:
        return CATALOG_DIFF + ': ' + ', '.join(sorted(set(results[0][3]) ^ set(results[1][3])))
    return None


def search(run, failures):
    """Generated documents with plain failure modes only, judged by the oracle."""
    import time
    docs.quiet()
    R.Audit.install()
    found = []
    tmp = Path(tempfile.mkdtemp(prefix='c20-search-'))
    budget = run.n(45, 400)
    start = time.time()
    try:
        # first the fixed probes (one per resource kind and failure mode), then random documents
        for what, item in fixed_probes(tmp):
            run.search_stats['evaluations'] += 1
            if what:
                found.append(item)
                if len(found) >= 3:
                    return found
        while time.time() - start < budget and len(found) < 3:
            gen = plain_document(run.rng, tmp)
            if gen is None:
                break
            run.search_stats['evaluations'] += 1
            what = check_plain(gen)
            if what:
                found.append(payload(gen, what))
    finally:
        shutil.rmtree(tmp, ignore_errors=True)
    return found


def fixed_probes(tmp):
    """Small hand-made documents: every resource kind x {served correctly, fetcher raises, HTML instead}."""
    contents = R.bank()
    base = 'http://doc.test/dir/'
    good_png = Spec('resp', content=contents['png'], string=True, mime='image/png')
    raises = Spec('raises', exc=OSError('connection reset'))
    html_instead = Spec('resp', content=contents['html'], string=True, mime='text/html')
    empty = Spec('resp', content=contents['empty'], string=True, mime='image/png')
    css = R.Content(9001, 'css', b'.r7{width:7px}')
    css.xml_ok, css.pil, css.woff, css.woff_ok, css.font_ok = False, None, False, True, False
    good_css = Spec('resp', content=css, string=True, mime='text/css')
    head = '<style>@page{size:400px 1000px;margin:0}body{margin:0;font-size:10px;line-height:10px}i{display:block;height:1px}</style>'
    cases = []
    for name, spec in (('ok', good_png), ('raises', raises), ('html', html_instead), ('empty', empty)):
        loads = name == 'ok'
        html = f'<html><head>{head}</head><body><div id=w0><img src="a.png" alt="ALT"></div></body></html>'
        absent = html if loads else html.replace(' src="a.png"', '')
        cases.append((f'img-{name}', html, {base + 'a.png': spec},
                      {'urls': {base + 'a.png'}, 'must_fetch': [base + 'a.png'], 'replaced_ids': ['w0'] if loads else [],
                       'alt': {} if loads else {'w0': 'ALT'}, 'absent_html': absent}))
        html = f'<html><head>{head}</head><body><div id=w0><div style="background-image:url(a.png);width:9px;height:9px"></div></div></body></html>'
        cases.append((f'background-{name}', html, {base + 'a.png': spec},
                      {'urls': {base + 'a.png'}, 'must_fetch': [base + 'a.png'],
                       'absent_html': html if loads else html.replace('background-image:url(a.png);', '')}))
    for name, spec in (('ok', good_css), ('raises', raises), ('html', html_instead)):
        loads = name == 'ok'
        html = f'<html><head>{head}<link rel=stylesheet href="s.css"></head><body><i class=r7 id=p7></i></body></html>'
        cases.append((f'link-{name}', html, {base + 's.css': spec},
                      {'urls': {base + 's.css'}, 'must_fetch': [base + 's.css'], 'rules_all': [7],
                       'rules': [7] if loads else [], 'rules_absent': [] if loads else [7],
                       'absent_html': html if loads else html.replace('<link rel=stylesheet href="s.css">', '')}))
        html = f'<html><head>{head}<style>@import "s.css";</style></head><body><i class=r7 id=p7></i></body></html>'
        import_ok = name != 'raises'     # @import does not check the MIME type; HTML parses to no rule
        cases.append((f'import-{name}', html, {base + 's.css': spec},
                      {'urls': {base + 's.css'}, 'must_fetch': [base + 's.css'], 'rules_all': [7],
                       'rules': [7] if loads else [], 'rules_absent': [] if loads else [7],
                       'absent_html': html if import_ok else html.replace('@import "s.css";', '')}))
    for name, spec in (('ok', Spec('resp', content=contents['css'], string=True, mime=None)), ('raises', raises)):
        loads = name == 'ok'
        html = f'<html><head>{head}<link rel=attachment href="a.bin"></head><body><p><a rel=attachment href="b.bin">x</a></p></body></html>'
        cases.append((f'attachment-{name}', html, {base + 'a.bin': spec, base + 'b.bin': spec},
                      {'urls': {base + 'a.bin', base + 'b.bin'}, 'must_fetch': [base + 'a.bin', base + 'b.bin'],
                       'embedded': [str(contents['css'].id)] if loads else []}))
    for name, spec in (('ok', Spec('resp', content=contents['otf'], string=True, mime=None)), ('raises', raises),
                       ('html', html_instead)):
        html = (f'<html><head>{head}<style>@font-face{{font-family:c20probe{next(_counter)};src:url(f.otf)}}</style></head>'
                f'<body><p>text</p></body></html>')
        cases.append((f'font-{name}', html, {base + 'f.otf': spec},
                      {'urls': {base + 'f.otf'}, 'must_fetch': [base + 'f.otf']}))
    # regression for the repaired finding font-data-then-local-typeerror: a fetched but unusable font, then local()
    html = (f'<html><head>{head}<style>@font-face{{font-family:c20probe{next(_counter)};src:url(f.otf),local("No Such Font C20")}}'
            f'</style></head><body><p>text</p></body></html>')
    cases.append(('font-data-then-local', html, {base + 'f.otf': html_instead},
                  {'urls': {base + 'f.otf'}, 'must_fetch': [base + 'f.otf']}))
    for name, probe in REGRESSION_PROBES.items():
        try:
            failing = probe()
        except Exception as exc:  # noqa: BLE001
            failing = f'{type(exc).__name__}: {exc}'
        what = f'{name}: the input of this repaired finding fails again ({probe.__doc__.split(":")[0].strip()})' if failing else None
        yield what, ({'what': what, 'signature': f'regression:{name}', 'input': {'kind': 'regression', 'id': name}} if what else None)
    for name, html, table, expect in cases:
        what = oracle(html, base, table, str(tmp), expect)
        item = None
        if what:
            item = {'what': f'{name}: {what}', 'signature': f'probe:{name}',
                    'input': {'kind': 'document', 'html': html, 'base': base,
                              'table': {u: s.json() for u, s in table.items()},
                              'absent_html': expect.get('absent_html'),
                              'expect': {k: (sorted(v) if isinstance(v, set) else v) for k, v in expect.items()
                                         if k not in ('absent_html', 'absent_table')}, 'options': {}}}
        yield what, item


def replay(data):
    docs.quiet()
    inp = data.get('input', {})
    if inp.get('kind') == 'regression':
        return 'the input of the repaired finding fails again' if REGRESSION_PROBES[inp['id']]() else None
    if inp.get('kind') == 'document':
        table = {u: Spec.from_json(s) for u, s in inp['table'].items()}
        expect = dict(inp['expect'])
        expect['urls'] = set(expect.get('urls', ()))
        expect['absent_html'] = inp.get('absent_html')
        if inp.get('absent_table'):
            expect['absent_table'] = {u: Spec.from_json(s) for u, s in inp['absent_table'].items()}
        return oracle(inp['html'], inp['base'], table, '/tmp/c20-', expect, inp.get('options') or {})
    if 'section' in inp:        # a judged function-level disagreement: re-run the judge on the recorded case
        from props import c20
        return c20.PROP.rejudge(inp)
    return None


# ----------------------------------------------------------------------------------------------------
# known findings replayed on the implementation

def _render(html, fetcher, write=True):
    document = docs.html(html, base_url='http://doc.test/', url_fetcher=fetcher).render()
    return document, (document.write_pdf() if write else None)


def finding_lazy_local():
    """F19: a file: image served from memory is re-read from the local path when the PDF is written."""
    png = R.bank()['png'].data
    with R.Audit.watch() as events:
        try:
            _render('<img src="file:///nonexistent-c20/a.png">', lambda url: {'string': png, 'mime_type': 'image/png'})
        except FileNotFoundError:
            return True
    return any(k == 'open' and p.startswith('/nonexistent-c20/') for k, p in events)


def finding_read_error():
    class Broken:
        def read(self, *args):
            raise EOFError('Compressed file ended before the end-of-stream marker was reached')

        def close(self):
            pass
    for html in ('<img src="http://x.test/a.png" alt=A>', '<link rel=stylesheet href="http://x.test/a.css">x'):
        try:
            _render(html, lambda url: {'file_obj': Broken(), 'mime_type': 'text/css'}, write=False)
            return False
        except EOFError:
            pass
    return True


def finding_xml_image():
    from weasyprint.formatting_structure import boxes
    document, _ = _render('<img src="http://x.test/a.png" alt="ALT">',
                          lambda url: {'string': R.XHTML, 'mime_type': 'text/html'}, write=False)
    found = [b for b in walk(document.pages[0]._page_box)]
    return (any(isinstance(b, boxes.ReplacedBox) for b in found) and
            not any(isinstance(b, boxes.TextBox) and b.text == 'ALT' for b in found))


def finding_svg_none():
    """<svg><image/></svg>: the caller's fetcher is called with None (repaired by 799e002; kept as a regression probe)."""
    calls = []

    def fetcher(url):
        calls.append(url)
        if url is None:
            raise ValueError('not a URL')
        return {'string': b'<svg xmlns="http://www.w3.org/2000/svg" width="9" height="9"><image width="5" height="5"/></svg>',
                'mime_type': 'image/svg+xml'}
    _render('<img src="http://x.test/a.svg">', fetcher)
    return None in calls


def finding_svg_use():
    """External <use>: fetcher called directly, the returned file object is never closed."""
    state = {'closed': 0, 'opened': 0}

    class Stream:
        def __init__(self, data):
            import io
            self.buffer = io.BytesIO(data)
            state['opened'] += 1

        def read(self, *args):
            return self.buffer.read(*args)

        def close(self):
            state['closed'] += 1
    svg = (b'<svg xmlns="http://www.w3.org/2000/svg" xmlns:xlink="http://www.w3.org/1999/xlink" width="9" height="9">'
           b'<use xlink:href="other.svg#a"/></svg>')

    def fetcher(url):
        if 'other' in url:
            return {'file_obj': Stream(R.SVG_OK), 'mime_type': 'image/svg+xml'}
        return {'string': svg, 'mime_type': 'image/svg+xml'}
    _render('<img src="http://x.test/a.svg">', fetcher)
    return state['opened'] > state['closed']


def finding_svg_self_reference():
    """An SVG image with two <image> elements pointing at itself: each level of the recursion ended with a RecursionError
    swallowed by SVGImage.draw, and the drawing went on with the next element: exponential time (repaired by 9598d29;
    kept as a regression probe)."""
    svg = ('<svg xmlns="http://www.w3.org/2000/svg" width="20" height="20">'
           + '<image href="a.svg" width="9" height="9"/>' * 2 + '</svg>').encode()
    try:
        with R.time_limit(6):
            _render('<img src="http://x.test/a.svg">', lambda url: {'string': svg, 'mime_type': 'image/svg+xml'})
    except R.HarnessTimeout:
        return True
    return False


def finding_import_cycle():
    try:
        _render('<link rel=stylesheet href="http://x.test/a.css">x',
                lambda url: {'string': b'@import "a.css"; p{color:red}', 'mime_type': 'text/css'}, write=False)
    except RecursionError:
        return True
    return False


def finding_replays():
    docs.quiet()
    return {'lazy-local-image-reread': finding_lazy_local, 'read-error-not-funnelled': finding_read_error,
            'xml-accepted-as-image': finding_xml_image,
            'svg-use-bypasses-fetch': finding_svg_use, 'import-cycle-recursion': finding_import_cycle}


def finding_unwritable_image():
    """A CMYK TIFF served for an <img>: Pillow opens it and cannot write it as PNG (repaired by d7dc388)."""
    from weasyprint.formatting_structure import boxes
    data = R.bank()['tiff_cmyk'].data
    try:
        document, _ = _render('<img src="http://x.test/a.tif" alt="ALT">', lambda url: {'string': data, 'mime_type': 'image/tiff'})
    except Exception:  # noqa: BLE001
        return True
    return not any(isinstance(b, boxes.TextBox) and b.text == 'ALT' for b in walk(document.pages[0]._page_box))


# repaired findings: the committed inputs, run by `fixed_probes` (a `fixed:` entry suppresses nothing)
REGRESSION_PROBES = {'svg-image-without-href': finding_svg_none, 'svg-self-reference-hang': finding_svg_self_reference,
                     'raster-reencode-error-escapes': finding_unwritable_image}
