"""C14: crop and cross marks — the SVG that the real `draw.draw_background` builds for a page with a bleed and
`marks`, captured at the `SVGImage(tree, …)` call (function level, on a stub background) and from rendered
documents painted by the real pipeline (document level).  Every `<path>` / `<circle>` is reduced to its end points /
centre and radius by applying its `transform` list with the SVG semantics (exact Fractions read from the attribute
text), and compared with `Model/PageMarks.lean`.  The clause of css-page-3 (`marks: crop`: marks that show where
the sheet is to be cut — outside the page box, on the extension of its edges, inside the bleed area) is stated
directly in `judge`.  Every random choice comes from the `rng` passed in."""
from fractions import Fraction as F
import re
import types

from harness import docs
from vlib import sx


# ---- SVG reading --------------------------------------------------------------------------------------------

NUM = r'-?(?:\d+\.?\d*(?:e-?\d+)?|\.\d+)'


def parse_transform(text):
    out = []
    for name, args in re.findall(r'(\w+)\s*\(([^)]*)\)', text or ''):
        vals = [F(v) for v in re.findall(NUM, args)]
        if name == 'translate':
            out.append(('translate', vals[0], vals[1] if len(vals) > 1 else F(0)))
        elif name == 'scale':
            out.append(('scale', vals[0], vals[1] if len(vals) > 1 else vals[0]))
        else:
            raise ValueError(f'unexpected transform {name}')
    return out


def apply_chain(chain, point):
    x, y = point
    for kind, a, b in reversed(chain):          # transform="A B C": p -> A(B(C p))
        if kind == 'translate':
            x, y = x + a, y + b
        else:
            x, y = x * a, y * b
    return x, y


def parse_path(d):
    """`M x,y h dx` / `M x,y v dy` sub-paths -> [(x, y, dx, dy)]"""
    segs = []
    for mx, my, cmd, length in re.findall(rf'M\s*({NUM})\s*,\s*({NUM})\s*([hv])\s*({NUM})', d):
        length = F(length)
        segs.append((F(mx), F(my), length if cmd == 'h' else F(0), length if cmd == 'v' else F(0)))
    rest = re.sub(rf'M\s*{NUM}\s*,\s*{NUM}\s*[hv]\s*{NUM}', '', d).strip()
    if rest or not segs:
        raise ValueError(f'unexpected path data {d!r}')
    return segs


def read_marks(tree):
    """The captured ElementTree of the marks SVG -> (segments, circles) in painting-area coordinates."""
    segs, circs = [], []
    for el in tree:
        tag = el.tag.split('}')[-1]
        chain = parse_transform(el.get('transform'))
        if tag == 'path':
            for x, y, dx, dy in parse_path(el.get('d')):
                p, q = apply_chain(chain, (x, y)), apply_chain(chain, (x + dx, y + dy))
                segs.append((p[0], p[1], q[0], q[1]))
        elif tag == 'circle':
            c = apply_chain(chain, (F(0), F(0)))
            factor = F(1)
            for kind, a, _ in chain:
                if kind == 'scale':
                    factor *= abs(a)
            circs.append((c[0], c[1], F(el.get('r')) * factor))
        else:
            raise ValueError(f'unexpected element {tag}')
    return segs, circs


def show(segs, circs):
    return ('(' + ' '.join('(' + ' '.join(sx.atom(v) for v in s) + ')' for s in segs) + ') (' +
            ' '.join('(' + ' '.join(sx.atom(v) for v in c) + ')' for c in circs) + ')')


# ---- implementation ----------------------------------------------------------------------------------------

class _Capture:
    """Replace `draw.SVGImage` / `draw.draw_background_image` for the duration: keep the marks tree, paint nothing."""

    def __enter__(self):
        from weasyprint import draw
        self.draw, self.trees = draw, []
        self.saved = draw.SVGImage, draw.draw_background_image

        def fake_image(tree, *args, **kwargs):
            self.trees.append(tree)
            return types.SimpleNamespace(tree=tree)
        draw.SVGImage = fake_image
        draw.draw_background_image = lambda *a, **k: None
        return self

    def __exit__(self, *exc):
        self.draw.SVGImage, self.draw.draw_background_image = self.saved


def impl_marks(marks, width, height, bleed):
    """The real `draw_background` on a stub background whose painting area is the bleed area; floats as in a real
    render (dyadic values: their text form is exact)."""
    from weasyprint import draw
    t, r, b, l = [float(v) for v in bleed]
    area = (-l, -t, float(width), float(height))
    bg = types.SimpleNamespace(
        color=types.SimpleNamespace(alpha=0), image_rendering='auto',
        layers=[types.SimpleNamespace(painting_area=area, clipped_boxes=[])])
    stream = types.SimpleNamespace(push_state=lambda: None, pop_state=lambda: None)
    with _Capture() as cap:
        draw.draw_background(stream, bg, clip_box=False, bleed={'top': t, 'right': r, 'bottom': b, 'left': l},
                             marks=tuple(marks))
    if not cap.trees:
        return '() ()'
    assert len(cap.trees) == 1
    return show(*read_marks(cap.trees[0]))


def doc_html(size, bleed, marks):
    w, h = size
    t, r, b, l = bleed

    def px(v):
        return (str(v.numerator) if v.denominator == 1 else repr(float(v))) + 'px'
    return (f'<style>@page {{ size: {px(w)} {px(h)}; margin: 0; marks: {" ".join(marks) or "none"}; '
            f'bleed-top: {px(t)}; bleed-right: {px(r)}; bleed-bottom: {px(b)}; bleed-left: {px(l)} }}</style><body>')


def impl_doc_marks(size, bleed, marks):
    """A document painted by the real pipeline (`Page.paint` on a recording-free stub is not possible: the real
    `generate_pdf` is run, only the SVG image construction and the image painting are intercepted)."""
    import weasyprint
    from weasyprint.pdf import generate_pdf
    document = docs.render(doc_html(size, bleed, marks))
    with _Capture() as cap:
        generate_pdf(document, None, 1, **weasyprint.DEFAULT_OPTIONS)
    if not cap.trees:
        return '() ()'
    return show(*read_marks(cap.trees[0]))


# ---- correspondence ----------------------------------------------------------------------------------------

MARKS = [('crop',), ('cross',), ('crop', 'cross'), ('cross', 'crop'), ()]


def dyadic(rng, top):
    den = rng.choice([1, 1, 2, 4])
    return F(rng.randrange(0, top * den + 1), den)


def correspondence(prop, run):
    rng = run.rng
    sec = run.section(
        'page-marks', 'the SVG of crop / cross marks built by the real draw_background (captured at SVGImage) for random '
        'bleeds and mark sets, every path / circle reduced to end points / centre + radius through its transform list, '
        'vs the model; function level (stub background) and rendered documents through generate_pdf; '
        'non-trivial = marks not empty and some bleed')
    for i in range(run.n(400, 5000)):
        marks = MARKS[i % len(MARKS)]
        bleed = [F(0) if rng.random() < 0.15 else dyadic(rng, 40) for _ in range(4)]
        if rng.random() < 0.3:
            bleed = [bleed[0]] * 4
        pw, ph = dyadic(rng, 400) + 20, dyadic(rng, 400) + 20
        width, height = pw + bleed[1] + bleed[3], ph + bleed[0] + bleed[2]
        out = docs.outcome(lambda: impl_marks(marks, width, height, bleed))
        sec.add(sx.line('marks', 'crop' in marks, 'cross' in marks, width, height, bleed), out,
                meta={'fn': 'marks', 'args': [list(marks), width, height, bleed]},
                nontrivial=bool(marks) and any(bleed), tags=['+'.join(marks) or 'none', 'function'])
    for i in range(run.n(25, 300)):
        marks = MARKS[i % 4]
        bleed = [dyadic(rng, 30) for _ in range(4)]
        size = (dyadic(rng, 300) + 40, dyadic(rng, 300) + 40)
        width, height = size[0] + bleed[1] + bleed[3], size[1] + bleed[0] + bleed[2]
        out = docs.outcome(lambda: impl_doc_marks(size, bleed, marks))
        sec.add(sx.line('marks', 'crop' in marks, 'cross' in marks, width, height, bleed), out,
                meta={'fn': 'docmarks', 'args': [list(size), bleed, list(marks)], 'html': doc_html(size, bleed, marks)},
                nontrivial=bool(marks) and any(bleed), tags=['+'.join(marks), 'document'])


# ---- the clause -----------------------------------------------------------------------------------------------

def judge_marks(marks, width, height, bleed, impl):
    """css-page-3 §6 `marks`: crop marks indicate where the page should be cut: each lies on the (extended) line of one
    edge of the page box, outside the page box, inside the bleed area; two per corner (one horizontal, one vertical),
    so eight in all, each edge line carrying one at either end.  Cross marks: one on each side, in the bleed strip of
    that side.  Nothing is drawn without marks."""
    if impl.startswith('err:'):
        return f'drawing the marks raised {impl}'
    groups = sx.loads_line(impl)
    segs = [[F(v) for v in s] for s in groups[0]]
    circs = [[F(v) for v in c] for c in groups[1]]
    t, r, b, l = [F(v) for v in bleed]
    width, height = F(width), F(height)
    x0, x1, y0, y1 = l, width - r, t, height - b                  # the page box
    if not marks:
        return None if not segs and not circs else f'marks: none, but {len(segs)} lines / {len(circs)} circles drawn'
    crop = segs[:8] if 'crop' in marks else []
    if 'crop' in marks:
        if len(segs) < 8:
            return f'marks: crop: {len(segs)} mark lines drawn, 8 expected (two per corner)'
        seen = set()
        for sx0, sy0, sx1, sy1 in crop:
            lo_x, hi_x, lo_y, hi_y = min(sx0, sx1), max(sx0, sx1), min(sy0, sy1), max(sy0, sy1)
            if not (0 <= lo_x and hi_x <= width and 0 <= lo_y and hi_y <= height):
                return f'crop mark {(sx0, sy0, sx1, sy1)} leaves the bleed area {width} x {height}'
            if sy0 == sy1:            # horizontal: on the line of the top or bottom edge, left or right of the page box
                edge = 'top' if sy0 == y0 else ('bottom' if sy0 == y1 else None)
                side = 'left' if hi_x <= x0 else ('right' if lo_x >= x1 else None)
            elif sx0 == sx1:          # vertical: on the line of the left or right edge, above or below the page box
                edge = 'left' if sx0 == x0 else ('right' if sx0 == x1 else None)
                side = 'above' if hi_y <= y0 else ('below' if lo_y >= y1 else None)
            else:
                return f'crop mark {(sx0, sy0, sx1, sy1)} is neither horizontal nor vertical'
            if edge is None or side is None:
                return (f'crop mark {tuple(str(v) for v in (sx0, sy0, sx1, sy1))} is not on the extension of an edge of the '
                        f'page box [{x0}, {x1}] x [{y0}, {y1}] outside it (bleed t/r/b/l {t} {r} {b} {l})')
            seen.add((edge, side))
        if (t and b and l and r) and len(seen) != 8 and x0 != x1 and y0 != y1:
            return f'crop marks cover only {sorted(seen)}: every edge line needs a mark at either end'
    if 'cross' in marks:
        if len(circs) != 4:
            return f'marks: cross: {len(circs)} circles drawn, 4 expected (one per side)'
        lines = segs[len(crop):]
        if len(lines) != 8:
            return f'marks: cross: {len(lines)} cross lines drawn, 8 expected (two per side)'
        for k, (cx, cy, rad) in enumerate(circs):
            if (t, b, l, r)[k] == 0:
                continue                     # no bleed on this side: the mark degenerates to a point
            pair = lines[2 * k:2 * k + 2]
            horizontal = [s_ for s_ in pair if s_[1] == s_[3]]
            vertical = [s_ for s_ in pair if s_[0] == s_[2]]
            if len(horizontal) != 1 or len(vertical) != 1:
                return f'cross mark {k}: its two lines {[[str(v) for v in s_] for s_ in pair]} are not one horizontal and one vertical line'
            if (vertical[0][0], horizontal[0][1]) != (cx, cy):
                return (f'cross mark {k} (top, bottom, left, right = 0..3): its lines cross at '
                        f'({vertical[0][0]}, {horizontal[0][1]}) but its circle is centred at ({cx}, {cy}) '
                        f'(bleed t/r/b/l {t} {r} {b} {l}, bleed area {width} x {height})')
        strips = [(0, width, 0, t), (0, width, height - b, height), (0, l, 0, height), (width - r, width, 0, height)]
        for (cx, cy, rad), (ax, bx, ay, by), name in zip(circs, strips, ('top', 'bottom', 'left', 'right')):
            if not (ax <= cx - rad and cx + rad <= bx and ay <= cy - rad and cy + rad <= by):
                return (f'cross mark of the {name} side (centre {cx}, {cy}, radius {rad}) is not inside the {name} bleed strip '
                        f'[{ax}, {bx}] x [{ay}, {by}]')
    return None


def judge(meta, impl):
    if meta['fn'] == 'marks':
        marks, width, height, bleed = meta['args']
        return judge_marks(marks, width, height, bleed, impl)
    size, bleed, marks = meta['args']
    bleed = [F(v) for v in bleed]
    return judge_marks(marks, F(size[0]) + bleed[1] + bleed[3], F(size[1]) + bleed[0] + bleed[2], bleed, impl)


def replay(meta):
    if meta['fn'] == 'marks':
        marks, width, height, bleed = meta['args']
        impl = docs.outcome(lambda: impl_marks(marks, F(width), F(height), [F(v) for v in bleed]))
    else:
        size, bleed, marks = meta['args']
        impl = docs.outcome(lambda: impl_doc_marks([F(v) for v in size], [F(v) for v in bleed], marks))
    return judge(meta, impl)
