"""Property values on the wire (shared shape with lean/WpModel/Model/CssVal.lean)."""
from fractions import Fraction

from extract.units import shape
from vlib import sx


def frac(q):
    q = Fraction(q)
    return str(q.numerator) if q.denominator == 1 else f'{q.numerator}/{q.denominator}'


def esc(s):
    """Parentheses cannot be part of an atom: `running()` travels as `running[]`."""
    return s.replace('(', '[').replace(')', ']')


def enc_shape(sh):
    if sh[0] == 'kw':
        return ['kw', esc(sh[1])] if sh[1] else ['kw']
    if sh[0] == 'dim':
        return ['dim', sh[1], esc(sh[2])]
    if sh[0] == 'num':
        return ['num', sh[1]]
    if sh[0] == 'strs':
        return ['strs', *[esc(x) for x in sh[1]]]
    if sh[0] == 'null':
        return ['null']
    if sh[0] == 'tup':
        return ['tup', *[enc_shape(x) for x in sh[1]]]
    return ['tag', esc(sh[1]), sh[2]]


def enc(value):
    """Python property value -> S-expression understood by `Val.ofSx?`."""
    return enc_shape(shape(value))


def canon_shape(sh):
    if sh[0] == 'kw':
        return 'kw:' + sh[1]
    if sh[0] == 'dim':
        return f'dim:{frac(sh[1])}:{sh[2]}'
    if sh[0] == 'num':
        return 'num:' + frac(sh[1])
    if sh[0] == 'strs':
        return 'strs:' + ','.join(sh[1])
    if sh[0] == 'null':
        return 'null'
    if sh[0] == 'tup':
        return 'tup[' + '|'.join(canon_shape(x) for x in sh[1]) + ']'
    return f'tag:{sh[1]}:{frac(sh[2])}'


def canon(value):
    """Python property value -> the text `Val.render` prints."""
    return canon_shape(shape(value))


def outcome(fn, render=canon):
    """`render(fn())`, or `err:<ExceptionClass>` (the models print the class without a site)."""
    try:
        value = fn()
    except RecursionError:
        return 'err:RecursionError'
    except Exception as exc:  # noqa: BLE001 - every class is an outcome kind
        return f'err:{type(exc).__name__}'
    return render(value)


def opt(x):
    return 'none' if x is None else x


def line(*items):
    return sx.line(*items)
