"""C04 / named pages around tables (sections added by c04_names.add_sections):

table-names        the real box tree (cascade + build) of [block][table with captions][block] with `page` written on
                   the body, the blocks, the table, its captions, row groups, rows and cells, and the real
                   block_level_page_name at the four boundaries (before the table, top captions | grid, grid | bottom
                   captions, after the table)  <-> Model/TableNames computed from the elements as written
table-name-pages   the same documents rendered on a tall page: where the words are and the names of the page types,
                   judged by the Lean checker `table-name-obs` (C04TableNames.names_sound)
"""
import itertools

from harness import c04_tables, docs, widegen
from vlib import sx

SECTIONS = ('table-names', 'table-name-pages')
PAGE_RULES = '@page{size:200px 400px;margin:0}@page a{margin:1px}@page b{margin:2px}@page c{margin:3px}'


def wname(name):
    return name or '-'


def page_css(name, extra=''):
    css = (f'page:{name};' if name else '') + extra
    return f' style="{css}"' if css else ''


def make_doc(body, prev, table, nxt):
    """prev / nxt = ['para', page] | ['block', page, kids]; table = {'page', 'break', 'parts'} with parts in document
    order: ['caption', top, page] | ['group', page, [row pages]] | ['row', page, cell page]."""
    words = c04_tables.Words()
    ids = {'prev': [], 'top': [], 'grid': [], 'bottom': [], 'next': []}

    def elem(e, bucket):
        if e[0] == 'para':
            word = words.take()
            bucket.append(word)
            return f'<p{page_css(e[1])}>w{word}</p>'
        inner = ''.join(elem(k, bucket) for k in e[2])
        if not e[2]:
            word = words.take()
            bucket.append(word)
            inner = f'w{word}'
        return f'<div{page_css(e[1])}>{inner}</div>'

    def row(page, cell_page=''):
        word = words.take()
        ids['grid'].append(word)
        return f'<div class="r"{page_css(page)}><div class="d"{page_css(cell_page)}>w{word}</div></div>'
    parts = []
    for part in table['parts']:
        if part[0] == 'caption':
            word = words.take()
            ids['top' if part[1] else 'bottom'].append(word)
            parts.append(f'<div class="{"c" if part[1] else "cb"}"{page_css(part[2])}>w{word}</div>')
        elif part[0] == 'group':
            parts.append(f'<div class="b"{page_css(part[1])}>' + ''.join(row(p) for p in part[2]) + '</div>')
        else:
            parts.append(row(part[1], part[2]))
    brk = f'break-before:{table["break"]};' if table.get('break') else ''
    html = (f'<html><head><style>{PAGE_RULES}{c04_tables.STYLE}</style></head><body{page_css(body)}>'
            f'{elem(prev, ids["prev"])}<div class="t"{page_css(table["page"], brk)}>{"".join(parts)}</div>'
            f'{elem(nxt, ids["next"])}</body></html>')
    return html, ids


def wire_elem(e):
    if e[0] == 'para':
        return ['para', wname(e[1])]
    return ['block', wname(e[1]), [wire_elem(k) for k in e[2]]]


def wire_args(body, prev, table, nxt):
    tops = [wname(p[2]) for p in table['parts'] if p[0] == 'caption' and p[1]]
    bottoms = [wname(p[2]) for p in table['parts'] if p[0] == 'caption' and not p[1]]
    return [wname(body), wire_elem(prev), wname(table['page']), tops, bottoms, wire_elem(nxt)]


def family():
    """-> (doc id, body page, prev, table, next)"""
    captions = [None, '', 'a', 'b']
    for prev_page, table_page, top, bottom, row_page, next_page in itertools.product(
            ('', 'a', 'b'), ('', 'a', 'b'), captions, (None, 'b'), ('', 'c'), ('', 'a')):
        parts = []
        if bottom is not None:
            parts.append(['caption', False, bottom])     # written first: wrap_table puts it last
        if top is not None:
            parts.append(['caption', True, top])
        parts.append(['row', row_page, ''])
        parts.append(['group', '', ['', row_page]])
        ident = f'tn-p{wname(prev_page)}-t{wname(table_page)}-c{wname(top) if top is not None else "x"}-' \
                f'd{"b" if bottom else "x"}-r{wname(row_page)}-n{wname(next_page)}'
        yield ident, '', ['para', prev_page], {'page': table_page, 'parts': parts}, ['para', next_page]
    # a forced break before the table without (or with) a change of name; a named body; nested blocks around
    for table_page, top, body in itertools.product(('', 'a', 'b'), (None, 'a', 'b'), ('', 'a')):
        parts = ([['caption', True, top]] if top is not None else []) + [['row', '', 'c']]
        yield (f'tn-forced-t{wname(table_page)}-c{wname(top) if top is not None else "x"}-B{wname(body)}', body,
               ['block', 'a', [['para', ''], ['para', 'b' if table_page == 'b' else '']]],
               {'page': table_page, 'break': 'page', 'parts': parts}, ['block', '', [['para', 'a']]])


def random_case(rng):
    def name():
        return rng.choice(['', '', 'a', 'b', 'c'])

    def other():
        if rng.random() < 0.5:
            return ['para', name()]
        return ['block', name(), [['para', name()] for _ in range(rng.randint(0, 2))]]
    parts = []
    for _ in range(rng.randint(1, 4)):
        kind = rng.choice(['caption', 'row', 'group'])
        if kind == 'caption':
            parts.append(['caption', rng.random() < 0.6, name()])
        elif kind == 'row':
            parts.append(['row', name(), name()])
        else:
            parts.append(['group', name(), [name() for _ in range(rng.randint(1, 2))]])
    if not any(p[0] != 'caption' for p in parts):
        parts.append(['row', '', ''])
    table = {'page': name(), 'parts': parts}
    if rng.random() < 0.2:
        table['break'] = rng.choice(['page', 'right'])
    return name(), other(), table, other()


def real_names(html):
    from weasyprint.formatting_structure import boxes
    from weasyprint.layout.block import block_level_page_name
    prev, wrapper, nxt = c04_tables.body_children(c04_tables.build_real(html))
    kids = list(wrapper.children)
    index = [i for i, k in enumerate(kids) if isinstance(k, boxes.TableBox)][0]
    out = [c04_tables.name_out(block_level_page_name(prev, wrapper)),
           c04_tables.name_out(block_level_page_name(kids[index - 1], kids[index])) if index else 'x',
           c04_tables.name_out(block_level_page_name(kids[index], kids[index + 1])) if index + 1 < len(kids) else 'x',
           c04_tables.name_out(block_level_page_name(wrapper, nxt))]
    return ' '.join(out)


def observe(html, ids):
    with docs.time_limit(20):
        document = docs.render(html)
    pages = widegen.page_words(document)
    names = [page._page_box.page_type.name or '' for page in document.pages]
    where = {}
    for index, page in enumerate(pages):
        for word in page:
            where.setdefault(word, []).append(index)

    def on(words):
        return [p for word in words for p in where.get(word, [])]
    table = ids['top'] + ids['grid'] + ids['bottom']
    pairs = [(ids['prev'], table), (ids['top'], ids['grid']), (ids['grid'], ids['bottom']), (table, ids['next'])]
    obs = []
    for words_a, words_b in pairs:
        pages_a, pages_b = on(words_a), on(words_b)
        if not words_a or not words_b or not pages_a or not pages_b:
            obs.append(None)
            continue
        page_a, page_b = max(pages_a), min(pages_b)
        obs.append([page_a, page_b, wname(names[page_b]), page_a < page_b])
    return obs, pages, names


def add_sections(prop, run):
    docs.quiet()
    cases = list(family())
    for index in range(run.n(80, 2000)):
        cases.append((f'tn-random-{index}',) + random_case(run.rng))
    sec = run.section(
        'table-names',
        'documents [block][table][block] with `page` on the body, the blocks, the table, top / bottom captions, row '
        'groups, rows and cells (every combination of three names on five places, forced breaks, random ones): the real '
        'box tree and the real block_level_page_name before the table, between top captions and grid, between grid and '
        'bottom captions and after the table, compared with Model/TableNames computed from the elements as written '
        '(the names written inside the grid are never read); non-trivial = two different names are written')
    sec2 = run.section(
        'table-name-pages',
        'the same documents rendered on a tall page: pages of the words around the four boundaries and the name of the '
        'page type of the page after each, judged by the Lean checker table-name-obs (C04TableNames.names_sound): a '
        'change to a non-empty name starts a new page of that name, a page started by a forced break has the start '
        'name of what follows; non-trivial = the document has at least 2 pages')
    for doc_id, body, prev, table, nxt in cases:
        html, ids = make_doc(body, prev, table, nxt)
        args = wire_args(body, prev, table, nxt)
        meta = {'doc_id': doc_id, 'html': html, 'body': body, 'prev': prev, 'table': table, 'next': nxt}
        out = docs.outcome(lambda: real_names(html))
        written = {n for n in (html.split('page:')[1:]) for n in [n.split(';')[0]]}
        sec.add(sx.line('table-names', *args), out, meta=meta, nontrivial=len(written) >= 2,
                tags=[doc_id.split('-')[1][:6]])
        try:
            obs, pages, names = observe(html, ids)
        except Exception:  # noqa: BLE001 - left to C02
            continue
        sec2.add(sx.line('table-name-obs', *args, obs), 'ok',
                 meta=dict(meta, ids=ids, obs=obs, pages=pages, names=names), nontrivial=len(pages) >= 2,
                 tags=[doc_id.split('-')[1][:6]])


BOUNDARIES = ['before the table', 'between the top captions and the rows', 'between the rows and the bottom captions',
              'after the table']


def judge(prop, d):
    meta = d['meta']
    if d['section'] == 'table-names':
        if d['impl'].startswith('err:'):
            return f'{meta["doc_id"]}: block_level_page_name / build raised {d["impl"]}'
        got, want = d['impl'].split(), d['model'].split()
        bad = [f'{BOUNDARIES[i]}: {g!r} instead of {w!r}' for i, (g, w) in enumerate(zip(got, want)) if g != w]
        return (f'{meta["doc_id"]}: the page name asked by block_level_page_name is not the one css-page names for the '
                f'elements as written ({"; ".join(bad)})')
    if d['section'] == 'table-name-pages':
        bad = [BOUNDARIES[int(i)] for i in d['model'].replace('(', ' ').replace(')', ' ').split()[1:]]
        return (f'{meta["doc_id"]}: named page not honoured {"; ".join(bad)}: words per page {meta["pages"]}, page type '
                f'names {meta["names"]}, observations (pageA pageB nameB new-page) {meta["obs"]}')
    return None


def replay(prop, meta):
    from vlib import lean
    doc_id = str(meta.get('doc_id', ''))
    if not doc_id.startswith('tn-'):
        return False, None
    args = wire_args(meta['body'], meta['prev'], meta['table'], meta['next'])
    if 'ids' in meta:
        obs, pages, names = observe(meta['html'], meta['ids'])
        line = sx.line('table-name-obs', *args, obs)
        out = lean.run_driver(prop.driver, [line])[0]
        new = dict(meta, obs=obs, pages=pages, names=names)
        return True, (None if out == 'ok' else judge(prop, {'section': 'table-name-pages', 'meta': new, 'model': out}))
    impl = docs.outcome(lambda: real_names(meta['html']))
    model = lean.run_driver(prop.driver, [sx.line('table-names', *args)])[0]
    return True, (None if impl == model else judge(prop, {'section': 'table-names', 'meta': meta, 'impl': impl,
                                                           'model': model}))
