"""C04 on tables with captions, row groups and rows (sections added by c04_tables.add_sections):

table-breaks     the real box tree built from a document (real cascade, real build: wrap_table, anonymous row groups,
                 header / footer sorting) and the real block_level_page_break before the table, after it and between
                 all its parts   <-> Model/TableBreaks (`table-breaks`), computed from the elements as written
page-values      the real Box.page_values / block_level_page_name on the same real trees <-> Model/TableBreaks
table-pages      the documents rendered: pages of the previous sibling, the captions, the rows and the next sibling,
                 judged by the Lean checker `table-obs` (C04Table.tableObs_sound)
avoid-conserve   documents in which break-before / break-after: avoid moves a break to an earlier point, with
                 out-of-flow boxes around that point: every word exactly once and the avoid honoured, judged by the Lean
                 checker `avoid-conserve` (C04Table.avoid_conserve_sound)
"""
import itertools

from harness import docs, widegen
from vlib import sx

SECTIONS = ('table-breaks', 'page-values', 'table-pages', 'avoid-conserve')
VALUES = ['auto', 'avoid', 'avoid-page', 'avoid-column', 'page', 'column', 'left', 'right', 'recto', 'verso']
QUICK_VALUES = ['page', 'avoid', 'left']
FORCE = {'page', 'left', 'right', 'recto', 'verso'}
AVOID = {'avoid', 'avoid-page'}
STYLE = ('html,body{margin:0}p{margin:0}body{font-size:10px;line-height:10px}'
         '.t{display:table;border-spacing:0}.c{display:table-caption}.cb{display:table-caption;caption-side:bottom}'
         '.h{display:table-header-group}.b{display:table-row-group}.f{display:table-footer-group}'
         '.r{display:table-row}.d{display:table-cell}')


# ---------------------------------------------------------------------------------------------
# element trees: table = {'before', 'after', 'parts'}; part = ['caption', top, b, a] | ['group', kind, b, a, rows]
# | ['row', b, a]; row = [b, a]; other elements = ['para', b, a] | ['block', b, a, kids]

STRUCTURES = {
    'rows': [['row', 'auto', 'auto'], ['row', 'auto', 'auto']],
    'cap-rows': [['caption', True, 'auto', 'auto'], ['row', 'auto', 'auto'], ['row', 'auto', 'auto']],
    'capb-rows': [['row', 'auto', 'auto'], ['caption', False, 'auto', 'auto']],
    'cap2-groups': [['caption', True, 'auto', 'auto'], ['group', 'body', 'auto', 'auto', [['auto', 'auto']]],
                    ['caption', True, 'auto', 'auto'], ['group', 'body', 'auto', 'auto', [['auto', 'auto']] * 2]],
    'foot-head': [['group', 'footer', 'auto', 'auto', [['auto', 'auto']]], ['row', 'auto', 'auto'],
                  ['group', 'header', 'auto', 'auto', [['auto', 'auto']]], ['caption', False, 'auto', 'auto'],
                  ['caption', True, 'auto', 'auto']],
    'head2': [['group', 'header', 'auto', 'auto', [['auto', 'auto']]], ['group', 'header', 'auto', 'auto', [['auto', 'auto']]],
              ['row', 'auto', 'auto'], ['group', 'footer', 'auto', 'auto', [['auto', 'auto']]],
              ['group', 'footer', 'auto', 'auto', [['auto', 'auto']]]],
    'empty-groups': [['caption', True, 'auto', 'auto'], ['group', 'header', 'auto', 'auto', []],
                     ['group', 'body', 'auto', 'auto', [['auto', 'auto']]], ['group', 'body', 'auto', 'auto', []]],
    'caption-only': [['caption', True, 'auto', 'auto']],
}


def copy_parts(parts):
    out = []
    for part in parts:
        part = list(part)
        if part[0] == 'group':
            part[4] = [list(r) for r in part[4]]
        out.append(part)
    return out


def slots(parts):
    """Every place of a table where break-before / break-after can be written: (setter, label)."""
    out = []
    for index, part in enumerate(parts):
        if part[0] == 'caption':
            out.append((('part', index, 2), f'caption{index}'))
        elif part[0] == 'row':
            out.append((('part', index, 1), f'row{index}'))
        else:
            out.append((('part', index, 2), f'group{index}'))
            for r in range(len(part[4])):
                out.append((('grow', index, r), f'group{index}row{r}'))
    return out


def set_value(parts, slot, side, value):
    kind, index, pos = slot
    offset = 0 if side == 'before' else 1
    if kind == 'part':
        parts[index][pos + offset] = value
    else:
        parts[index][4][pos][offset] = value


def table_family(values):
    """-> (doc id, prev, table, next): one value on one place (the table itself, every caption, group and row) and
    one side, in every structure."""
    for name, parts in STRUCTURES.items():
        for value in values:
            for side in ('before', 'after'):
                table = {'before': value if side == 'before' else 'auto', 'after': value if side == 'after' else 'auto',
                         'parts': copy_parts(parts)}
                yield f'tb-{name}-table-{side}-{value}', ['para', 'auto', 'auto'], table, ['para', 'auto', 'auto']
                for slot, label in slots(parts):
                    table = {'before': 'auto', 'after': 'auto', 'parts': copy_parts(parts)}
                    set_value(table['parts'], slot, side, value)
                    yield f'tb-{name}-{label}-{side}-{value}', ['para', 'auto', 'auto'], table, ['para', 'auto', 'auto']


def random_table(rng):
    def value():
        return rng.choice(VALUES) if rng.random() < 0.4 else 'auto'
    parts = []
    for _ in range(rng.randint(0, 5)):
        kind = rng.choice(['caption', 'caption', 'row', 'row', 'group', 'group', 'group'])
        if kind == 'caption':
            parts.append(['caption', rng.random() < 0.6, value(), value()])
        elif kind == 'row':
            parts.append(['row', value(), value()])
        else:
            parts.append(['group', rng.choice(['header', 'body', 'body', 'footer']), value(), value(),
                          [[value(), value()] for _ in range(rng.randint(0, 3))]])

    def other():
        if rng.random() < 0.5:
            return ['para', value(), value()]
        return ['block', value(), value(), [['para', value(), value()] for _ in range(rng.randint(0, 2))]]
    return other(), {'before': value(), 'after': value(), 'parts': parts}, other()


# ---------------------------------------------------------------------------------------------
# wire + html

def wire_table(t):
    parts = []
    for part in t['parts']:
        if part[0] == 'group':
            parts.append(['group', part[1], part[2], part[3], [list(r) for r in part[4]]])
        else:
            parts.append(list(part))
    return ['table', t['before'], t['after'], parts]


def wire_elem(e):
    if e[0] == 'block':
        return ['block', e[1], e[2], [wire_elem(k) for k in e[3]]]
    return list(e)


class Words:
    def __init__(self):
        self.n = 0

    def take(self):
        self.n += 1
        return self.n


def brk_css(before, after):
    css = ''
    if before != 'auto':
        css += f'break-before:{before};'
    if after != 'auto':
        css += f'break-after:{after};'
    return f' style="{css}"' if css else ''


def elem_html(e, words, ids):
    if e[0] == 'para':
        word = words.take()
        ids.append(word)
        return f'<p{brk_css(e[1], e[2])}>w{word}</p>'
    inner = ''.join(elem_html(k, words, ids) for k in e[3])
    if not e[3]:
        word = words.take()
        ids.append(word)
        inner = f'w{word}'
    return f'<div{brk_css(e[1], e[2])}>{inner}</div>'


def table_html(t, words, where):
    """`where` collects the word ids of 'top' captions, 'bottom' captions and 'grid' rows."""
    out = []

    def row(before, after):
        word = words.take()
        where['grid'].append(word)
        return f'<div class="r"{brk_css(before, after)}><div class="d">w{word}</div></div>'
    for part in t['parts']:
        if part[0] == 'caption':
            word = words.take()
            where['top' if part[1] else 'bottom'].append(word)
            out.append(f'<div class="{"c" if part[1] else "cb"}"{brk_css(part[2], part[3])}>w{word}</div>')
        elif part[0] == 'row':
            out.append(row(part[1], part[2]))
        else:
            cls = {'header': 'h', 'body': 'b', 'footer': 'f'}[part[1]]
            out.append(f'<div class="{cls}"{brk_css(part[2], part[3])}>' + ''.join(row(*r) for r in part[4]) + '</div>')
    return f'<div class="t"{brk_css(t["before"], t["after"])}>{"".join(out)}</div>'


def document(prev, table, nxt, height=400, fillers=0, filler_height=20, width=200):
    words = Words()
    ids = {'prev': [], 'next': [], 'top': [], 'bottom': [], 'grid': [], 'fill': []}
    fill = ''
    for _ in range(fillers):
        word = words.take()
        ids['fill'].append(word)
        fill += f'<div style="height:{filler_height}px">w{word}</div>'
    body = fill + elem_html(prev, words, ids['prev']) + table_html(table, words, ids) + elem_html(nxt, words, ids['next'])
    html = (f'<html><head><style>@page{{size:{width}px {height}px;margin:0}}{STYLE}</style></head>'
            f'<body>{body}</body></html>')
    return html, ids


# ---------------------------------------------------------------------------------------------
# the real box tree

def build_real(html_text):
    from weasyprint import DEFAULT_OPTIONS
    from weasyprint.css.counters import CounterStyle
    from weasyprint.document import Document
    from weasyprint.formatting_structure.build import build_formatting_structure
    html = docs.html(html_text)
    _, _, font_config = docs._env()
    counter_style = CounterStyle()
    context = Document._build_layout_context(html, font_config, counter_style, dict(DEFAULT_OPTIONS))
    return build_formatting_structure(
        html.etree_element, context.style_for, context.get_image_from_uri, html.base_url, context.target_collector,
        counter_style, context.footnotes)


def body_children(root_box):
    body = root_box.children[0]
    return list(body.children)


def pbox_wire(box):
    from weasyprint.formatting_structure import boxes
    kids = box.children if isinstance(box, boxes.ParentBox) else []
    return [isinstance(box, boxes.TableBox), bool(box.is_in_normal_flow()), box.style['page'] or '-',
            [pbox_wire(k) for k in kids if not isinstance(k, boxes.TextBox)]]


def name_out(name):
    return 'none' if name is None else (name or '-')


# ---------------------------------------------------------------------------------------------
# observations on rendered documents

def observe(html_text, ids, roomy):
    """-> (obs wire list, pages) or None when a part was not rendered (left to C01)."""
    with docs.time_limit(20):
        document_ = docs.render(html_text)
    pages = widegen.page_words(document_)
    where = {}
    for index, page in enumerate(pages):
        for word in page:
            where.setdefault(word, []).append(index)

    def on(words):
        return [p for word in words for p in where.get(word, [])]
    table_words = ids['top'] + ids['grid'] + ids['bottom']
    if not on(ids['prev']) or not on(ids['next']) or not on(table_words):
        return None, pages
    prev_last = max(on(ids['prev']))
    table_first, table_last = min(on(table_words)), max(on(table_words))
    next_first = min(on(ids['next']))
    top, grid = on(ids['top']), on(ids['grid'])
    obs = [True, roomy, prev_last, table_first, table_first % 2 == 0, table_last, next_first, next_first % 2 == 0,
           max(top) if top else None, min(grid) if grid else None,
           pages[prev_last][0] in ids['prev'], pages[table_last][0] in table_words]
    return obs, pages


def pages_cases(values, rng, thorough):
    """Documents rendered on a roomy page (only forced breaks make pages) and, for the avoiding values, on a page
    that ends just before the table (the break has to move before the previous sibling)."""
    for doc_id, prev, table, nxt in table_family(values):
        value = doc_id.rsplit('-', 1)[1]
        if value in AVOID:
            # fillers + prev fill the page exactly: the table starts the next page unless an avoid pulls prev along
            html, ids = document(prev, table, nxt, height=90, fillers=4, filler_height=20, width=200)
            yield doc_id + '-tight', prev, table, nxt, html, ids, False
        else:
            html, ids = document(prev, table, nxt)
            yield doc_id, prev, table, nxt, html, ids, True


def add_sections(prop, run):
    docs.quiet()
    add_tables(prop, run)
    add_conserve(prop, run)


def add_tables(prop, run):
    values = VALUES[1:] if run.thorough else QUICK_VALUES
    sec = run.section(
        'table-breaks',
        'documents [block] [table] [block]; the table in 8 structures (bare rows, top / bottom / several captions, '
        'header and footer groups out of order, two headers, empty groups, caption only), one break value on one '
        'place (table, every caption, group, row) and side, plus random tables with values everywhere: the real box '
        'tree (cascade + build) and the real block_level_page_break before / after the table and between all its '
        'parts, compared with Model/TableBreaks computed from the elements as written; non-trivial = a non-auto '
        'value is present')
    cases = list(table_family(values))
    for _ in range(run.n(150, 3000)):
        prev, table, nxt = random_table(run.rng)
        cases.append((f'tb-random-{len(cases)}', prev, table, nxt))
    trees = []
    for doc_id, prev, table, nxt in cases:
        html, ids = document(prev, table, nxt)
        try:
            root = build_real(html)
            out = docs.outcome(lambda: real_table_breaks_from(root))
        except Exception as exc:  # noqa: BLE001
            root, out = None, f'err:{type(exc).__name__}'
        sec.add(sx.line('table-breaks', wire_elem(prev), wire_table(table), wire_elem(nxt)), out,
                meta={'doc_id': doc_id, 'html': html, 'prev': prev, 'table': table, 'next': nxt},
                nontrivial='break-' in html, tags=[doc_id.split('-')[1]])
        if root is not None and doc_id.startswith('tb-random'):
            trees.append((doc_id, html, root))
    sec = run.section(
        'page-values',
        'the real page_values() of every box of real trees built from documents with `page` set on random elements '
        '(blocks, tables, captions, groups, rows, floats) and block_level_page_name between adjacent children, '
        'compared with Model/TableBreaks.pageValues / pageNameBetween; non-trivial = two different names in the tree')
    for _ in range(run.n(60, 1500)):
        html = named_document(run.rng)
        try:
            root = build_real(html)
        except Exception:  # noqa: BLE001 - left to C02
            continue
        add_page_values(sec, root, html)
    sec = run.section(
        'table-pages',
        'the documents of table-breaks (one value on one place) rendered: on a tall page for forcing values (a forced '
        'value before / after the table separates it, captions included, from its sibling and gives the page side; '
        'nothing else is separated), on a page that ends right before the table for avoiding values (the previous '
        'sibling comes along unless it is the first content of its page); observed pages judged by the Lean checker '
        'table-obs (C04Table.tableObs_sound); non-trivial = the document has at least 2 pages')
    for doc_id, prev, table, nxt, html, ids, roomy in pages_cases(values, run.rng, run.thorough):
        try:
            obs, pages = observe(html, ids, roomy)
        except Exception:  # noqa: BLE001 - left to C02
            continue
        if obs is None:
            continue
        sec.add(sx.line('table-obs', wire_elem(prev), wire_table(table), wire_elem(nxt), obs), 'ok',
                meta={'doc_id': doc_id, 'html': html, 'prev': prev, 'table': table, 'next': nxt, 'ids': ids,
                      'roomy': roomy, 'obs': obs, 'pages': pages},
                nontrivial=len(pages) >= 2, tags=[doc_id.split('-')[1]])


# ---------------------------------------------------------------------------------------------
# avoid + out-of-flow boxes: nothing lost when the break moves to an earlier point

OOF = {
    'float-left': 'float:left;width:40px;height:10px', 'float-right': 'float:right;width:40px;height:10px',
    'abs': 'position:absolute;right:0;width:40px;height:10px', 'fixed': 'position:fixed;right:0;top:0;width:40px',
}


def conserve_documents(thorough):
    yield from block_conserve_documents(thorough)
    yield from group_conserve_documents(thorough)


def group_conserve_documents(thorough):
    """-> same tuples: a table of twelve row groups (one 20px row or two 10px rows each) that spans three pages of
    100px, with break-after / break-before: avoid between two of its row groups - every boundary in turn, so also
    those reached on the second and third page of the table, where the break moves to an earlier boundary between row
    groups of a continuation page; with and without a repeated header, after 0 or 2 lines of text."""
    for at, side, per_group, head, pre, value in itertools.product(
            range(1, 12), ('after', 'before'), (1, 2), (False, True), (0, 2), ('avoid', 'avoid-page')):
        if not thorough and (value == 'avoid-page' or (pre and (head or per_group == 2))):
            continue
        words = Words()
        flow, by_group = [], []
        body = ''
        for _ in range(pre):
            word = words.take()
            flow.append(word)
            body += f'<p>w{word}</p>'
        header = []
        table = ''
        if head:
            word = words.take()
            header.append(word)
            table += f'<thead><tr><td style="height:20px">w{word}</td></tr></thead>'
        for g in range(12):
            style = ''
            if side == 'after' and g == at - 1:
                style = f'break-after:{value}'
            if side == 'before' and g == at:
                style = f'break-before:{value}'
            rows, ids = '', []
            for _ in range(per_group):
                word = words.take()
                ids.append(word)
                rows += f'<tr><td style="height:{20 // per_group}px">w{word}</td></tr>'
            flow += ids
            by_group.append(ids)
            table += f'<tbody style="{style}">{rows}</tbody>'
        word = words.take()
        flow.append(word)
        body += f'<table style="border-spacing:0;border-collapse:collapse">{table}</table><p>w{word}</p>'
        groups = [[0, flow]] + ([[2, header]] if header else [])
        html = (f'<html><head><style>@page{{size:100px 100px;margin:0}}{STYLE}td{{padding:0}}</style></head>'
                f'<body>{body}</body></html>')
        values = [value, 'auto'] if side == 'after' else ['auto', value]
        yield (f'ac-groups-{side}{at}-{value}-r{per_group}-h{int(head)}-p{pre}', html, groups,
               (by_group[at - 1], by_group[at], values))


def block_conserve_documents(thorough):
    """-> (doc id, html, groups, (words of A, words of B, values)) : five blocks of 30px on a 100px page; the fourth
    does not fit and an avoid between the third and the fourth moves the break before the third; out-of-flow boxes
    sit between the blocks (one, or two at different places), flat in the body or inside a container."""
    spots = {'after3': (2, 'break-after'), 'before4': (3, 'break-before'), 'alias-after3': (2, 'page-break-after')}
    places = [(i,) for i in range(1, 5)] + [(1, 2), (2, 3), (2, 2)]
    for (spot, (at, prop)), value, kind, place, nested in itertools.product(
            spots.items(), ('avoid', 'avoid-page'), OOF, places, (False, True)):
        if prop == 'page-break-after' and value != 'avoid':
            continue
        if not thorough and (value == 'avoid-page' or nested) and len(place) > 1:
            continue
        words = Words()
        flow, groups, blocks = [], [], []
        for i in range(5):
            word = words.take()
            flow.append(word)
            style = f'height:30px;{prop}:{value}' if i == at else 'height:30px'
            blocks.append((word, f'<div style="{style}">w{word}</div>'))
        body = ''
        for i, (word, html) in enumerate(blocks):
            for where in place:
                if where == i:
                    oof_word = words.take()
                    groups.append([2 if kind == 'fixed' else 1, [oof_word]])
                    body += f'<p style="{OOF[kind]}">w{oof_word}</p>'
            body += html
        groups.insert(0, [0, flow])
        if nested:
            body = f'<div><div>{body}</div></div>'
        html = (f'<html><head><style>@page{{size:100px 100px;margin:0}}{STYLE}</style></head><body>{body}</body></html>')
        values = [value, 'auto'] if prop.endswith('after') else ['auto', value]
        yield (f'ac-{spot}-{value}-{kind}-{"".join(map(str, place))}-n{int(nested)}', html, groups,
               ([flow[2]], [flow[3]], values))


def conserve_case(doc_id, html, groups, between):
    with docs.time_limit(20):
        document_ = docs.render(html)
    pages = widegen.page_words(document_)
    where = {}
    for index, page in enumerate(pages):
        for word in page:
            where.setdefault(word, []).append(index)
    words_a, words_b, values = between
    obs = []
    pages_a = [p for w in words_a for p in where.get(w, [])]
    pages_b = [p for w in words_b for p in where.get(w, [])]
    if pages_a and pages_b:
        page_a = max(pages_a)
        # the unit before is "first on its page" when no in-flow word precedes it there
        flow_words = set(groups[0][1])
        first_flow = next((w for w in pages[page_a] if w in flow_words), None)
        obs.append([values, page_a, min(pages_b), first_flow in words_a])
    line = sx.line('avoid-conserve', groups, pages, obs)
    meta = {'doc_id': doc_id, 'html': html, 'groups': groups, 'pages': pages, 'between': obs}
    return line, meta, len(pages) >= 2


def add_conserve(prop, run):
    sec = run.section(
        'avoid-conserve',
        'documents in which break-before / break-after: avoid (also avoid-page and page-break-after) between the third '
        'and fourth of five 30px blocks on a 100px page moves the break to the earlier point, with floats, absolutely '
        'and fixed positioned boxes between the blocks (every place, two at once), flat or inside containers: every '
        'word rendered exactly once in order and the avoid honoured, judged by the Lean checker avoid-conserve '
        '(C04Table.avoid_conserve_sound); and a table of twelve row groups over three pages with an avoid between two row '
        'groups at every boundary in turn (first and continuation pages, repeated header or not); non-trivial = the '
        'document has at least 2 pages')
    for doc_id, html, groups, between in conserve_documents(run.thorough):
        try:
            line, meta, nontrivial = conserve_case(doc_id, html, groups, between)
        except Exception:  # noqa: BLE001 - left to C02
            continue
        sec.add(line, 'ok', meta=meta, nontrivial=nontrivial, tags=[doc_id.split('-')[1]])


def conserve_text(meta, model):
    flat = [w for p in meta['pages'] for w in p]
    lost = [w for _, ws in meta['groups'] if _ != 2 for w in ws if flat.count(w) != 1]
    text = f'{meta["doc_id"]}: honouring break-before/after: avoid '
    if lost:
        text += f'loses or duplicates content: words {lost} are not rendered exactly once (pages {meta["pages"]})'
    else:
        text += f'fails: checker says {model} (pages {meta["pages"]}, between {meta["between"]})'
    return text


def real_table_breaks_from(root):
    from weasyprint.formatting_structure import boxes
    from weasyprint.layout.block import block_level_page_break
    prev, wrapper, nxt = body_children(root)
    if not wrapper.is_table_wrapper:
        return 'no-wrapper'
    table = [c for c in wrapper.children if isinstance(c, boxes.TableBox)][0]

    def adjacent(children):
        children = list(children)
        return [block_level_page_break(a, b) for a, b in zip(children, children[1:])]
    inside = adjacent(wrapper.children) + adjacent(table.children)
    for group in table.children:
        inside += adjacent(group.children)
    return f'{block_level_page_break(prev, wrapper)} {block_level_page_break(wrapper, nxt)} ({" ".join(inside)})'


def named_document(rng):
    def page():
        return rng.choice(['', '', '', 'page:a;', 'page:b;', 'page:auto;'])

    def flow():
        return rng.choice(['', '', '', 'float:left;', 'position:absolute;'])

    def block(depth):
        kind = rng.choice(['p', 'div', 'div', 'table'] if depth else ['p', 'p', 'div'])
        if kind == 'p':
            return f'<p style="{page()}{flow()}">x</p>'
        if kind == 'div':
            return f'<div style="{page()}{flow()}">' + ''.join(block(depth - 1) for _ in range(rng.randint(0, 3))) + '</div>'
        rows = ''.join(f'<div class="r" style="{page()}"><div class="d" style="{page()}">x</div></div>'
                       for _ in range(rng.randint(1, 2)))
        cap = f'<div class="{rng.choice(["c", "cb"])}" style="{page()}">k</div>' if rng.random() < 0.6 else ''
        group = f'<div class="b" style="{page()}">{rows}</div>' if rng.random() < 0.5 else rows
        return f'<div class="t" style="{page()}">{cap}{group}</div>'
    body = ''.join(block(2) for _ in range(rng.randint(2, 4)))
    return f'<html><head><style>{STYLE}</style></head><body style="{page()}">{body}</body></html>'


def add_page_values(sec, root, html):
    from weasyprint.formatting_structure import boxes
    from weasyprint.layout.block import block_level_page_name
    names = {box.style['page'] for box in root.descendants() if not isinstance(box, boxes.TextBox)}
    nontrivial = len(names) >= 2
    index = [0]

    def walk(box):
        if isinstance(box, boxes.TextBox) or not isinstance(box, boxes.ParentBox):
            return
        if isinstance(box, (boxes.LineBox, boxes.InlineBox)):
            return
        index[0] += 1
        out = docs.outcome(lambda: ' '.join(name_out(v) for v in box.page_values()))
        sec.add(sx.line('page-values', pbox_wire(box)), out, meta={'html': html, 'box': index[0]},
                nontrivial=nontrivial, tags=[type(box).__name__])
        kids = [k for k in box.children if not isinstance(k, boxes.TextBox)]
        for a, b in zip(kids, kids[1:]):
            out = docs.outcome(lambda: name_out(block_level_page_name(a, b)))
            sec.add(sx.line('page-name', pbox_wire(a), pbox_wire(b)), out, meta={'html': html, 'box': index[0]},
                    nontrivial=nontrivial, tags=['between'])
        for kid in kids:
            walk(kid)
    walk(root)


# ---------------------------------------------------------------------------------------------
# judge / replay

def spec_violation(meta, impl):
    """The clause of C04 on the real function, stated on the elements as written: a forcing break-before /
    break-after written on a table element must be in force between the table and its sibling."""
    if impl.startswith('err:'):
        return f'{meta["doc_id"]}: block_level_page_break / build raised {impl}'
    parts = impl.split(' ', 2)
    if len(parts) < 2:
        return None
    table = meta['table']
    for value, got, side in ((table['before'], parts[0], 'before'), (table['after'], parts[1], 'after')):
        if value in FORCE and got not in FORCE:
            return (f'{meta["doc_id"]}: break-{side}:{value} written on the table element is not the value used '
                    f'{side} the table (block_level_page_break gives {got!r}): it is not read on the table wrapper')
        if value in AVOID and got == 'auto':
            return (f'{meta["doc_id"]}: break-{side}:{value} written on the table element is lost {side} the table '
                    f'(block_level_page_break gives {got!r})')
    return None


def judge(prop, d):
    meta = d['meta']
    if d['section'] == 'table-breaks':
        return spec_violation(meta, d['impl'])
    if d['section'] == 'table-pages':
        names = {0: 'between the previous sibling and the table (captions included)',
                 1: 'between the table and the next sibling', 2: 'between the top captions and the rows'}
        bad = [names.get(int(i), i) for i in d['model'].replace('(', ' ').replace(')', ' ').split()[1:]]
        return (f'{meta["doc_id"]}: break control on a table part not honoured {"; ".join(bad)}: pages {meta["pages"]} '
                f'(previous {meta["ids"]["prev"]}, top captions {meta["ids"]["top"]}, rows {meta["ids"]["grid"]}, '
                f'bottom captions {meta["ids"]["bottom"]}, next {meta["ids"]["next"]})')
    if d['section'] == 'avoid-conserve':
        return conserve_text(meta, d['model'])
    if d['section'] == 'page-values' and d['impl'].startswith('err:'):
        return f'page_values / block_level_page_name raised {d["impl"]}'
    return None


def search(prop, run, failures):
    """A table-breaks disagreement that the function-level clause does not judge: render the documents of the family
    and let the page checker decide."""
    from vlib import lean
    if not any(f['kind'] in ('correspondence', 'proof', 'extraction') for f in failures):
        return []
    found = []
    lines, metas = [], []
    for doc_id, prev, table, nxt, html, ids, roomy in pages_cases(VALUES[1:], run.rng, True):
        run.search_stats['evaluations'] += 1
        try:
            obs, pages = observe(html, ids, roomy)
        except Exception:  # noqa: BLE001
            continue
        if obs is None:
            continue
        lines.append(sx.line('table-obs', wire_elem(prev), wire_table(table), wire_elem(nxt), obs))
        metas.append({'doc_id': doc_id, 'html': html, 'prev': prev, 'table': table, 'next': nxt, 'ids': ids,
                      'roomy': roomy, 'obs': obs, 'pages': pages})
    for line, meta, out in zip(lines, metas, lean.run_driver(prop.driver, lines)):
        if out != 'ok':
            what = judge(prop, {'section': 'table-pages', 'meta': meta, 'model': out, 'impl': 'ok'})
            found.append({'what': what, 'input': {'meta': meta, 'line': line}, 'signature': meta['doc_id']})
            if len(found) >= 3:
                break
    return found


def replay(prop, meta):
    """-> (handled, what)"""
    from vlib import lean
    doc_id = str(meta.get('doc_id', ''))
    if doc_id.startswith('ac-'):
        for ident, html, groups, between in conserve_documents(True):
            if ident == doc_id:
                line, new, _ = conserve_case(ident, html, groups, between)
                out = lean.run_driver(prop.driver, [line])[0]
                return True, (None if out == 'ok' else conserve_text(new, out))
        return True, None
    if not doc_id.startswith('tb-'):
        return False, None
    prev, table, nxt = meta['prev'], meta['table'], meta['next']
    if 'ids' in meta:
        obs, pages = observe(meta['html'], meta['ids'], meta['roomy'])
        if obs is None:
            return True, None
        line = sx.line('table-obs', wire_elem(prev), wire_table(table), wire_elem(nxt), obs)
        out = lean.run_driver(prop.driver, [line])[0]
        new = dict(meta, obs=obs, pages=pages)
        return True, (None if out == 'ok' else judge(prop, {'section': 'table-pages', 'meta': new, 'model': out,
                                                              'impl': 'ok'}))
    out = docs.outcome(lambda: real_table_breaks_from(build_real(meta['html'])))
    return True, spec_violation(meta, out)
