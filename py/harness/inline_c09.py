"""C09 helpers: a real style / layout context for direct calls of the inline-layout functions, and the
internal pipeline (box tree before layout + laid-out pages) for the document-level correspondence.

Everything here calls the real WeasyPrint code; nothing is re-implemented.
"""
import functools

from . import docs


class Ctx:
    """The part of `LayoutContext` read by `split_first_line`, `split_text_box`, `strut_layout`,
    `create_layout` (a real `FontConfiguration` carrying the test font)."""

    def __init__(self, font_config):
        self.font_config = font_config
        self.font_features = {}
        self.dictionaries = {}
        self.strut_layouts = {}
        self.excluded_shapes = []


class Style(dict):
    """A computed style materialised as a plain dict (all properties present)."""
    cache = None


@functools.lru_cache(maxsize=1)
def env():
    """(base style dict with the fixed-pitch test font, Ctx)."""
    from weasyprint.css.properties import INITIAL_VALUES
    from weasyprint.formatting_structure import boxes
    docs.quiet()
    # the style comes from the box tree *before* layout, so that a layout that raises cannot take the harness down
    box = _first_text_box('<style>body{font-family:weasyprint;font-size:10px}</style><p>abc def</p>')
    base = Style({key: box.style[key] for key in INITIAL_VALUES})
    base.cache = box.style.cache
    _, _, font_config = docs._env()
    return base, Ctx(font_config)


def _first_text_box(html_string):
    from weasyprint import DEFAULT_OPTIONS
    from weasyprint.css.counters import CounterStyle
    from weasyprint.document import Document
    from weasyprint.formatting_structure import boxes
    from weasyprint.formatting_structure.build import build_formatting_structure
    html = docs.html(html_string)
    _, _, font_config = docs._env()
    counter_style = CounterStyle()
    context = Document._build_layout_context(html, font_config, counter_style, DEFAULT_OPTIONS.copy())
    root_box = build_formatting_structure(
        html.etree_element, context.style_for, context.get_image_from_uri, html.base_url,
        context.target_collector, counter_style, context.footnotes)
    return next(b for b in root_box.descendants() if isinstance(b, boxes.TextBox))


def make_style(**values):
    base, _ = env()
    style = Style(base)
    style.cache = base.cache
    for key, value in values.items():
        style[key] = value
    return style


def context():
    return env()[1]


def pipeline(html_string, layout=True):
    """Run the steps of `Document._render` keeping the box tree as it is before layout.

    -> (root_box before layout, list of laid-out page boxes)
    """
    from weasyprint import DEFAULT_OPTIONS
    from weasyprint.css.counters import CounterStyle
    from weasyprint.document import Document
    from weasyprint.formatting_structure.build import build_formatting_structure
    from weasyprint.layout import layout_document
    html = docs.html(html_string)
    _, _, font_config = docs._env()
    counter_style = CounterStyle()
    options = DEFAULT_OPTIONS.copy()
    context = Document._build_layout_context(html, font_config, counter_style, options)
    root_box = build_formatting_structure(
        html.etree_element, context.style_for, context.get_image_from_uri, html.base_url,
        context.target_collector, counter_style, context.footnotes)
    before = snapshot_paragraphs(root_box)
    if not layout:
        return before, None
    page_boxes = list(layout_document(html, root_box, context))
    return before, page_boxes


def snapshot_paragraphs(root_box):
    """Per `<p>` block (document order): the texts of the text boxes of its line box, before layout."""
    from weasyprint.formatting_structure import boxes
    out = []
    for box in root_box.descendants():
        if isinstance(box, boxes.BlockBox) and box.element_tag == 'p':
            texts = [b.text for b in box.descendants() if isinstance(b, boxes.TextBox)]
            out.append(texts)
    return out


def laid_out_paragraphs(page_boxes):
    """Per `<p>` block fragment (document order): (block, [line boxes])."""
    from weasyprint.formatting_structure import boxes
    out = []
    for page in page_boxes:
        for box in page.descendants():
            if isinstance(box, boxes.BlockBox) and box.element_tag == 'p':
                out.append((box, [c for c in box.children if isinstance(c, boxes.LineBox)]))
    return out


def _px(value):
    from fractions import Fraction
    return Fraction(getattr(value, 'value', value))


def node_wire(box, enc):
    """A text box / inline box of the tree before layout as the model's `Node`:
    (t text) | (b left-spacing right-spacing has-decoration (children)) | (f node)."""
    from weasyprint.formatting_structure import boxes
    if isinstance(box, boxes.TextBox):
        return ['t', enc(box.text)]
    if not isinstance(box, boxes.InlineBox):
        raise ValueError(f'unexpected {type(box).__name__} in a line')
    style = box.style
    left = _px(style['margin_left']) + _px(style['border_left_width']) + _px(style['padding_left'])
    right = _px(style['margin_right']) + _px(style['border_right_width']) + _px(style['padding_right'])
    deco = any(
        _px(style[f'margin_{side}']) or _px(style[f'border_{side}_width']) or _px(style[f'padding_{side}'])
        for side in ('top', 'right', 'bottom', 'left'))
    node = ['b', left, right, bool(deco), [node_wire(child, enc) for child in box.children]]
    # `trailing_collapsible_space` (set by build.inline_in_block, read by split_inline_box): the node, flagged
    return ['f', node] if box.trailing_collapsible_space else node


def frag_wire(box, enc, snap):
    """A laid-out text box / inline box as the model's `Frag`: (t text x w) | (b x w left right (children))."""
    from weasyprint.formatting_structure import boxes
    if isinstance(box, boxes.TextBox):
        return ['t', enc(box.text), snap(box.position_x), snap(box.width)]
    left = box.margin_left + box.border_left_width + box.padding_left
    right = box.margin_right + box.border_right_width + box.padding_right
    return ['b', snap(box.position_x), snap(box.width), snap(left), snap(right),
            [frag_wire(child, enc, snap) for child in box.children]]


def pipeline_trees(html_string, enc, layout=True):
    """Like `pipeline`, but per `<p>`: the children of its line box before layout as model nodes."""
    from weasyprint import DEFAULT_OPTIONS
    from weasyprint.css.counters import CounterStyle
    from weasyprint.document import Document
    from weasyprint.formatting_structure import boxes
    from weasyprint.formatting_structure.build import build_formatting_structure
    from weasyprint.layout import layout_document
    html = docs.html(html_string)
    _, _, font_config = docs._env()
    counter_style = CounterStyle()
    context = Document._build_layout_context(html, font_config, counter_style, DEFAULT_OPTIONS.copy())
    root_box = build_formatting_structure(
        html.etree_element, context.style_for, context.get_image_from_uri, html.base_url,
        context.target_collector, counter_style, context.footnotes)
    before = []
    for box in root_box.descendants():
        if isinstance(box, boxes.BlockBox) and box.element_tag == 'p':
            lines = [c for c in box.children if isinstance(c, boxes.LineBox)]
            if len(lines) != 1 or len(box.children) != 1:
                before.append(None)
            else:
                before.append([node_wire(c, enc) for c in lines[0].children])
    if not layout:
        return before, None
    page_boxes = list(layout_document(html, root_box, context))
    return before, page_boxes


@functools.lru_cache(maxsize=None)
def text_metrics(font_size):
    """Pango (assumed component): (height, baseline) of a line of text of the test font at this size."""
    from fractions import Fraction
    from weasyprint.css.computed_values import strut_layout
    if not font_size:
        return Fraction(0), Fraction(0)
    height, baseline = strut_layout(make_style(font_size=float(font_size), line_height='normal'), context())
    return Fraction(height), Fraction(baseline)


def vstyle_wire(box, is_text=False):
    """(fs lh va border-top padding-top padding-bottom border-bottom textHeight textBaseline ex) of a laid-out box."""
    from fractions import Fraction
    from weasyprint.css.computed_values import character_ratio
    style = box.style
    font_size = Fraction(style['font_size'])
    line_height = style['line_height']
    lh = 'normal' if line_height == 'normal' else [
        'num' if line_height[0] == 'NUMBER' else 'px', Fraction(line_height[1])]
    vertical_align = style['vertical_align']
    va = vertical_align if isinstance(vertical_align, str) else ['len', Fraction(vertical_align)]
    height, baseline = text_metrics(font_size)
    if is_text:
        edges = [Fraction(0)] * 4
    else:
        edges = [Fraction(box.border_top_width), Fraction(box.padding_top), Fraction(box.padding_bottom),
                 Fraction(box.border_bottom_width)]
    return [font_size, lh, va, *edges, height, baseline, Fraction(character_ratio(style, 'x'))]


def vnode_wire(box):
    from weasyprint.formatting_structure import boxes
    if isinstance(box, boxes.TextBox):
        return ['t', vstyle_wire(box, True)]
    return ['b', vstyle_wire(box), [vnode_wire(child) for child in box.children]]


def vbox_wire(box, snap):
    from weasyprint.formatting_structure import boxes
    values = [snap(box.position_y), snap(box.height), snap(box.margin_top), snap(box.margin_bottom), snap(box.baseline)]
    if isinstance(box, boxes.TextBox):
        return ['t', *values]
    return ['b', *values, [vbox_wire(child, snap) for child in box.children]]


def pipeline_lineboxes(html_string, enc):
    """Build (no layout): -> (real LayoutContext, [(line box of each <p>, its children as model nodes)])."""
    from weasyprint import DEFAULT_OPTIONS
    from weasyprint.css.counters import CounterStyle
    from weasyprint.document import Document
    from weasyprint.formatting_structure import boxes
    from weasyprint.formatting_structure.build import build_formatting_structure
    html = docs.html(html_string)
    _, _, font_config = docs._env()
    counter_style = CounterStyle()
    context = Document._build_layout_context(html, font_config, counter_style, DEFAULT_OPTIONS.copy())
    root_box = build_formatting_structure(
        html.etree_element, context.style_for, context.get_image_from_uri, html.base_url,
        context.target_collector, counter_style, context.footnotes)
    out = []
    for box in root_box.descendants():
        if isinstance(box, boxes.BlockBox) and box.element_tag == 'p':
            lines = [c for c in box.children if isinstance(c, boxes.LineBox)]
            if len(lines) == 1 and len(box.children) == 1:
                out.append((lines[0], [node_wire(c, enc) for c in lines[0].children]))
            else:
                out.append((None, None))
    return context, out
