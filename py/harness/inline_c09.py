"""C09 helpers: a real style / layout context for direct calls of the inline-layout functions, and the
internal pipeline (box tree before layout + laid-out pages) for the document-level correspondence.

Everything here calls the real WeasyPrint code; nothing is re-implemented.
"""
import functools

from . import docs


class Ctx:
    """The part of `LayoutContext` read by `split_first_line`, `split_text_box`, `strut_layout`,
    `create_layout` (a real `FontConfiguration` carrying the test font)."""

    def __init__(self, font_config):
        self.font_config = font_config
        self.font_features = {}
        self.dictionaries = {}
        self.strut_layouts = {}
        self.excluded_shapes = []


class Style(dict):
    """A computed style materialised as a plain dict (all properties present)."""
    cache = None


@functools.lru_cache(maxsize=1)
def env():
    """(base style dict with the fixed-pitch test font, Ctx)."""
    from weasyprint.css.properties import INITIAL_VALUES
    from weasyprint.formatting_structure import boxes
    docs.quiet()
    document = docs.render('<style>body{font-family:weasyprint;font-size:10px}</style><p>abc def</p>')
    box = next(b for b in document.pages[0]._page_box.descendants() if isinstance(b, boxes.TextBox))
    base = Style({key: box.style[key] for key in INITIAL_VALUES})
    base.cache = box.style.cache
    _, _, font_config = docs._env()
    return base, Ctx(font_config)


def make_style(**values):
    base, _ = env()
    style = Style(base)
    style.cache = base.cache
    for key, value in values.items():
        style[key] = value
    return style


def context():
    return env()[1]


def pipeline(html_string):
    """Run the steps of `Document._render` keeping the box tree as it is before layout.

    -> (root_box before layout, list of laid-out page boxes)
    """
    from weasyprint import DEFAULT_OPTIONS
    from weasyprint.css.counters import CounterStyle
    from weasyprint.document import Document
    from weasyprint.formatting_structure.build import build_formatting_structure
    from weasyprint.layout import layout_document
    html = docs.html(html_string)
    _, _, font_config = docs._env()
    counter_style = CounterStyle()
    options = DEFAULT_OPTIONS.copy()
    context = Document._build_layout_context(html, font_config, counter_style, options)
    root_box = build_formatting_structure(
        html.etree_element, context.style_for, context.get_image_from_uri, html.base_url,
        context.target_collector, counter_style, context.footnotes)
    before = snapshot_paragraphs(root_box)
    page_boxes = list(layout_document(html, root_box, context))
    return before, page_boxes


def snapshot_paragraphs(root_box):
    """Per `<p>` block (document order): the texts of the text boxes of its line box, before layout."""
    from weasyprint.formatting_structure import boxes
    out = []
    for box in root_box.descendants():
        if isinstance(box, boxes.BlockBox) and box.element_tag == 'p':
            texts = [b.text for b in box.descendants() if isinstance(b, boxes.TextBox)]
            out.append(texts)
    return out


def laid_out_paragraphs(page_boxes):
    """Per `<p>` block fragment (document order): (block, [line boxes])."""
    from weasyprint.formatting_structure import boxes
    out = []
    for page in page_boxes:
        for box in page.descendants():
            if isinstance(box, boxes.BlockBox) and box.element_tag == 'p':
                out.append((box, [c for c in box.children if isinstance(c, boxes.LineBox)]))
    return out


def _px(value):
    from fractions import Fraction
    return Fraction(getattr(value, 'value', value))


def node_wire(box, enc):
    """A text box / inline box of the tree before layout as the model's `Node`:
    (t text) | (b left-spacing right-spacing has-decoration (children))."""
    from weasyprint.formatting_structure import boxes
    if isinstance(box, boxes.TextBox):
        return ['t', enc(box.text)]
    if not isinstance(box, boxes.InlineBox):
        raise ValueError(f'unexpected {type(box).__name__} in a line')
    style = box.style
    left = _px(style['margin_left']) + _px(style['border_left_width']) + _px(style['padding_left'])
    right = _px(style['margin_right']) + _px(style['border_right_width']) + _px(style['padding_right'])
    deco = any(
        _px(style[f'margin_{side}']) or _px(style[f'border_{side}_width']) or _px(style[f'padding_{side}'])
        for side in ('top', 'right', 'bottom', 'left'))
    return ['b', left, right, bool(deco), [node_wire(child, enc) for child in box.children]]


def frag_wire(box, enc, snap):
    """A laid-out text box / inline box as the model's `Frag`: (t text x w) | (b x w left right (children))."""
    from weasyprint.formatting_structure import boxes
    if isinstance(box, boxes.TextBox):
        return ['t', enc(box.text), snap(box.position_x), snap(box.width)]
    left = box.margin_left + box.border_left_width + box.padding_left
    right = box.margin_right + box.border_right_width + box.padding_right
    return ['b', snap(box.position_x), snap(box.width), snap(left), snap(right),
            [frag_wire(child, enc, snap) for child in box.children]]


def pipeline_trees(html_string, enc):
    """Like `pipeline`, but per `<p>`: the children of its line box before layout as model nodes."""
    from weasyprint import DEFAULT_OPTIONS
    from weasyprint.css.counters import CounterStyle
    from weasyprint.document import Document
    from weasyprint.formatting_structure import boxes
    from weasyprint.formatting_structure.build import build_formatting_structure
    from weasyprint.layout import layout_document
    html = docs.html(html_string)
    _, _, font_config = docs._env()
    counter_style = CounterStyle()
    context = Document._build_layout_context(html, font_config, counter_style, DEFAULT_OPTIONS.copy())
    root_box = build_formatting_structure(
        html.etree_element, context.style_for, context.get_image_from_uri, html.base_url,
        context.target_collector, counter_style, context.footnotes)
    before = []
    for box in root_box.descendants():
        if isinstance(box, boxes.BlockBox) and box.element_tag == 'p':
            lines = [c for c in box.children if isinstance(c, boxes.LineBox)]
            if len(lines) != 1 or len(box.children) != 1:
                before.append(None)
            else:
                before.append([node_wire(c, enc) for c in lines[0].children])
    page_boxes = list(layout_document(html, root_box, context))
    return before, page_boxes
