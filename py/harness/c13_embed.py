"""C13: the embedding decisions of the real `RasterImage` on tiny generated images of every Pillow mode.

Each case builds a 2x2 / 3x2 image in some mode, saves it with Pillow in some file format (with or
without transparency information), loads it through the real `get_image_from_uri` (data: URI, default
fetcher, options, image-orientation) and asks the real `RasterImage.get_x_object(True, 1)`.
Compared with the Lean model (`Model/RasterEmbed.lean`): normalised mode, JPEG or PNG path, whether
the source bytes were passed through or re-encoded, `invert_colors`, `/ColorSpace`, `/Filter`,
`/DecodeParms/Colors`, presence of `/SMask`, `/Decode`.  Where the model says the stream is a faithful
8-bit rendition (`pixels-same`), the stream (and its mask) is decoded and compared, pixel by pixel,
with Pillow's own `convert('RGBA')` of the source (after the same orientation) — cheap on 2x2 images.
"""
import base64
import io
import struct
import zlib

from harness import docs
from vlib import sx

MODES = ('1', 'L', 'LA', 'P', 'PA', 'RGB', 'RGBA', 'CMYK', 'I', 'I;16', 'F')
FORMATS = ('PNG', 'PNG', 'PNG', 'GIF', 'JPEG', 'TIFF', 'WEBP', 'BMP')
ORIENTATIONS = ('none', 'none', 'from-image', (90, False), (0, True), (180, True), (270, False))
_SOURCES = {}


def make_source(mode, fmt, transparency, size, variant):
    """-> bytes of an image file, or None when Pillow cannot write that combination."""
    key = (mode, fmt, transparency, size, variant)
    if key in _SOURCES:
        return _SOURCES[key]
    from PIL import Image
    import warnings
    image = Image.new(mode, size)
    bands = len(image.getbands())
    for y in range(size[1]):
        for x in range(size[0]):
            v = (x * 83 + y * 47 + variant * 29 + 11) % 256
            if mode == '1':
                value = (x + y + variant) % 2
            elif mode in ('I', 'I;16'):
                value = v * 251 % 65536
            elif mode == 'F':
                value = v / 3
            elif mode in ('P', 'PA'):
                value = (x + 2 * y + variant) % 4 if mode == 'P' else ((x + 2 * y + variant) % 4, v)
            elif bands == 1:
                value = v
            else:
                value = tuple((v + 61 * k) % 256 for k in range(bands))
                if mode in ('LA', 'RGBA'):
                    value = value[:-1] + ((x * 120 + y * 70 + variant * 40) % 256,)
            image.putpixel((x, y), value)
    if mode in ('P', 'PA'):
        image.putpalette([250, 10, 10, 10, 240, 20, 30, 40, 230, 200, 200, 60] + [0] * (252 * 3))
    options = {}
    if transparency:
        options['transparency'] = 1 if mode in ('P', 'L', '1', 'I', 'I;16') else (10, 50, 90)
    data = io.BytesIO()
    try:
        with warnings.catch_warnings():
            warnings.simplefilter('ignore')
            image.save(data, fmt, **options)
        result = data.getvalue()
    except Exception:  # noqa: BLE001 - Pillow cannot write this mode in this format
        result = None
    _SOURCES[key] = result
    return result


def orient(image, orientation):
    """The REFERENCE for `image-orientation` (css-images-3 §6.2), in Pillow operations -> (image, changed):
    the image is rotated to the RIGHT by the angle, then flipped horizontally.  Pillow's `ROTATE_n` turns
    counter-clockwise, so a clockwise turn by `angle` is `ROTATE_{360 - angle}`.  This is a statement of
    the specification, not a copy of `rotate_pillow_image` (which agrees with it since repair e4e2f8c): the
    decoded pixels of the embedded stream are compared with it."""
    from PIL import Image, ImageOps
    if orientation == 'from-image':
        if 'exif' in image.info:
            new = ImageOps.exif_transpose(image)
            return new, new is not image
        return image, False
    if orientation == 'none':
        return image, False
    angle, flip = orientation
    changed = False
    if angle > 0:
        clockwise = {90: Image.Transpose.ROTATE_270, 180: Image.Transpose.ROTATE_180,
                     270: Image.Transpose.ROTATE_90}[angle]
        image = image.transpose(clockwise)
        changed = True
    if flip:
        image = image.transpose(Image.Transpose.FLIP_LEFT_RIGHT)
        changed = True
    return image, changed


def _png(width, height, color_type, idat):
    def chunk(kind, data):
        return struct.pack('!I', len(data)) + kind + data + struct.pack('!I', zlib.crc32(kind + data) & 0xffffffff)
    return (b'\x89PNG\r\n\x1a\n' + chunk(b'IHDR', struct.pack('!IIBBBBB', width, height, 8, color_type, 0, 0, 0)) +
            chunk(b'IDAT', idat) + chunk(b'IEND', b''))


def _stream_bytes(stream):
    item = stream.stream[0]
    return item.data if hasattr(item, 'data') and not isinstance(item, bytes) else item


def decode_x_object(x_object):
    """FlateDecode + PNG predictor image XObject (+ SMask) -> Pillow RGBA image."""
    from PIL import Image
    extra = x_object.extra
    width, height = extra['Width'], extra['Height']
    assert extra['BitsPerComponent'] == 8 and extra['DecodeParms']['Predictor'] == 15
    rgb = extra['ColorSpace'] == '/DeviceRGB'
    assert (extra['DecodeParms'].get('Colors') == 3) == rgb
    base = Image.open(io.BytesIO(_png(width, height, 2 if rgb else 0, _stream_bytes(x_object))))
    base.load()
    base = base.convert('RGBA')
    if 'SMask' in extra:
        mask = extra['SMask']
        assert mask.extra['ColorSpace'] == '/DeviceGray' and (mask.extra['Width'], mask.extra['Height']) == (width, height)
        alpha = Image.open(io.BytesIO(_png(width, height, 0, _stream_bytes(mask))))
        alpha.load()
        base.putalpha(alpha.convert('L'))
    return base


def call_embed(data, optimize, quality, orientation, earlier=None):
    """The real loader and RasterImage -> canonical output (same tokens as the driver).
    `earlier`: an image-orientation with which the same URL was loaded before through the same image cache
    (as a document using one image twice does); the outcome must not depend on it."""
    from PIL import Image
    from weasyprint import DEFAULT_OPTIONS
    from weasyprint.images import RasterImage, get_image_from_uri
    from weasyprint.urls import default_url_fetcher
    options = dict(DEFAULT_OPTIONS, optimize_images=optimize, jpeg_quality=quality)
    uri = 'data:application/octet-stream;base64,' + base64.b64encode(data).decode()

    def run():
        # re-encoding = Pillow's save() is called while the image is loaded (identical bytes can come out of
        # it, so the bytes alone do not tell); Pillow is instrumented, WeasyPrint is not
        saves = []
        original_save = Image.Image.save

        def counting_save(self, *args, **kwargs):
            saves.append(kwargs.get('format'))
            return original_save(self, *args, **kwargs)
        cache = {}
        if earlier is not None:
            get_image_from_uri(cache, default_url_fetcher, options, uri, orientation=earlier)
        Image.Image.save = counting_save
        try:
            image = get_image_from_uri(cache, default_url_fetcher, options, uri, orientation=orientation)
        finally:
            Image.Image.save = original_save
        if image is None:
            return 'not-loaded'
        assert isinstance(image, RasterImage)
        x_object = image.get_x_object(True, 1)
        extra = x_object.extra
        reencoded = bool(saves) or image.image_data.data != data
        flate = extra['Filter'] == '/FlateDecode'
        colors3 = bool(flate and extra['DecodeParms'].get('Colors') == 3)
        faithful = image.format != 'JPEG' and image.mode in ('L', 'LA', 'RGB', 'RGBA')
        pixels = 'pixels-unchecked'
        if faithful:
            reference, _ = orient(Image.open(io.BytesIO(data)), orientation)
            reference = reference.convert('RGBA')
            decoded = decode_x_object(x_object)
            same = decoded.size == reference.size and list(decoded.getdata()) == list(reference.getdata())
            pixels = 'pixels-same' if same else 'pixels-differ'
        elif not flate and not reencoded:
            assert _stream_bytes(x_object) == data        # the JPEG file itself is the stream
        lower = lambda b: str(bool(b)).lower()  # noqa: E731
        return 'ok ' + ' '.join([
            image.mode if image.mode in MODES else 'other', lower(image.format == 'JPEG'), lower(reencoded),
            lower(image.invert_colors), extra['ColorSpace'], extra['Filter'], lower(colors3), lower('SMask' in extra),
            lower('Decode' in extra), pixels])
    return docs.outcome(run)


def describe(data, orientation):
    """What Pillow reports for the source: the abstract input of the model."""
    from PIL import Image
    image = Image.open(io.BytesIO(data))
    _, rotated = orient(image, orientation)
    mode = image.mode if image.mode in MODES else 'other'
    app14 = getattr(image, 'app', {}).get('APP14') is not None
    return mode, 'transparency' in image.info, image.format or 'none', app14, rotated


def case_embed(rng, adversarial=False):
    while True:
        mode = rng.choice(MODES)
        fmt = rng.choice(FORMATS)
        transparency = rng.random() < 0.4
        size = rng.choice([(2, 2), (3, 2), (1, 3)])
        variant = rng.randrange(3)
        data = make_source(mode, fmt, transparency, size, variant)
        if data is not None:
            break
    optimize = rng.random() < 0.25
    quality = rng.choice([None, None, None, 60])
    orientation = rng.choice(ORIENTATIONS)
    opened_mode, has_transparency, opened_format, app14, rotated = describe(data, orientation)
    earlier = None
    if rng.random() < 0.3:
        earlier = rng.choice([o for o in ORIENTATIONS if o != orientation])
        if call_embed(data, optimize, quality, earlier).startswith('err'):
            earlier = None              # the first use already fails: nothing reaches the cache
    out = call_embed(data, optimize, quality, orientation, earlier)
    line = sx.line('embed', opened_mode, has_transparency, opened_format, app14, rotated, True, optimize,
                   quality is not None)
    meta = {'fn': 'RasterImage', 'source': [mode, fmt, transparency, list(size), variant],
            'orientation': orientation if isinstance(orientation, str) else list(orientation),
            'earlier': earlier if earlier is None or isinstance(earlier, str) else list(earlier),
            'optimize': optimize, 'jpeg_quality': quality}
    tags = [f'embed:{opened_format}-{opened_mode}' + ('+t' if has_transparency else '')]
    if earlier is not None:
        tags.append('embed:cached-other-orientation')
    if rotated:
        tags.append('embed:rotated')
    if out.startswith('err'):
        tags.append('embed:' + out)
    return line, out, meta, has_transparency or opened_mode not in ('RGB', 'L'), tags


def fixed_cmyk_family():
    """A fixed family, run first: an Adobe CMYK JPEG (Pillow writes the APP14 marker: the samples are stored
    inverted) under every image-orientation x optimize_images: `/Decode [1 0 …]` must be there whether or not the
    image was transposed (a transposed Pillow image has lost the JPEG plugin's `.app` dictionary)."""
    cases = []
    for orientation in ('none', 'from-image', (90, False), (180, False), (0, True), (270, True)):
        for optimize in (False, True):
            meta = {'fn': 'RasterImage', 'source': ['CMYK', 'JPEG', False, [3, 2], 0],
                    'orientation': orientation if isinstance(orientation, str) else list(orientation),
                    'earlier': None, 'optimize': optimize, 'jpeg_quality': None}
            line, out = replay_embed(meta)
            cases.append((line, out, meta, True, ['embed:fixed-cmyk-jpeg']))
    return cases


def replay_embed(meta):
    """Re-run a case from its meta -> (line, out)."""
    mode, fmt, transparency, size, variant = meta['source']
    data = make_source(mode, fmt, transparency, tuple(size), variant)
    orientation = meta['orientation'] if isinstance(meta['orientation'], str) else tuple(meta['orientation'])
    opened_mode, has_transparency, opened_format, app14, rotated = describe(data, orientation)
    earlier = meta.get('earlier')
    earlier = tuple(earlier) if isinstance(earlier, list) else earlier
    out = call_embed(data, meta['optimize'], meta['jpeg_quality'], orientation, earlier)
    line = sx.line('embed', opened_mode, has_transparency, opened_format, app14, rotated, True, meta['optimize'],
                   meta['jpeg_quality'] is not None)
    return line, out


def finding_grey16():
    """Known finding: a 16-bit greyscale PNG (Pillow mode I;16) is declared /DeviceRGB, 8 bits, one colour
    per sample, over 16-bit sample data.  True while it still fails."""
    data = make_source('I;16', 'PNG', False, (2, 2), 0)
    out = call_embed(data, False, None, 'none')
    return out.startswith('err') or (out.split()[1] == 'I;16' and out.split()[5] == '/DeviceRGB')


def regression_unwritable_mode():
    """Fixed finding unwritable-mode-crash (d7dc388): a CMYK TIFF / PA / F image (modes Pillow cannot write as
    PNG) made the image loader raise OSError.  -> list of regression cases (same protocol as `case_embed`)."""
    cases = []
    for mode, fmt in (('CMYK', 'TIFF'), ('PA', 'TIFF'), ('F', 'TIFF')):
        meta = {'fn': 'RasterImage', 'source': [mode, fmt, False, [2, 2], 0], 'orientation': 'none',
                'earlier': None, 'optimize': False, 'jpeg_quality': None, 'regression': 'unwritable-mode-crash'}
        line, out = replay_embed(meta)
        cases.append((line, out, meta, True, ['regression:unwritable-mode-crash']))
    return cases


# ---------------------------------------------------------------------------------------------
# RasterImage._get_png_data: the chunk walk that extracts the IDAT payload

CHUNK_TYPES = (b'IDAT', b'IDAT', b'IDAT', b'IHDR', b'IEND', b'tEXt', b'PLTE', b'tRNS', b'idat', b'IDAT', b'pHYs')
PNG_SIGNATURE = b'\x89PNG\r\n\x1a\n'


class _WrittenFile:
    """What `_get_png_data` needs of a Pillow image: `save(file, format='PNG')` writes these bytes."""

    def __init__(self, data):
        self.data = data

    def save(self, image_file, format=None):
        assert format == 'PNG'
        image_file.write(self.data)


def gen_png_chunks(rng, adversarial):
    chunks = []
    for _ in range(rng.choice([0, 1, 2, 3, 4, 5, 6])):
        kind = rng.choice(CHUNK_TYPES)
        data = bytes(rng.randrange(256) for _ in range(rng.choice([0, 0, 1, 2, 3, 5, 9])))
        crc = bytes(rng.randrange(256) for _ in range(4))
        chunks.append((kind, data, crc))
    return chunks


def encode_chunks(chunks):
    return b''.join(struct.pack('!I', len(data)) + kind + data + crc for kind, data, crc in chunks)


def run_png_data(file_bytes):
    from weasyprint.images import RasterImage
    out = docs.outcome(lambda: 'ok (' + ' '.join(str(b) for b in RasterImage._get_png_data(_WrittenFile(file_bytes))) + ')')
    return sx.line('pngdata', list(file_bytes)), out


def case_png_data(rng, adversarial=False):
    """The real `RasterImage._get_png_data` on a file made of the PNG signature and random chunks (any types,
    several / empty IDATs, ancillary chunks in between); adversarial: a truncated or over-long tail, a length
    field that runs past the end of the file."""
    chunks = gen_png_chunks(rng, adversarial)
    data = PNG_SIGNATURE + encode_chunks(chunks)
    shape = 'wellformed'
    if adversarial:
        k = rng.random()
        if k < 0.35:
            data, shape = data[:rng.randrange(len(data) + 1)], 'truncated'
        elif k < 0.55:
            data, shape = data + bytes(rng.randrange(256) for _ in range(rng.choice([1, 2, 3, 5]))), 'garbage-tail'
        elif k < 0.75:
            # a length field larger than what is left
            data += struct.pack('!I', rng.choice([50, 2 ** 31, 2 ** 32 - 1])) + rng.choice(CHUNK_TYPES) + b'\x01\x02'
            shape = 'length-overrun'
    line, out = run_png_data(data)
    idats = sum(1 for kind, _, _ in chunks if kind == b'IDAT')
    meta = {'fn': '_get_png_data', 'file': list(data), 'shape': shape,
            'chunks': [[kind.decode('latin1'), list(d), list(c)] for kind, d, c in chunks] if shape == 'wellformed'
            else None}
    return line, out, meta, idats > 1 or shape != 'wellformed', [f'pngdata:{shape}', f'pngdata:idat{min(idats, 3)}'] + (
        ['pngdata:' + out] if out.startswith('err') else [])


def real_png_streams(rng):
    """`_get_png_data` on a real Pillow image (Pillow's own writer: IHDR, IDAT…, IEND, sometimes PLTE / tRNS) ->
    (line, out, meta): the protocol line carries the bytes of the file Pillow wrote."""
    import io
    from PIL import Image
    mode = rng.choice(['L', 'LA', 'RGB', 'RGBA', 'P', '1'])
    image = Image.new(mode, (rng.choice([1, 2, 5, 9]), rng.choice([1, 3, 4])))
    for y in range(image.height):
        for x in range(image.width):
            image.putpixel((x, y), rng.randrange(2) if mode in ('1',) else rng.randrange(256) if mode in ('L', 'P')
                           else tuple(rng.randrange(256) for _ in image.getbands()))
    buf = io.BytesIO()
    image.save(buf, format='PNG')
    line, out = run_png_data(buf.getvalue())
    return line, out, {'fn': '_get_png_data', 'file': list(buf.getvalue()), 'shape': 'pillow', 'chunks': None}


# ---------------------------------------------------------------------------------------------
# image-orientation: computed value and the transpositions applied by rotate_pillow_image

def grid_image(rows):
    from PIL import Image
    image = Image.new('L', (len(rows[0]), len(rows)))
    for y, row in enumerate(rows):
        for x, value in enumerate(row):
            image.putpixel((x, y), value)
    return image


def run_orientation(rows, orientation):
    """The real `rotate_pillow_image` on a greyscale pixel grid -> (line, out, meta)."""
    from weasyprint.images import rotate_pillow_image

    def run():
        source = grid_image(rows)
        result = rotate_pillow_image(source, orientation)
        grid = [[result.getpixel((x, y)) for x in range(result.width)] for y in range(result.height)]
        text = ' '.join('(' + ' '.join(str(v) for v in row) + ')' for row in grid)
        return f'ok {str(result is not source).lower()} {result.width} {result.height} ({text})'
    out = docs.outcome(run)
    kind, angle, flip = (orientation, 0, False) if isinstance(orientation, str) else ('turn', *orientation)
    line = sx.line('orient', kind, angle, flip, rows)
    return line, out, {'fn': 'rotate_pillow_image', 'rows': rows, 'orientation': orientation}


def case_orientation(rng, adversarial=False):
    """The real `rotate_pillow_image` on a tiny greyscale image whose pixels are all different."""
    w, h = rng.choice([1, 2, 3]), rng.choice([1, 2, 3])
    values = rng.sample(range(1, 250), w * h)
    rows = [values[y * w:(y + 1) * w] for y in range(h)]
    orientation = rng.choice(['none', 'from-image', (0, False), (0, True), (90, False), (90, True), (180, False),
                              (180, True), (270, False), (270, True)])
    line, out, meta = run_orientation(rows, orientation)
    kind, angle, flip = (orientation, 0, False) if isinstance(orientation, str) else ('turn', *orientation)
    return (line, out, meta, not isinstance(orientation, str), [f'orient:{kind}:{angle}:{str(flip).lower()}'])


def case_orientation_angle(rng, adversarial=False):
    """The real computed-value function on `<angle>` values (degrees, away from the 45deg rounding ties)."""
    import math
    from weasyprint.css.computed_values import image_orientation
    degrees = rng.choice([0, 90, 180, 270, 360, 450, -90, -180, -270, 10, 44, 46, 89, 100, 134, 136, 200, 300, 359,
                          -10, -44, -46, -100, 720, 1000, rng.randint(-720, 720)])
    if (degrees - 45) % 90 == 0:
        degrees += 1
    flip = rng.random() < 0.5
    out = docs.outcome(lambda: str(image_orientation(None, 'image_orientation', (degrees * math.pi / 180, flip))[0]))
    from fractions import Fraction
    line = sx.line('orientangle', Fraction(degrees, 90))
    return line, out, {'fn': 'computed image_orientation', 'degrees': degrees}, degrees % 360 != 0, [
        f'orientangle:{(round(degrees / 90) % 4) * 90}']


def regression_orientation_ccw():
    """Fixed finding image-orientation-rotates-ccw (e4e2f8c): `image-orientation: 90deg` turned the image to
    the left.  -> regression cases on the input of the former witness ([A B], 90deg and 270deg)."""
    cases = []
    for orientation in ((90, False), (270, False), (90, True)):
        line, out, meta = run_orientation([[10, 20]], orientation)
        meta['regression'] = 'image-orientation-rotates-ccw'
        cases.append((line, out, meta, True, ['regression:image-orientation-rotates-ccw']))
    return cases
