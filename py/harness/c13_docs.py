"""C13 document level: generated PNGs (Pillow) used as <img> and as backgrounds, rendered by the real
pipeline; box sizes, painted rectangles (`cm … Do`, pattern dictionaries) and the number of image
XObjects of the uncompressed PDF are compared with the Lean model run on the same abstract input.

All lengths are dyadic (integers, halves; image sides powers of two) so the float layout is exact;
`Fraction(float)` is compared exactly.  PDF numbers are printed by pydyf with 6 decimals: a value is
compared through the PDF only when that printing is lossless (checked on the real float), otherwise
the case is tagged `pdf-rounded` and only the in-memory value is compared.
"""
import base64
import io
import math
import re
from fractions import Fraction

from harness import c13_real as real
from harness import docs
from harness.c13_real import ok
from vlib import sx

PAGE_W, PAGE_H = 400, 65536
SCALE = Fraction(3, 4)
_PNG = {}
COLORS = [(200, 30, 30), (30, 160, 60), (40, 60, 200), (230, 200, 40)]


def png_uri(pw, ph, color):
    key = (pw, ph, color)
    if key not in _PNG:
        from PIL import Image
        buf = io.BytesIO()
        Image.new('RGB', (pw, ph), COLORS[color]).save(buf, 'PNG')
        _PNG[key] = 'data:image/png;base64,' + base64.b64encode(buf.getvalue()).decode()
    return _PNG[key]


def F(x, d=1):
    return Fraction(x) / d


ROUNDED = [0]


def snap(x):
    """Float results that are not dyadic (a third of a pixel after `round` repeat, …) cannot be exact:
    a value within 1e-12 (relative) of a rational with denominator <= 4096 is reported as that
    rational and counted under `doc:float-rounding`; every other value is compared exactly."""
    f = Fraction(x)
    if f.denominator <= 4096:
        return f
    g = f.limit_denominator(4096)
    if abs(g - f) <= Fraction(1, 10 ** 12) * max(1, abs(f)):
        ROUNDED[0] += 1
        return g
    return f


def fmt(x):
    return real.fmt(snap(x) if isinstance(x, (float, Fraction)) else x)


def fmt_pair(p):
    return f'{fmt(p[0])} {fmt(p[1])}'


def fmt_rect(r):
    return '(' + ' '.join(fmt(v) for v in r) + ')'


def layer_out(layer):
    text = 'painting ' + fmt_rect(layer.painting_area) + ' '
    return (text + f'size ({fmt_pair(layer.size)}) position ({fmt_pair(layer.position)}) positioning ' +
            fmt_rect(layer.positioning_area))


def resnap(text):
    """Snap every number of a canonical output string."""
    return re.sub(r'-?\d+(?:/\d+)?', lambda m: real.fmt(snap(Fraction(m.group(0)))), text)


def css_len(d):
    """('px', v) / ('%', v) / 'auto' / 'none' -> CSS text."""
    if isinstance(d, str):
        return d
    unit, value = d
    return f'{float(value):g}{unit}'


def gen_size(rng, percent_ok=True, p_auto=0.45):
    k = rng.random()
    if k < p_auto:
        return 'auto'
    if k < 0.8 or not percent_ok:
        return ('px', F(rng.choice([8, 16, 20, 33, 40, 64, 100, 150, 250])) + rng.choice([0, 0, F(1, 2)]))
    return ('%', F(rng.choice([25, 50, 100, 75, F(25, 2)])))


def gen_position_css(rng):
    """-> (css text, (from_right, xdim, from_bottom, ydim))"""
    k = rng.random()
    if k < 0.3:
        x, y = rng.choice([0, 50, 100]), rng.choice([0, 50, 100])
        return f'{x}% {y}%', (False, ('%', F(x)), False, ('%', F(y)))
    if k < 0.5:
        x, y = rng.choice([0, 3, 10, -4]), rng.choice([0, 2, 7, -6])
        return f'{x}px {y}px', (False, ('px', F(x)), False, ('px', F(y)))
    if k < 0.8:
        x, y = rng.choice([0, 4, 12]), rng.choice([0, 8, 50])
        hx, hy = rng.choice(['left', 'right']), rng.choice(['top', 'bottom'])
        yunit = rng.choice(['px', '%'])
        if yunit == '%':
            y = rng.choice([0, 50, 100])
        return f'{hx} {x}px {hy} {y}{yunit}', (hx == 'right', ('px', F(x)), hy == 'bottom', (yunit, F(y)))
    kx, ky = rng.choice(['left', 'center', 'right']), rng.choice(['top', 'center', 'bottom'])
    pct = {'left': 0, 'center': 50, 'right': 100, 'top': 0, 'bottom': 100}
    return f'{kx} {ky}', (False, ('%', F(pct[kx])), False, ('%', F(pct[ky])))


def gen_img(rng, index, block):
    spec = {'id': f'i{index}', 'pw': rng.choice([1, 2, 4, 8, 16, 32]), 'ph': rng.choice([1, 2, 4, 8, 16, 32]),
            'color': rng.randrange(2), 'block': block}
    if rng.random() < 0.45:
        spec['pw'], spec['ph'], spec['color'] = 8, 4, 0           # a frequently shared source
    spec['width'], spec['height'] = gen_size(rng), gen_size(rng)
    spec['min_width'] = gen_size(rng, p_auto=0.8)
    spec['min_height'] = gen_size(rng, p_auto=0.8)
    spec['max_width'] = gen_size(rng, p_auto=0.75)
    spec['max_height'] = gen_size(rng, p_auto=0.75)
    for side in ('left', 'right', 'top', 'bottom'):
        k = rng.random()
        spec[f'margin_{side}'] = (('px', F(0)) if k < 0.6 else
                                  'auto' if k < 0.75 else ('px', F(rng.choice([2, 5, 12, -3]))))
        spec[f'padding_{side}'] = ('px', F(0)) if rng.random() < 0.6 else ('px', F(rng.choice([1, 3, 8])))
        spec[f'border_{side}'] = F(0) if rng.random() < 0.6 else F(rng.choice([1, 2, 5]))
    spec['fit'] = rng.choice(real.FITS)
    spec['position_css'], spec['position'] = gen_position_css(rng)
    spec['res'] = rng.choice([F(1), F(1), F(2), F(1, 2), F(4)])
    spec['rendering'] = rng.choice(['auto', 'auto', 'pixelated', 'crisp-edges'])
    spec['res_unit'] = rng.choice(['dppx', 'dppx', 'dpi'])
    # image-orientation: a quarter turn exchanges the intrinsic width and height
    spec['orientation'] = rng.choice([None, None, None, '90deg', '180deg', 'flip', '270deg flip', 'none'])
    spec['kind'] = rng.choice(['img', 'img', 'object', 'embed'])
    # opacity < 1: the image is painted inside a transparency group, a content stream with its own /Resources
    spec['opacity'] = rng.choice([None, None, None, None, '0.5', '0.25'])
    if not block and rng.random() < 0.12:
        # generated content: `::before { content: url(…) }` — an anonymous inline replaced box, every sizing
        # property at its initial value; image-resolution and image-rendering are inherited from the pseudo-element
        spec['kind'] = 'content'
        spec['opacity'] = None
        for name in ('width', 'height', 'min_width', 'min_height', 'max_width', 'max_height'):
            spec[name] = 'auto'
        for side in ('left', 'right', 'top', 'bottom'):
            spec[f'margin_{side}'] = spec[f'padding_{side}'] = ('px', F(0))
            spec[f'border_{side}'] = F(0)
        spec['fit'], spec['position_css'] = 'fill', '50% 50%'
        spec['position'] = (False, ('%', F(50)), False, ('%', F(50)))
        return spec
    if rng.random() < 0.2:
        # an SVG: intrinsic width / height / ratio each possibly missing (sizing only; its painting is svg/)
        spec['kind'] = 'svg'
        spec['opacity'] = None
        spec['svg'] = real.gen_svg(rng, all_powers_of_two=True)     # keeps every ratio a power of two
        if rng.random() < 0.4:
            # only a ratio (viewBox): point 3 of CSS 2.1 10.3.2, the one place where the containing block matters
            spec['svg'] = (None, None, (F(rng.choice([1, 2, 4, 8])), F(rng.choice([1, 2, 4, 8]))))
            if rng.random() < 0.7:
                spec['width'] = spec['height'] = 'auto'
    return spec


def resolution_css(spec):
    """`image-resolution` in dppx or, equivalently, in dpi (96dpi = 1dppx: the products are exact doubles)."""
    if spec.get('res_unit') == 'dpi':
        return f'{float(spec["res"] * 96):g}dpi'
    return f'{float(spec["res"]):g}dppx'


def img_html(spec):
    css = [f'display:{"block" if spec["block"] else "inline"}', 'vertical-align:top',
           f'object-fit:{spec["fit"]}', f'object-position:{spec["position_css"]}',
           f'image-resolution:{resolution_css(spec)}', f'image-rendering:{spec["rendering"]}']
    if spec.get('orientation'):
        css.append(f'image-orientation:{spec["orientation"]}')
    if spec.get('opacity'):
        css.append(f'opacity:{spec["opacity"]}')
    for name in ('width', 'height'):
        css.append(f'{name}:{css_len(spec[name])}')
        css.append(f'min-{name}:{css_len(spec["min_" + name])}')
        mx = spec['max_' + name]
        css.append(f'max-{name}:{"none" if mx == "auto" else css_len(mx)}')
    for side in ('left', 'right', 'top', 'bottom'):
        css.append(f'margin-{side}:{css_len(spec["margin_" + side])}')
        css.append(f'padding-{side}:{css_len(spec["padding_" + side])}')
        css.append(f'border-{side}:{float(spec["border_" + side]):g}px solid black')
    uri, style, kind = png_uri(spec['pw'], spec['ph'], spec['color']), ';'.join(css), spec.get('kind', 'img')
    if kind == 'content':
        orientation = f'image-orientation:{spec["orientation"]};' if spec.get('orientation') else ''
        return (f'<style>#{spec["id"]}::before{{content:url({uri});image-resolution:{resolution_css(spec)};'
                f'{orientation}image-rendering:{spec["rendering"]};vertical-align:top}}</style>'
                f'<span id="{spec["id"]}"></span>')
    if kind == 'svg':
        source = real.svg_source(*spec['svg']).encode()
        uri, kind = 'data:image/svg+xml;base64,' + base64.b64encode(source).decode(), 'img'
    if kind == 'object':
        return f'<object id="{spec["id"]}" data="{uri}" type="image/png" style="{style}"></object>'
    if kind == 'embed':
        return f'<embed id="{spec["id"]}" src="{uri}" type="image/png" style="{style}">'
    return f'<img id="{spec["id"]}" src="{uri}" style="{style}">'


def gen_bg(rng, index):
    spec = {'id': f'b{index}', 'pw': rng.choice([2, 4, 8, 16]), 'ph': rng.choice([2, 4, 8, 16]),
            'color': 2 + rng.randrange(2), 'width': F(rng.choice([64, 100, 128, 96])),
            'height': F(rng.choice([32, 48, 64, 100]))}
    if rng.random() < 0.3:
        spec['pw'], spec['ph'], spec['color'] = 8, 4, 0           # the same source as some <img>
    spec['padding'] = F(rng.choice([0, 0, 4, 8]))
    spec['border'] = F(rng.choice([0, 0, 2, 4]))
    k = rng.random()
    if k < 0.2:
        spec['size'], spec['size_css'] = 'cover', 'cover'
    elif k < 0.4:
        spec['size'], spec['size_css'] = 'contain', 'contain'
    else:
        def one():
            j = rng.random()
            if j < 0.4:
                return 'auto'
            if j < 0.7:
                return ('px', F(rng.choice([4, 8, 16, 24, 32, 48])))
            return ('%', F(rng.choice([25, 50, 100])))
        spec['size'] = (one(), one())
        spec['size_css'] = f'{css_len(spec["size"][0])} {css_len(spec["size"][1])}'
    spec['repeat'] = (rng.choice(real.REPEATS), rng.choice(real.REPEATS))
    if 'round' in spec['repeat']:
        # keep area / tile-count dyadic: `round` divides the positioning area by the tile count, and a
        # third of a pixel would then feed the discrete decisions of `space` / `round` in floats
        spec['width'], spec['height'] = F(rng.choice([32, 64, 128])), F(rng.choice([32, 64, 128]))
        spec['padding'] = spec['border'] = F(0)
        if not isinstance(spec['size'], str):
            fix = lambda d: ('px', F(rng.choice([4, 8, 16, 32]))) if d != 'auto' and d[0] == 'px' else d
            spec['size'] = (fix(spec['size'][0]), fix(spec['size'][1]))
            spec['size_css'] = f'{css_len(spec["size"][0])} {css_len(spec["size"][1])}'
    spec['origin'], spec['clip'] = rng.choice(real.AREAS), rng.choice(real.AREAS)
    spec['position_css'], spec['position'] = gen_position_css(rng)
    spec['res'] = rng.choice([F(1), F(1), F(2), F(1, 2)])
    return spec


def bg_html(spec):
    css = [f'width:{float(spec["width"]):g}px', f'height:{float(spec["height"]):g}px',
           f'padding:{float(spec["padding"]):g}px', f'border:{float(spec["border"]):g}px solid black',
           f'background-image:url({png_uri(spec["pw"], spec["ph"], spec["color"])})',
           f'background-size:{spec["size_css"]}', f'background-repeat:{spec["repeat"][0]} {spec["repeat"][1]}',
           f'background-origin:{spec["origin"]}', f'background-clip:{spec["clip"]}',
           f'background-position:{spec["position_css"]}', f'image-resolution:{float(spec["res"]):g}dppx']
    return f'<div id="{spec["id"]}" style="{";".join(css)}"></div>'


def gen_document(rng):
    block = rng.random() < 0.5
    rtl = block and rng.random() < 0.25
    cb = {'width': F(rng.choice([100, 200, 300, 150])) + rng.choice([0, F(1, 2)]),
          'height': rng.choice(['auto', 'auto', F(64), F(100), F(200)]),
          'padding_left': F(rng.choice([0, 0, 10])), 'rtl': rtl}
    imgs = [gen_img(rng, i, block) for i in range(rng.choice([1, 2, 3, 4]))]
    bgs = [gen_bg(rng, i) for i in range(rng.choice([0, 1, 2]))]
    return {'cb': cb, 'imgs': imgs, 'bgs': bgs}


def document_html(doc):
    cb = doc['cb']
    style = (f'width:{float(cb["width"]):g}px;padding-left:{float(cb["padding_left"]):g}px;'
             f'direction:{"rtl" if cb["rtl"] else "ltr"};' +
             ('' if cb['height'] == 'auto' else f'height:{float(cb["height"]):g}px;'))
    parts = [f'<style>@page{{size:{PAGE_W}px {PAGE_H}px;margin:0}}'
             'body{margin:0;font-size:20px;line-height:20px}</style>']
    for spec in doc['imgs']:
        parts.append(f'<div class="cb" style="{style}">{img_html(spec)}</div>')
    for spec in doc['bgs']:
        parts.append(bg_html(spec))
    return ''.join(parts)


# ---------------------------------------------------------------------------------------------
# reading the result

def small_dyadic(v):
    d = Fraction(v).denominator
    return d <= 4096 and d & (d - 1) == 0


def exact_geom(box):
    return {name: F(getattr(box, name)) for name in real.GEOM_FIELDS}


def lossless(values):
    return all(float(f'{float(v):f}') == float(v) for v in values)


def pdf_objects(pdf_bytes):
    text = pdf_bytes.decode('latin1')
    return text, {int(m.group(1)): m.group(2) for m in re.finditer(r'(\d+) 0 obj\n(.*?)endobj', text, re.S)}


def stream_of(obj_text):
    m = re.search(r'stream\n(.*?)\n?endstream', obj_text, re.S)
    return m.group(1) if m else ''


def num(token):
    return Fraction(token)


IMG_NAME = r'i[0-9a-f]{32}[01]'


def page_image_draws(page_stream):
    """[(translate x, y, w, h, name)] for every `q /a1 gs 1 0 0 1 x y cm q w 0 0 -h 0 h cm /name Do` group."""
    out = []
    pattern = re.compile(
        r'1 0 0 1 (\S+) (\S+) cm\nq\n(\S+) 0 0 (\S+) 0 (\S+) cm\n/(' + IMG_NAME + r') Do')
    for m in pattern.finditer(page_stream):
        x, y, w, mh, h, name = m.groups()
        assert num(mh) == -num(h)
        out.append((num(x), num(y), num(w), num(h), name))
    return out


def pdf_resource_tree(objects, resources_number):
    """The /Resources dictionary `resources_number` of an uncompressed PDF as `showTree` prints it: XObject
    entries in dictionary order (image: its name; Form XObject: `(key (XObject…) (Pattern…))` of its own
    /Resources), then Pattern entries likewise."""
    text = objects[resources_number]
    m = re.search(r'/XObject <<(.*?)>>/Pattern <<(.*?)>>', text, re.S)
    assert m, text
    parts = []
    for body in m.groups():
        items = []
        for key, number in re.findall(r'/(\S+) (\d+) 0 R', body):
            target = objects[int(number)]
            if '/Subtype /Image' in target.split('stream')[0]:
                items.append(key)
            else:
                own = re.search(r'/Resources (\d+) 0 R', target.split('stream')[0])
                assert own, target[:200]
                items.append(f'({key} {pdf_resource_tree(objects, int(own.group(1)))})')
        parts.append('(' + ' '.join(items) + ')')
    return ' '.join(parts)


def pdf_undefined_uses(objects):
    """[(object number, name)] for every `/name Do` of a content stream (page contents, Form XObject, tiling
    pattern) whose name is not in the /Resources /XObject of that very stream."""
    owner = {}                       # content stream object -> its resources object
    for number, text in objects.items():
        head = text.split('stream')[0]
        if '/Type /Page/' in head or head.startswith('<</Type /Page/'):
            contents = re.search(r'/Contents (\d+) 0 R', head)
            res = re.search(r'/Resources (\d+) 0 R', head)
            if contents and res:
                owner[int(contents.group(1))] = int(res.group(1))
        elif 'stream' in text and '/Resources ' in head:
            owner[number] = int(re.search(r'/Resources (\d+) 0 R', head).group(1))
    missing = []
    for number, res in owner.items():
        m = re.search(r'/XObject <<(.*?)>>', objects[res], re.S)
        defined = set(re.findall(r'/(\S+) \d+ 0 R', m.group(1))) if m else set()
        for name in re.findall(r'/(\S+) Do', stream_of(objects[number])):
            if name not in defined:
                missing.append((number, name))
    return missing


def dim_wire(d):
    return d if isinstance(d, str) else [d[0], d[1]]


def position_wire(p):
    return [p[0], dim_wire(p[1]), p[2], dim_wire(p[3])]


def run_document(doc):
    """Render; return the list of cases (line, impl_out, meta, nontrivial, tags)."""
    from weasyprint.formatting_structure import boxes
    from weasyprint.layout import replaced
    html = document_html(doc)
    document = docs.render(html)
    assert len(document.pages) == 1
    page_box = document.pages[0]._page_box
    by_id, containers = {}, {}
    for box in page_box.descendants():
        element = getattr(box, 'element', None)
        if element is not None and element.get('id') and not isinstance(box, (boxes.LineBox, boxes.TextBox)):
            if isinstance(box, boxes.ReplacedBox) or element.get('id').startswith('b'):
                by_id.setdefault(element.get('id'), box)
        if isinstance(box, boxes.BlockBox) and element is not None and element.get('class') == 'cb':
            for child in box.descendants():
                child_element = getattr(child, 'element', None)
                if isinstance(child, boxes.ReplacedBox) and child_element is not None:
                    containers[child_element.get('id')] = box
    pdf_text, objects = pdf_objects(document.write_pdf(uncompressed_pdf=True))
    page_object = next(o for o in objects.values() if o.startswith('<</Type /Page/'))
    page_stream = stream_of(objects[int(re.search(r'/Contents (\d+) 0 R', page_object).group(1))])
    resources = re.search(r'/XObject <<(.*?)>>/Pattern <<(.*?)>>', pdf_text, re.S)
    page_draws = page_image_draws(page_stream)
    cases = []
    meta_doc = {'doc': doc, 'html': html}
    cb = doc['cb']

    # ---- <img>: used size, painted rectangle
    rasters = [spec for spec in doc['imgs'] if spec.get('kind') != 'svg']
    # images with opacity < 1 are stacking contexts: painted after the others (CSS 2.1 appendix E, step 8), in
    # tree order, each inside its own transparency group `/xN Do` of the page stream
    resources_text = re.search(r'/XObject <<(.*?)>>/Pattern <<(.*?)>>', pdf_text, re.S)
    page_groups = dict(re.findall(r'/(x\d+) (\d+) 0 R', resources_text.group(1))) if resources_text else {}
    opacity_groups = re.findall(r'/A0\.\d+ gs\n/a0\.\d+ gs\n/(x\d+) Do', page_stream)
    group_draws = []
    for key in opacity_groups:
        found = page_image_draws(stream_of(objects[int(page_groups[key])]))
        assert len(found) == 1, (key, found)
        group_draws.append(found[0])
    plain = [spec for spec in rasters if not spec.get('opacity')]
    faded = [spec for spec in rasters if spec.get('opacity')]
    assert (len(page_draws), len(group_draws)) == (len(plain), len(faded)), (
        len(page_draws), len(group_draws), len(plain), len(faded))
    img_draws, faded_draws, bg_draws = [], [], []
    draw_of = {spec['id']: draw for spec, draw in zip(plain, page_draws)}
    draw_of.update({spec['id']: draw for spec, draw in zip(faded, group_draws)})
    for spec in doc['imgs']:
        draw = draw_of.get(spec['id'])
        box = by_id[spec['id']]
        container = containers[spec['id']]
        assert isinstance(box, boxes.BlockReplacedBox if spec['block'] else boxes.InlineReplacedBox)
        image = box.replacement
        is_svg = spec.get('kind') == 'svg'
        quarter = str(spec.get('orientation') or '').startswith(('90deg', '270deg'))
        pw, ph = (spec['ph'], spec['pw']) if quarter else (spec['pw'], spec['ph'])
        assert is_svg or (image.width, image.height) == (pw, ph), (
            f'{spec.get("kind")} #{spec["id"]} with image-orientation {spec.get("orientation") or "from-image"}: the '
            f'replaced box shows a {image.width}x{image.height} px image, the {spec["pw"]}x{spec["ph"]} px source under '
            f'that orientation is {pw}x{ph} px')
        css = [dim_wire(spec[k]) for k in ('width', 'height', 'min_width', 'min_height')]
        css += ['none' if spec[k] == 'auto' else dim_wire(spec[k]) for k in ('max_width', 'max_height')]
        css += [dim_wire(spec[f'margin_{s}']) for s in ('left', 'right', 'top', 'bottom')]
        css += [dim_wire(spec['padding_left']), dim_wire(spec['padding_right']),
                spec['border_left'], spec['border_right']]
        cx = snap(F(container.content_box_x()) if spec['block'] else F(box.position_x))
        pos_y = snap(F(box.position_y))
        if is_svg:
            line = sx.line('docsvg', spec['block'], css, [cb['width'], cb['rtl']], cb['height'], cx,
                           pos_y, *real.svg_model_args(*spec['svg']))
        else:
            line = sx.line('docimg', spec['block'], css, [cb['width'], cb['rtl']], cb['height'], cx,
                           pos_y, pw, ph, spec['res'], F(image.ratio))
        out = ok(' '.join(fmt(F(getattr(box, n))) for n in real.RBOX_OUT) +
                 f' at {fmt(F(box.position_x))} {fmt(F(box.position_y))}')
        sized = 'auto' in (spec['width'], spec['height']) or any(
            spec[k] != 'auto' for k in ('min_width', 'min_height', 'max_width', 'max_height'))
        cases.append((line, out, dict(meta_doc, what='docimg', id=spec['id']), sized,
                      ['doc:img-block' if spec['block'] else 'doc:img-inline', f'doc:{spec["kind"]}',
                       f'doc:w-{spec["width"] if spec["width"] == "auto" else spec["width"][0]}',
                       f'doc:h-{spec["height"] if spec["height"] == "auto" else spec["height"][0]}']))

        # painted rectangle: the real box -> replacedbox_layout (in memory) and the PDF operators
        g = exact_geom(box)
        if not all(small_dyadic(v) for v in g.values()):
            # a third of a pixel somewhere above (300px default width through a ratio, …): the float geometry
            # of this box is not exact, only its used size (snapped) was compared
            cases[-1][4].append('doc:geom-inexact')
            if not is_svg:
                leaf = ['i', image.id, spec['rendering'] == 'auto', 1, False]
                (faded_draws.append(['g', leaf]) if spec.get('opacity') else img_draws.append(leaf))
            continue
        rect = replaced.replacedbox_layout(box)
        intr = [None if v is None else F(v) for v in image.get_intrinsic_size(float(spec['res']), 20.0)]
        line = sx.line('rlayout', real.geom_wire(g), spec['fit'], position_wire(spec['position']), intr)
        cases.append((line, ok(' '.join(real.fmt(F(v)) for v in rect)), dict(meta_doc, what='rlayout', id=spec['id']),
                      spec['fit'] != 'fill', [f'doc:fit-{spec["fit"]}']))
        if is_svg:
            continue
        name = f'i{image.id}{int(spec["rendering"] == "auto")}'
        leaf = ['i', image.id, spec['rendering'] == 'auto', 1, False]
        (faded_draws.append(['g', leaf]) if spec.get('opacity') else img_draws.append(leaf))
        x, y, w, h, pdf_name = draw
        line = sx.line('drawrep', True, real.geom_wire(g), spec['fit'], position_wire(spec['position']),
                       spec['res'], F(image.ratio), image.id, pw, ph, None, SCALE, -SCALE,
                       spec['rendering'] == 'auto')
        if lossless(rect):
            out = ok(f'(1 0 0 1 {fmt(x)} {fmt(y)}) {pdf_name} {str(pdf_name.endswith("1")).lower()} 1 '
                     f'({fmt(w)} 0 0 {fmt(-h)} 0 {fmt(h)})')
            cases.append((line, out, dict(meta_doc, what='pdf-cm-do', id=spec['id']), True, ['doc:pdf-cm-do']))
        else:
            assert pdf_name == name
            cases.append((sx.line('imgname', image.id, spec['rendering'] == 'auto'), pdf_name,
                          dict(meta_doc, what='pdf-name', id=spec['id']), False, ['doc:pdf-rounded']))

    # ---- backgrounds: layer in memory, then the group / pattern of the PDF
    page_g = exact_geom(page_box)
    group_refs = re.findall(r'/(x\d+) (\d+) 0 R', resources.group(1)) if resources else []
    pattern_refs = re.findall(r'/(p\d+) (\d+) 0 R', resources.group(2)) if resources else []
    # page-level group invocations, in paint order
    group_order = [key for key in re.findall(r'/(x\d+) Do', page_stream) if key not in opacity_groups]
    pattern_order = re.findall(r'/(p\d+) scn', page_stream)
    groups, patterns = dict(group_refs), dict(pattern_refs)
    gi = pi = 0
    for spec in doc['bgs']:
        box = by_id[spec['id']]
        layer, = box.background.layers
        image = layer.image
        if image is None:
            # zero intrinsic size cannot happen with Pillow images
            raise AssertionError('background image missing')
        g = exact_geom(box)
        if not all(small_dyadic(v) for v in g.values()):
            if 0 not in layer.size:
                leaf = ['i', image.id, True, 1, False]
                bg_draws.append(['g', leaf] if layer.repeat == ('no-repeat', 'no-repeat') else ['p', ['g', leaf]])
                if layer.repeat == ('no-repeat', 'no-repeat'):
                    gi += 1
                else:
                    pi += 1
            continue
        intr = [F(v) for v in image.get_intrinsic_size(float(spec['res']), 20.0)]
        assert (image.width, image.height) == (spec['pw'], spec['ph'])
        lspec = {'image': intr, 'size': spec['size'], 'clip': spec['clip'], 'origin': spec['origin'],
                 'repeat': spec['repeat'], 'position': spec['position'], 'fixed': False}
        line = real.layer_line('bglayer', g, 'plain', page_g, lspec)
        cases.append((line, ok(layer_out(layer)), dict(meta_doc, what='bglayer', id=spec['id']), True,
                      [f'doc:bg-{spec["size"] if isinstance(spec["size"], str) else "explicit"}',
                       f'doc:bg-{spec["repeat"][0]}-{spec["repeat"][1]}']))
        rounded_before = ROUNDED[0]
        layer_out(layer)
        inexact = ROUNDED[0] > rounded_before
        line = real.layer_line('bgdraw', g, 'plain', page_g, lspec)
        iw, ih = layer.size
        if 0 in layer.size:
            continue
        leaf = ['i', image.id, True, 1, False]
        bg_draws.append(['g', leaf] if layer.repeat == ('no-repeat', 'no-repeat') else ['p', ['g', leaf]])
        if inexact:
            # non-dyadic tile size: the floor / round decisions of the drawing step are float decisions
            if layer.repeat == ('no-repeat', 'no-repeat'):
                gi += 1
            else:
                pi += 1
            cases[-1][4].append('doc:bgdraw-skipped-inexact')
            continue
        if layer.repeat == ('no-repeat', 'no-repeat'):
            key = group_order[gi]
            gi += 1
            body = stream_of(objects[int(groups[key])])
            m = re.match(r'1 0 0 1 (\S+) (\S+) cm\n(\S+) 0 0 (\S+) 0 (\S+) cm\n/(' + IMG_NAME + r') Do', body)
            assert m, body
            e, f, w, mh, h, _ = m.groups()
            clip = re.search(r'(\S+) (\S+) (\S+) (\S+) re\nW\nn\n/' + key + ' Do', page_stream)
            assert clip, key
            expect = [layer.position[0] + layer.positioning_area[0], layer.position[1] + layer.positioning_area[1],
                      iw, ih, *layer.painting_area]
            if lossless(expect):
                out = ok(f'single ({" ".join(fmt(num(v)) for v in clip.groups())}) '
                         f'{fmt(num(e))} {fmt(num(f))} {fmt(num(w))} {fmt(num(h))}')
                cases.append((line, out, dict(meta_doc, what='pdf-bg-group', id=spec['id']), True,
                              ['doc:pdf-bg-single']))
            else:
                cases.append((sx.line('imgname', 'x', True), 'ix1', dict(meta_doc, what='skip'), False,
                              ['doc:pdf-rounded']))
        else:
            key = pattern_order[pi]
            pi += 1
            obj = objects[int(patterns[key])]
            m = re.search(r'/BBox \[0 0 (\S+) (\S+)\]/XStep (\S+)/YStep (\S+)/TilingType 1/PaintType 1'
                          r'/Matrix \[(\S+) 0 0 (\S+) (\S+) (\S+)\]', obj)
            assert m, obj
            w, h, xstep, ystep, a, d, e, f = (num(v) for v in m.groups())
            assert (a, d) == (SCALE, -SCALE)
            fill = re.search(r'/' + key + r' scn\n(\S+) (\S+) (\S+) (\S+) re\nf', page_stream)
            assert fill, key
            # undo the page matrix [3/4 0 0 -3/4 0 H*3/4]
            e0, f0 = e / SCALE, (PAGE_H * SCALE - f) / SCALE
            real_draw = real.draw_out(_unwrap_layer(layer))        # in-memory values, for the lossless test
            floats = [float(Fraction(t)) for t in re.findall(r'-?\d+(?:/\d+)?', real_draw)]
            ef = [float(F(floats[4]) * SCALE), float((PAGE_H - F(floats[5])) * SCALE)]
            if lossless(floats + ef):
                out = ok(f'pattern ({" ".join(fmt(num(v)) for v in fill.groups())}) {fmt(e0)} {fmt(f0)} '
                         f'{fmt(w)} {fmt(h)} {fmt(xstep)} {fmt(ystep)}')
                cases.append((line, out, dict(meta_doc, what='pdf-bg-pattern', id=spec['id']), True,
                              ['doc:pdf-bg-pattern']))
            else:
                cases.append((line, ok(resnap(real_draw)), dict(meta_doc, what='bgdraw-memory', id=spec['id']), True,
                              ['doc:pdf-rounded']))

    # ---- one image XObject per distinct (image, interpolate)
    # paint order (CSS 2.1 appendix E): backgrounds of the block-level boxes (step 4), then replaced
    # content of block-level replaced elements and inline content (step 7), each in tree order
    paint_draws = bg_draws + img_draws + faded_draws
    count = pdf_text.count('/Subtype /Image')
    numbers = {}
    for name, number in re.findall(r'/(' + IMG_NAME + r') (\d+) 0 R', pdf_text):
        numbers.setdefault(name, set()).add(int(number))
    assert all(len(v) == 1 for v in numbers.values()), numbers          # one object per name everywhere
    by_number = sorted(numbers, key=lambda n: min(numbers[n]))            # creation order
    line = sx.line('imgcount', paint_draws)
    out = ok(f'{count} ({" ".join(by_number)})')
    uses = len(doc['imgs']) + len(doc['bgs'])
    cases.append((line, out, dict(meta_doc, what='imgcount'), uses > count,
                  [f'doc:xobjects{min(count, 6)}', f'doc:reuse{min(uses - count, 4)}']))

    # ---- every content stream names the images it paints in its own resources (page, groups, patterns):
    # the resource dictionaries of the file against those of the model, names in dictionary order
    page = next(o for o in objects.values() if o.startswith('<</Type /Page/'))
    page_resources = int(re.search(r'/Resources (\d+) 0 R', page).group(1))
    cases.append((sx.line('restree', paint_draws), ok(pdf_resource_tree(objects, page_resources)),
                  dict(meta_doc, what='restree'), len(paint_draws) > 1,
                  ['doc:restree', f'doc:restree-scopes{min(len(paint_draws) - len(img_draws) + 1, 4)}'] +
                  (['doc:restree-shared-across-scopes'] if _shared_across_scopes(paint_draws) else [])))
    # ---- which uses share one RasterImage.id: same source and same computed image-orientation, nothing else
    orientation_code = {None: 0, 'none': 1, '90deg': 2, '180deg': 3, 'flip': 4, '270deg flip': 5}
    uses, sources = [], {}
    for spec in doc['imgs']:
        if spec.get('kind') == 'svg':
            continue
        source = sources.setdefault((spec['pw'], spec['ph'], spec['color']), len(sources))
        code = orientation_code[spec.get('orientation')]      # generated content (::before) carries it too
        uses.append(([source, code, 0, 0, 0], by_id[spec['id']].replacement))
    for spec in doc['bgs']:
        source = sources.setdefault((spec['pw'], spec['ph'], spec['color']), len(sources))
        uses.append(([source, 0, 0, 0, 0], by_id[spec['id']].background.layers[0].image))
    images = [image for _, image in uses]
    id_classes = [next(j for j, other in enumerate(images) if other.id == image.id) for image in images]
    object_classes = [next(j for j, other in enumerate(images) if other is image) for image in images]
    cases.append((sx.line('imgids', [key for key, _ in uses]),
                  ok('(' + ' '.join(map(str, id_classes)) + ') (' + ' '.join(map(str, object_classes)) + ')'),
                  dict(meta_doc, what='imgids'), len(set(id_classes)) < len(id_classes),
                  ['doc:imgids'] + (['doc:imgids-same-source-other-orientation'] if any(
                      a[0][0] == b[0][0] and a[0][1] != b[0][1] for a in uses for b in uses) else [])))
    undefined = pdf_undefined_uses(objects)
    assert not undefined, f'content streams paint XObjects their own /Resources do not define: {undefined}'
    return cases


def _leaves(draws):
    for d in draws:
        if d[0] == 'i':
            yield d
        else:
            yield from _leaves(d[1:])


def _shared_across_scopes(paint_draws):
    """An image is painted in two different resource scopes (page content / a group / a pattern)."""
    seen = {}
    for index, top in enumerate(paint_draws):
        scope = 'page' if top[0] == 'i' else index
        for leaf in _leaves([top]):
            seen.setdefault((leaf[1], leaf[2]), set()).add(scope)
    return any(len(v) > 1 for v in seen.values())


class _Recorder:
    def __init__(self):
        self.draws = []

    def draw(self, stream, width, height, rendering):
        self.draws.append((stream, width, height, rendering))


def _unwrap_layer(layer):
    """The same layer with a recording stub as image and exact numbers (for draw_out)."""
    def conv(v):
        if isinstance(v, (tuple, list)):
            return tuple(conv(x) for x in v)
        return real.Q(v) if isinstance(v, (int, float)) else v
    return layer._replace(
        image=_Recorder(), size=conv(layer.size), position=conv(layer.position),
        painting_area=conv(layer.painting_area), positioning_area=conv(layer.positioning_area))


def fixed_content_documents():
    """A fixed family, run first: an 8x4 image inserted by `::before { content: url() }` under each computed
    image-orientation, next to an <img> of the same source at the default orientation — the generated replaced
    box must be sized, identified and painted with the pseudo-element's own image-orientation."""
    import random
    docs_ = []
    for index, orientation in enumerate(('90deg', '270deg flip', '180deg', 'flip', 'none', None)):
        rng = random.Random(index)
        content = gen_img(rng, 0, False)
        content.update(pw=8, ph=4, color=0, kind='content', orientation=orientation, opacity=None, fit='fill',
                       position_css='50% 50%', position=(False, ('%', F(50)), False, ('%', F(50))))
        content.pop('svg', None)
        for name in ('width', 'height', 'min_width', 'min_height', 'max_width', 'max_height'):
            content[name] = 'auto'
        for side in ('left', 'right', 'top', 'bottom'):
            content[f'margin_{side}'] = content[f'padding_{side}'] = ('px', F(0))
            content[f'border_{side}'] = F(0)
        plain = dict(content, id='i1', kind='img', orientation=None)
        docs_.append({'cb': {'width': F(200), 'height': 'auto', 'padding_left': F(0), 'rtl': False},
                      'imgs': [content, plain], 'bgs': []})
    return docs_


def case_document(rng, doc=None):
    doc = gen_document(rng) if doc is None else doc
    before = ROUNDED[0]
    try:
        cases = run_document(doc)
    except Exception as exc:  # noqa: BLE001 - the generated document no longer renders / reads back as designed
        return [(sx.line('docok', 'x'), f'document-structure:{type(exc).__name__}:{str(exc)[:120]}',
                 {'what': 'structure', 'doc': doc, 'html': document_html(doc)}, False, ['doc:structure-failed'])]
    cases.append((sx.line('docok', 'x'), 'ok', {'what': 'structure'}, False, []))
    if ROUNDED[0] > before and cases:
        cases[-1][4].append('doc:float-rounding')
    return cases


# ---------------------------------------------------------------------------------------------
# replay / search support

_NUM = re.compile(r'^-?\d+(/\d+)?$')
_KEEP = {'id', 'position_css', 'size_css', 'kind', 'fit', 'rendering', 'origin', 'clip'}


def revive(x, key=None):
    """A document description that went through JSON (Fractions as strings) -> usable again."""
    if isinstance(x, dict):
        return {k: revive(v, k) for k, v in x.items()}
    if isinstance(x, list):
        return [revive(v, key) for v in x]
    if isinstance(x, str) and key not in _KEEP and _NUM.match(x):
        return Fraction(x)
    return x


def judge_document(doc):
    """Render the document on the implementation and state the property on it (oracle, no model):
    -> first violation text or None."""
    from harness import c13_oracle
    try:
        cases = run_document(doc)
    except AssertionError as exc:
        return f'document-level structure assertion failed: {exc!r}'
    except Exception as exc:  # noqa: BLE001
        return f'rendering raised {type(exc).__name__}: {exc}'
    for line, out, meta, _, _ in cases:
        what = c13_oracle.judge(line, out)
        if what:
            return f'{meta.get("what")} #{meta.get("id")}: {what}'
    return None


SVG_RATIO_ONLY = "data:image/svg+xml,<svg xmlns='http://www.w3.org/2000/svg' viewBox='0 0 2 1'></svg>"


def regression_abs_replaced_ratio_only():
    """Fixed finding abs-replaced-ratio-only-width (a8f8a59): an absolutely positioned image with only a ratio
    took the x-coordinate of its containing block as width.  -> regression cases: the former replay document
    (containing block 200 wide at x = 40, and at x = 0) rendered, the used size of the <img> reported through
    the `absrep` protocol line of that box."""
    from weasyprint.formatting_structure import boxes
    cases = []
    for margin in (40, 0):
        html = ('<style>@page{size:500px;margin:0}body{margin:0}</style>'
                f'<div style="position:relative;width:200px;margin-left:{margin}px">'
                f'<img src="{SVG_RATIO_ONLY}" style="display:block;position:absolute"></div>')

        def run(html=html):
            document = docs.render(html)
            for box in document.pages[0]._page_box.descendants():
                box = getattr(box, '_box', box)
                if isinstance(box, boxes.ReplacedBox):
                    return real.ok(f'{fmt(Fraction(box.width))} {fmt(Fraction(box.height))}')
            return 'no-image-box'
        out = docs.outcome(run)
        rbox = ['auto', 'auto', 0, 0, 0, 0, 0, 0, 0, 0, 0, math.inf, 0, math.inf, 0, False]
        line = sx.line('absrep', True, [None, None, Fraction(2)], margin, 0, 200, 0, rbox)
        cases.append((line, out, {'fn': 'absolute_replaced', 'html': html,
                                  'regression': 'abs-replaced-ratio-only-width'}, True,
                      ['regression:abs-replaced-ratio-only-width']))
    return cases


def finding_no_repeat_axis_wraps():
    """Known finding: `background-repeat: no-repeat repeat` with the image placed outside the box: the tiling
    pattern steps by max(tile, 2 x painting width) on the no-repeat axis, so a copy comes back inside the box."""
    html = ('<style>@page{size:200px;margin:0}body{margin:0}</style>'
            f'<div style="width:50px;height:40px;background:url({png_uri(8, 8, 0)}) 300px 0 / 10px 10px '
            'no-repeat repeat"></div>')
    pdf = docs.render(html).write_pdf(uncompressed_pdf=True).decode('latin1')
    m = re.search(r'/BBox \[0 0 (\S+) \S+\]/XStep (\S+)/YStep \S+/TilingType 1/PaintType 1/Matrix \[(\S+) 0 0 \S+ (\S+) ', pdf)
    if not m:
        return False
    tile, step, scale, e = (Fraction(v) for v in m.groups())
    origin = e / scale                       # x of the image in CSS px: 300, outside the 50px box
    return any(origin + k * step < 50 and 0 < origin + k * step + tile for k in range(-10, 11) if k != 0)
