"""C12 grid: generators, wire conversion and real-code calls for layout/grid.py.

Function level: `_intersect`, `_get_line`, `_get_placement`, `_get_span`, `_get_second_placement`,
`_get_template_tracks`, `_get_sizing_functions`, `_resolve_tracks_sizes` are called directly with
`fractions.Fraction` values.  Document level: grids of empty items are rendered; the areas chosen by
the placement algorithm and the track sizes are read from the arguments / results of the real
`_resolve_tracks_sizes` calls made by the real `grid_layout` (a pass-through wrapper), the item
rectangles from the laid-out boxes.

`itertools.count` as seen by the grid module is replaced by a counter that raises after
`COUNT_BOUND` values (the model uses the same bound): a hanging loop becomes `err:NonTermination`.
"""
import contextlib
import itertools
import signal
from fractions import Fraction
from math import inf

from harness import docs
from harness.c12_flex import css_num, find_by_id, px
from vlib import sx

COUNT_BOUND = 200
NAMES = ['p', 'q', 'k', 'z']
F = Fraction


class NonTermination(RuntimeError):
    pass


def bounded_count(start=0, step=1):
    for value in itertools.islice(itertools.count(start, step), COUNT_BOUND):
        yield value
    raise NonTermination('count() exhausted')


def grid_mod():
    from weasyprint.layout import grid
    if grid.count is not bounded_count:
        grid.count = bounded_count
    return grid


def dimension(value, unit):
    from weasyprint.css.properties import Dimension
    return Dimension(value, unit)


# ---------------------------------------------------------------------------------- places, lines

def gen_place(rng, named=0.3, negative=0.15, named_span=1.0):
    r = rng.random()
    if r < 0.3:
        return 'auto'
    ident = rng.choice(NAMES) if rng.random() < named else None
    r = rng.random()
    if ident and r >= 0.45 and r < 0.85 and rng.random() >= named_span:
        ident = None                     # spans to a line name make the placement loops hang: keep them rare
    if r < 0.45:
        n = rng.choice([1, 1, 2, 2, 3, 3, 4, 5, 6])
        if rng.random() < negative:
            n = -n
        return (None, n, ident)
    if r < 0.85:
        n = rng.choice([None, 1, 2, 2, 3, 4]) if ident else rng.choice([1, 2, 2, 3, 4])
        return ('span', n, ident)
    if ident:
        return (None, None, ident)
    return (None, rng.choice([1, 2, 3]), None)


def gen_lines(rng, n=None, area_names=True):
    n = n if n is not None else rng.choice([1, 2, 3, 3, 4, 5, 6])
    pool = NAMES + (['p-start', 'p-end', 'q-start', 'q-end'] if area_names else [])
    lines = []
    for _ in range(n):
        k = rng.choice([0, 0, 0, 1, 1, 2])
        lines.append([rng.choice(pool) for _ in range(k)])
    return lines


def gen_named_span_case(rng):
    """A (start, end, lines) triple of the named-span family: a span counted in lines of a given name towards /
    from a definite line, where the definite line itself (and often its neighbours) carries that name too
    (`repeat(4, [col] 50px) [col last]` + `grid-column: span col / last`)."""
    n = rng.choice([2, 3, 4, 5, 6])
    name = rng.choice(NAMES)
    other = rng.choice([x for x in NAMES if x != name])
    lines = [[name] if rng.random() < 0.6 else [] for _ in range(n)]
    for line in lines:
        if rng.random() < 0.2:
            line.append(rng.choice(NAMES))
    e = rng.randrange(1, n)
    if rng.random() < 0.7 and name not in lines[e]:
        lines[e].append(name)
    count = rng.choice([None, 1, 1, 2, 3])
    if rng.random() < 0.5:
        # backwards: `span <count> name / <line e>`; the end line is given by a name that only it carries, or a number
        for line in lines:
            while other in line:
                line.remove(other)
        lines[e].append(other)
        end = (None, None, other) if rng.random() < 0.7 else (None, e + 1, None)
        return ('span', count, name), end, lines
    # forwards: `<line s> / span <count> name`
    s = rng.randrange(0, n)
    return (None, s + 1, None), ('span', count, name), lines


def wire_place(p):
    if p == 'auto':
        return 'auto'
    span, number, ident = p
    return [span or 'none', 'none' if number is None else number, ident or 'none']


def show_place_css(p):
    if p == 'auto':
        return 'auto'
    span, number, ident = p
    return ' '.join(str(x) for x in (span, number, ident) if x is not None)


def canon_pair(p):
    return 'none' if p is None else f'({p[0]} {p[1]})'


# ---------------------------------------------------------------------------------- tracks

def gen_breadth(rng, fr=True, intrinsic=True, pct=True):
    kinds = ['px'] * 5 + (['fr'] * 3 if fr else []) + (['auto', 'auto', 'min-content', 'max-content'] if intrinsic else []) \
        + (['pct'] if pct else [])
    k = rng.choice(kinds)
    if k == 'px':
        return ('px', F(rng.choice([0, 10, 20, 30, 40, 50, 60, 25, 5, F(25, 2)])))
    if k == 'pct':
        return ('pct', F(rng.choice([10, 25, 50, F(25, 2), 100])))
    if k == 'fr':
        return ('fr', F(rng.choice([1, 1, 2, 3, F(1, 2), F(1, 4)])))
    return k


def gen_track(rng, **kw):
    if rng.random() < 0.2:
        a = gen_breadth(rng, fr=False, **{k: v for k, v in kw.items() if k != 'fr'})
        return ('minmax', a, gen_breadth(rng, **kw))
    return gen_breadth(rng, **kw)


def py_breadth(b):
    if isinstance(b, str):
        return b
    unit = {'px': 'px', 'pct': '%', 'fr': 'fr'}[b[0]]
    return dimension(b[1], unit)


def py_track(t):
    if isinstance(t, tuple) and t[0] == 'minmax':
        return ('minmax()', py_breadth(t[1]), py_breadth(t[2]))
    return py_breadth(t)


def wire_breadth(b):
    return b if isinstance(b, str) else [b[0], b[1]]


def wire_track(t):
    if isinstance(t, tuple) and t[0] == 'minmax':
        return ['minmax', wire_breadth(t[1]), wire_breadth(t[2])]
    return wire_breadth(t)


def show_breadth(b):
    """Canonical string of a *Python* breadth (Dimension / keyword)."""
    if isinstance(b, str):
        return b
    unit = {'px': 'px', '%': 'pct', 'fr': 'fr'}[b.unit]
    return f'({unit} {sx.atom(b.value)})'


def show_track(t):
    if isinstance(t, tuple) and t and t[0] == 'minmax()':
        return f'(minmax {show_breadth(t[1])} {show_breadth(t[2])})'
    return show_breadth(t)


def css_breadth(b):
    if isinstance(b, str):
        return b
    return css_num(b[1]) + {'px': 'px', 'pct': '%', 'fr': 'fr'}[b[0]]


def css_track(t):
    if isinstance(t, tuple) and t[0] == 'minmax':
        return f'minmax({css_breadth(t[1])}, {css_breadth(t[2])})'
    return css_breadth(t)


def gen_template(rng, max_tracks=4, names=0.3, **kw):
    """Abstract template: list of ('names', [...]) / ('size', track) / ('repeat', n, inner) alternating,
    starting and ending with names (as the validator produces); None = `none`."""
    if rng.random() < 0.12:
        return None
    n = rng.choice([1, 2, 2, 3, 3, 4][:max(1, max_tracks + 2)])
    n = min(n, max_tracks)

    def names_elem():
        if rng.random() < names:
            return ('names', [rng.choice(NAMES) for _ in range(rng.choice([1, 1, 2]))])
        return ('names', [])
    out = [names_elem()]
    for _ in range(n):
        if rng.random() < 0.2:
            inner = [names_elem()]
            for _ in range(rng.choice([1, 1, 2])):
                inner.append(('size', gen_track(rng, **kw)))
                inner.append(names_elem())
            out.append(('repeat', rng.choice([1, 2, 2, 3]), inner))
        else:
            out.append(('size', gen_track(rng, **kw)))
        out.append(names_elem())
    return out


def py_template(t):
    if t is None:
        return 'none'
    out = []
    for e in t:
        if e[0] == 'names':
            out.append(tuple(e[1]))
        elif e[0] == 'size':
            out.append(py_track(e[1]))
        else:
            inner = tuple(tuple(x[1]) if x[0] == 'names' else py_track(x[1]) for x in e[2])
            out.append(('repeat()', e[1], inner))
    return tuple(out)


def wire_template(t):
    if t is None:
        return 'none'
    out = []
    for e in t:
        if e[0] == 'names':
            out.append(['names'] + list(e[1]))
        elif e[0] == 'size':
            out.append(['size', wire_track(e[1])])
        else:
            out.append(['repeat', e[1], [['names'] + list(x[1]) if x[0] == 'names' else ['size', wire_track(x[1])]
                                         for x in e[2]]])
    return out


def css_template(t):
    if t is None:
        return 'none'
    parts = []
    for e in t:
        if e[0] == 'names':
            if e[1]:
                parts.append('[' + ' '.join(e[1]) + ']')
        elif e[0] == 'size':
            parts.append(css_track(e[1]))
        else:
            inner = []
            for x in e[2]:
                if x[0] == 'names':
                    if x[1]:
                        inner.append('[' + ' '.join(x[1]) + ']')
                else:
                    inner.append(css_track(x[1]))
            parts.append(f'repeat({e[1]}, {" ".join(inner)})')
    return ' '.join(parts)


def canon_template_result(lst):
    out = []
    for i, e in enumerate(lst):
        if isinstance(e, list):
            out.append('(' + ' '.join(['n'] + list(e)) + ')')
        else:
            out.append(f'(s {show_track(e)})')
    return '(' + ' '.join(out) + ')'


# ---------------------------------------------------------------------------------- _resolve_tracks_sizes

class _Box:
    def __init__(self, style):
        self.style = style


def mock_child(width, margin):
    """A real childless BlockBox whose min-/max-content width is width + 2*margin."""
    from weasyprint.formatting_structure import boxes
    style = {
        'width': dimension(width, 'px'), 'min_width': 'auto', 'max_width': dimension(inf, 'px'),
        'margin_left': dimension(margin, 'px'), 'margin_right': dimension(margin, 'px'),
        'padding_left': dimension(0, 'px'), 'padding_right': dimension(0, 'px'),
        'border_left_width': 0, 'border_right_width': 0, 'border_collapse': 'separate',
        'position': 'static', 'float': 'none',
    }
    return boxes.BlockBox('div', style, None, [])


def gen_tracks_case(rng):
    n = rng.choice([1, 2, 2, 3, 3, 4, 5])
    fns = []
    for _ in range(n):
        t = gen_track(rng)
        if isinstance(t, tuple) and t[0] == 'minmax':
            mn, mx = t[1], t[2]
        else:
            mn = mx = t
        if not isinstance(mn, str) and mn[0] == 'fr':
            mn = 'auto'
        fns.append((mn, mx))
    direction = rng.choice('xxy')
    box = rng.choice(['auto', 100, 100, 200, 120, 64, 0]) if direction == 'y' else rng.choice([100, 200, 120, 64, 0, 300])
    start = rng.choice([0, 0, 0, -1, -2])
    contribs = []
    if direction == 'x':
        for _ in range(rng.choice([0, 0, 1, 2, 3])):
            coord = rng.randrange(start, start + n)
            if rng.random() < 0.25:
                # a spanning item without intrinsic size (only the index arithmetic of 1.2.3 is observable)
                contribs.append((rng.randrange(start - 1, start + n + 1), rng.choice([2, 2, 3]), 0, 0))
            else:
                contribs.append((coord, 1, rng.choice([0, 10, 20, 30, 50, 80]), rng.choice([0, 0, 2, 5])))
    return {'fns': fns, 'box': box, 'start': start, 'dir': direction, 'gap': rng.choice([0, 0, 4, 10]),
            'stretch': rng.choice(['normal', 'stretch', 'start', 'center', 'space-between']), 'contribs': contribs}


def run_tracks_case(case):
    grid = grid_mod()
    fns = [(py_breadth(a), py_breadth(b)) for a, b in case['fns']]
    positions = {}
    for coord, size, width, margin in case['contribs']:
        positions[mock_child(F(width), F(margin))] = (coord, 0, size, 1)
    key = 'justify_content' if case['dir'] == 'x' else 'align_content'
    cb = _Box({key: (case['stretch'],), 'justify_content': (case['stretch'],), 'align_content': (case['stretch'],)})
    box = 'auto' if case['box'] == 'auto' else F(case['box'])
    out = grid._resolve_tracks_sizes(fns, box, positions, case['start'], case['dir'], F(case['gap']), None, cb)
    return '(' + ' '.join(f'({sx.atom(b)} {sx.atom(l)})' for b, l in out) + ')'


def tracks_family():
    """Deterministic family for 1.3 -> 1.4 -> 1.5 of `_resolve_tracks_sizes`: a `minmax(<length>, <larger length>)`
    track whose growth limit is reached by the equal share of the free space (sometimes two of them, sometimes one
    that is not reached), next to a flexible track (1fr, 2fr, 1/2fr), an `auto` track (stretched or not) and / or a fixed
    track, in every order of the first two."""
    cases = []
    px = lambda v: ('px', F(v))
    for box in (100, 240):
        for gap in (0, 10):
            for lo, hi in ((0, 10), (10, 30), (20, 200)):
                for flexible in ((('auto', ('fr', F(1))),), (('auto', ('fr', F(2))), ('auto', ('fr', F(1)))),
                                 (('auto', ('fr', F(1, 2))),), (('auto', 'auto'),), ((px(5), ('fr', F(1))),)):
                    for extra in ((), ((px(20), px(20)),), ((px(0), px(15)),)):
                        for order in (0, 1):
                            mm = ((px(lo), px(hi)),)
                            fns = list((mm + flexible if order == 0 else flexible + mm) + extra)
                            for stretch in ('normal', 'start'):
                                cases.append({'fns': fns, 'box': box, 'start': 0, 'dir': 'xy'[order], 'gap': gap,
                                              'stretch': stretch, 'contribs': []})
    return cases


def wire_tracks_case(case):
    contribs = [[c, sz, w + 2 * m, w + 2 * m, 0] for c, sz, w, m in case['contribs']]
    return sx.line('tracks', [[wire_breadth(a), wire_breadth(b)] for a, b in case['fns']], case['box'], contribs,
                   case['start'], case['dir'], case['gap'], case['stretch'] in ('normal', 'stretch'))


# ---------------------------------------------------------------------------------- documents

JUSTIFY_CONTENT = ['normal', 'normal', 'stretch', 'start', 'end', 'center', 'flex-start', 'flex-end', 'left', 'right',
                   'space-between', 'space-around', 'space-evenly']
ALIGN_CONTENT = ['normal', 'normal', 'stretch', 'start', 'end', 'center', 'flex-start', 'flex-end',
                 'space-between', 'space-around', 'space-evenly']
JUSTIFY_SELF = ['auto', 'auto', 'auto', 'normal', 'stretch', 'center', 'start', 'end', 'self-start', 'self-end',
                'flex-start', 'flex-end', 'left', 'right']
ALIGN_SELF = ['auto', 'auto', 'auto', 'normal', 'stretch', 'center', 'start', 'end', 'self-start', 'self-end',
              'flex-start', 'flex-end']
JUSTIFY_ITEMS = ['normal', 'normal', 'stretch', 'center', 'start', 'end', 'flex-end', 'left', 'right']
ALIGN_ITEMS = ['normal', 'normal', 'stretch', 'center', 'start', 'end', 'flex-end', 'self-start']


def single_cell(start, end):
    """Does the placement certainly span one track (so that the item may have an intrinsic size)?"""
    def one(p):
        return p == 'auto' or (p[0] == 'span' and p[1] in (None, 1) and p[2] is None)
    if start == 'auto' or start[0] == 'span':
        return one(start) and one(end)
    return one(end)


def gen_doc(rng, adversarial=False):
    pick = rng.choice
    named = pick([0, 0, 0.3, 0.5])
    # distinct px sizes make areas recognisable from rectangles too
    cols = gen_template(rng, max_tracks=4, names=0.4 if named else 0)
    rows = gen_template(rng, max_tracks=3, names=0.4 if named else 0)
    areas = None
    if rng.random() < 0.25:
        # rectangular named areas only (anything else is dropped by the validator)
        nr, nc = pick([1, 2, 2, 3]), pick([1, 2, 3])
        areas = [[None] * nc for _ in range(nr)]
        for name in rng.sample(['p', 'q'], pick([1, 2])):
            r0, c0 = rng.randrange(nr), rng.randrange(nc)
            r1, c1 = rng.randrange(r0, nr), rng.randrange(c0, nc)
            if all(areas[r][c] is None for r in range(r0, r1 + 1) for c in range(c0, c1 + 1)):
                for r in range(r0, r1 + 1):
                    for c in range(c0, c1 + 1):
                        areas[r][c] = name
        if all(a is None for row in areas for a in row):
            areas = None
    negative = 0.08 if not adversarial else 0.4
    items = []
    for i in range(pick([1, 2, 3, 3, 4, 4, 5, 6, 7, 8])):
        mode = pick(['auto', 'auto', 'auto', 'both', 'row', 'col', 'span', 'any'])
        if mode == 'auto':
            rs = re = cs = ce = 'auto'
        elif mode == 'span':
            rs, re = pick([('auto', 'auto'), (('span', pick([1, 2, 3]), None), 'auto'),
                           ('auto', ('span', pick([2, 3]), None))])
            cs, ce = pick([('auto', 'auto'), (('span', pick([1, 2, 3]), None), 'auto'),
                           ('auto', ('span', pick([2, 3]), None))])
        else:
            rs, re = gen_place(rng, named, negative, 0.15), gen_place(rng, named, negative, 0.15)
            cs, ce = gen_place(rng, named, negative, 0.15), gen_place(rng, named, negative, 0.15)
            if mode == 'row':
                cs, ce = pick([('auto', 'auto'), ('auto', ('span', 2, None)), (('span', 2, None), 'auto')])
            if mode == 'col':
                rs, re = pick([('auto', 'auto'), ('auto', ('span', 2, None)), (('span', 2, None), 'auto')])
        if areas is not None and rng.random() < 0.4:
            # placement by template area: `grid-area: a`, or one axis only (`grid-row: a`)
            name = (None, None, pick([a for row in areas for a in row if a] + ['p', 'q']))
            which = pick(['both', 'both', 'rows', 'cols'])
            if which in ('both', 'rows'):
                rs = re = name
            if which in ('both', 'cols'):
                cs = ce = name
        it = {'id': i, 'order': pick([0, 0, 0, 0, 1, -1]), 'rs': rs, 're': re, 'cs': cs, 'ce': ce,
              'width': None, 'height': None, 'ml': 0, 'mr': 0, 'mt': 0, 'mb': 0,
              'pl': 0, 'pr': 0, 'pt': 0, 'pb': 0, 'bl': 0, 'br': 0, 'bt': 0, 'bb': 0,
              'js': pick(JUSTIFY_SELF), 'as': pick(ALIGN_SELF),
              # css-grid 6.1: `float` has no effect on a grid item (the model does not even receive it)
              'float': pick(['none'] * 9 + ['left', 'right'])}
        if single_cell(cs, ce) and rng.random() < 0.6:
            it['width'] = pick([None, 10, 20, 30, 50])
            if rng.random() < 0.3:
                it['ml'], it['mr'] = pick([0, 2, 5, None]), pick([0, 2, 4, None])
            if rng.random() < 0.2:
                it['pl'], it['pr'], it['bl'], it['br'] = pick([0, 1, 2]), pick([0, 2]), pick([0, 1]), pick([0, 3])
        if single_cell(rs, re) and rng.random() < 0.6:
            it['height'] = pick([None, 10, 20, 30, 50])
            if rng.random() < 0.3:
                it['mt'], it['mb'] = pick([0, 2, 5, None]), pick([0, 2, 4, None])
            if rng.random() < 0.2:
                it['pt'], it['pb'], it['bt'], it['bb'] = pick([0, 1, 2]), pick([0, 2]), pick([0, 1]), pick([0, 3])
        items.append(it)
    doc = {
        'rows': rows, 'cols': cols,
        'auto_rows': [gen_track(rng, pct=False) for _ in range(pick([1, 1, 2]))] if rng.random() < 0.5 else ['auto'],
        'auto_cols': [gen_track(rng, pct=False) for _ in range(pick([1, 1, 2]))] if rng.random() < 0.5 else ['auto'],
        'flow': pick(['row', 'row', 'column']), 'dense': rng.random() < 0.35, 'areas': areas,
        'colgap': pick([0, 0, 4, 10]), 'rowgap': pick([0, 0, 4, 10]),
        'width': pick([200, 300, 400, 256]), 'height': pick([None, None, 200, 300]),
        'jc': pick(JUSTIFY_CONTENT), 'ac': pick(ALIGN_CONTENT), 'ji': pick(JUSTIFY_ITEMS), 'ai': pick(ALIGN_ITEMS),
        'items': items,
    }
    return doc


def _len(v):
    return 'auto' if v is None else v


def dense_family():
    """Deterministic family for dense packing (css-grid 8.5): grids of three tracks on the second axis of the
    auto-flow, `dense`, row and column flow; one or two automatic items, the second too wide for what is left of the
    first row (resp. column) so that the cursor moves on and leaves a hole, optionally an item that fills the hole,
    then an item *locked* to one track of the second axis with the auto-flow axis automatic (span 1 or 2), then one more
    automatic item.  Every item must take the first position, from the start of the grid, where it fits."""
    def item(ident, first=('auto', 'auto'), second=('auto', 'auto'), flow='row'):
        rows, cols = (first, second) if flow == 'row' else (second, first)
        return {'id': ident, 'order': 0, 'rs': rows[0], 're': rows[1], 'cs': cols[0], 'ce': cols[1],
                'width': None, 'height': None, 'ml': 0, 'mr': 0, 'mt': 0, 'mb': 0, 'pl': 0, 'pr': 0, 'pt': 0, 'pb': 0,
                'bl': 0, 'br': 0, 'bt': 0, 'bb': 0, 'js': 'auto', 'as': 'auto', 'float': 'none'}
    tracks = [('names', [])]
    for size in (20, 30, 40):
        tracks += [('size', ('px', F(size))), ('names', [])]
    docs_ = []
    for flow in ('row', 'column'):
        for a in (1, 2):
            for b in (2, 3):
                for filler in (False, True):
                    for line in (1, 2, 3):
                        for lspan in (1, 2):
                            items = [item(0, second=('auto', ('span', a, None)), flow=flow),
                                     item(1, second=(('span', b, None), 'auto'), flow=flow)]
                            if filler:
                                items.append(item(len(items), flow=flow))
                            items.append(item(len(items), first=('auto', ('span', lspan, None)),
                                              second=((None, line, None), 'auto'), flow=flow))
                            items.append(item(len(items), flow=flow))
                            docs_.append({
                                'rows': tracks if flow == 'column' else None, 'cols': tracks if flow == 'row' else None,
                                'auto_rows': [('px', F(10))], 'auto_cols': [('px', F(10))], 'flow': flow, 'dense': True,
                                'areas': None, 'colgap': 0, 'rowgap': 0, 'width': 200, 'height': None,
                                'jc': 'start', 'ac': 'start', 'ji': 'normal', 'ai': 'normal', 'items': items})
    return docs_


def area_derived(p):
    """css-grid 8.4, omitted component of `grid-area`: the corresponding start value when that is a <custom-ident>
    (no span, no integer), `auto` otherwise."""
    return p if p != 'auto' and p[0] is None and p[1] is None else 'auto'


def area_components(it):
    """The `grid-area` value `row-start / column-start / row-end / column-end` of an item with as many trailing
    components omitted as css-grid 8.4 allows (the omitted ones are derived back by the expander)."""
    comps = [it['rs'], it['cs'], it['re'], it['ce']]
    if it['ce'] == area_derived(it['cs']):
        comps = comps[:3]
        if it['re'] == area_derived(it['rs']):
            comps = comps[:2]
            if it['cs'] == area_derived(it['rs']):
                comps = comps[:1]
    return comps


def area_variant(doc, rng):
    """A copy of the document whose items are fit to be written with `grid-area` in its one-, two-, three- and
    four-component forms: some places become <custom-ident>s, trailing components take the value the shorthand
    derives for them.  The longhand values of the copy are the css-grid 8.4 expansion: they go to the model."""
    import copy
    doc = copy.deepcopy(doc)
    names = sorted({a for row in (doc['areas'] or []) for a in row if a}) + NAMES
    for it in doc['items']:
        for key in ('rs', 'cs', 're'):
            if rng.random() < 0.3:
                it[key] = (None, None, rng.choice(names))
        k = rng.choice([1, 2, 3, 3, 3, 4])
        if k <= 3:
            it['ce'] = area_derived(it['cs'])
        if k <= 2:
            it['re'] = area_derived(it['rs'])
        if k == 1:
            it['cs'] = area_derived(it['rs'])
            it['ce'] = area_derived(it['cs'])
        # an item that may span several tracks has no intrinsic size (assumption of the models)
        if not single_cell(it['cs'], it['ce']):
            it.update({'width': None, 'ml': 0, 'mr': 0, 'pl': 0, 'pr': 0, 'bl': 0, 'br': 0})
        if not single_cell(it['rs'], it['re']):
            it.update({'height': None, 'mt': 0, 'mb': 0, 'pt': 0, 'pb': 0, 'bt': 0, 'bb': 0})
    return doc


def wire_doc(doc):
    areas = 'none' if doc['areas'] is None else [[a or 'none' for a in row] for row in doc['areas']]
    cont = [wire_template(doc['rows']), wire_template(doc['cols']), [wire_track(t) for t in doc['auto_rows']],
            [wire_track(t) for t in doc['auto_cols']], doc['flow'], doc['dense'], areas, doc['colgap'], doc['rowgap'],
            doc['width'], _len(doc['height']), doc['jc'], doc['ac'], doc['ji'], doc['ai']]
    items = [[it['id'], it['order'], wire_place(it['rs']), wire_place(it['re']), wire_place(it['cs']),
              wire_place(it['ce']), _len(it['width']), _len(it['height']), _len(it['ml']), _len(it['mr']),
              _len(it['mt']), _len(it['mb']), it['pl'], it['pr'], it['pt'], it['pb'], it['bl'], it['br'], it['bt'],
              it['bb'], it['js'], it['as']] for it in doc['items']]
    return sx.line('grid', cont, items)


def html_of(doc, shorthand=False):
    areas = 'none'
    if doc['areas'] is not None:
        areas = ' '.join("'" + ' '.join(a or '.' for a in row) + "'" for row in doc['areas'])
    cont = (f'display:grid;width:{px(doc["width"])};height:{px(doc["height"])};'
            f'grid-template-rows:{css_template(doc["rows"])};grid-template-columns:{css_template(doc["cols"])};'
            f'grid-auto-rows:{" ".join(css_track(t) for t in doc["auto_rows"])};'
            f'grid-auto-columns:{" ".join(css_track(t) for t in doc["auto_cols"])};'
            f'grid-auto-flow:{doc["flow"]}{" dense" if doc["dense"] else ""};grid-template-areas:{areas};'
            + (f'gap:{px(doc["rowgap"])} {px(doc["colgap"])};' if shorthand else
               f'column-gap:{px(doc["colgap"])};row-gap:{px(doc["rowgap"])};') + f'justify-content:{doc["jc"]};'
            f'align-content:{doc["ac"]};justify-items:{doc["ji"]};align-items:{doc["ai"]}')
    items = []
    for it in doc['items']:
        lines = ('grid-area:' + ' / '.join(show_place_css(p) for p in area_components(it)) + ';'
                 if shorthand == 'area' else
                 (f'grid-row:{show_place_css(it["rs"])} / {show_place_css(it["re"])};'
                  f'grid-column:{show_place_css(it["cs"])} / {show_place_css(it["ce"])};') if shorthand else
                 (f'grid-row-start:{show_place_css(it["rs"])};grid-row-end:{show_place_css(it["re"])};'
                  f'grid-column-start:{show_place_css(it["cs"])};grid-column-end:{show_place_css(it["ce"])};'))
        css = (f'order:{it["order"]};' + lines +
               f'width:{px(it["width"])};height:{px(it["height"])};'
               f'margin:{px(it["mt"])} {px(it["mr"])} {px(it["mb"])} {px(it["ml"])};'
               f'padding:{px(it["pt"])} {px(it["pr"])} {px(it["pb"])} {px(it["pl"])};'
               f'border-width:{px(it["bt"])} {px(it["br"])} {px(it["bb"])} {px(it["bl"])};'
               f'justify-self:{it["js"]};align-self:{it["as"]};float:{it.get("float", "none")}')
        items.append(f'<div id="i{it["id"]}" style="{css}"></div>')
    return ('<style>@page{size:6000px 20000px;margin:0}html,body{margin:0;padding:0}'
            '#c>div{border:0 solid black}</style>'
            f'<div id="c" style="{cont}">{"".join(items)}</div>')


@contextlib.contextmanager
def spy_tracks(record):
    """Pass-through wrapper around the real `_resolve_tracks_sizes` recording arguments and result."""
    grid = grid_mod()
    original = grid._resolve_tracks_sizes

    def wrapper(sizing_functions, box_size, children_positions, *args, **kwargs):
        result = original(sizing_functions, box_size, children_positions, *args, **kwargs)
        record.append((dict(children_positions), [size for size, _ in result]))
        return result
    grid._resolve_tracks_sizes = wrapper
    try:
        yield
    finally:
        grid._resolve_tracks_sizes = original


class WallClock(RuntimeError):
    pass


@contextlib.contextmanager
def wall_clock(seconds):
    """Last-resort guard for the `while True` loops of the placement (no `count()` to bound): CPU seconds of
    this process (ITIMER_PROF), so that a loaded machine cannot make a healthy render look like a hang."""
    def handler(signum, frame):
        raise WallClock(f'no result after {seconds}s')
    previous = signal.signal(signal.SIGPROF, handler)
    signal.setitimer(signal.ITIMER_PROF, seconds)
    try:
        yield
    finally:
        signal.setitimer(signal.ITIMER_PROF, 0)
        signal.signal(signal.SIGPROF, previous)


def impl_doc(doc, seconds=20, shorthand=False):
    def go():
        record = []
        with spy_tracks(record), wall_clock(seconds):
            document = docs.render(html_of(doc, shorthand))
        if len(document.pages) != 1:
            return f'pages={len(document.pages)}'
        cont = find_by_id(document, 'c')
        x0, y0 = cont.content_box_x(), cont.content_box_y()
        positions, cols = record[0]
        _, rows = record[1]
        pos = ' '.join('(' + ' '.join(str(v) for v in (int(child.element.get('id')[1:]),) + tuple(area)) + ')'
                       for child, area in positions.items())
        rects = []
        for child in cont.children:
            ident = int(child.element.get('id')[1:])
            rects.append('(' + ' '.join(sx.atom(v) for v in (
                ident, child.border_box_x() - x0, child.border_box_y() - y0, child.border_width(),
                child.border_height())) + ')')
        return ' '.join(['ok', f'h={sx.atom(cont.height)}', f'pos=({pos})',
                         'cols=(' + ' '.join(sx.atom(v) for v in cols) + ')',
                         'rows=(' + ' '.join(sx.atom(v) for v in rows) + ')'] + rects)
    out = docs.outcome(go)
    return 'err:NonTermination' if out == 'err:WallClock' else out
