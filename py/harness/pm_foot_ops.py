"""Function-level correspondence for the footnote methods of `LayoutContext` (PM stage 2b): sequences of
`layout_footnote` / `report_footnote` / `unlayout_footnote` calls, in any order, on a real layout context.

case = dict(pageH, area, fns=[dict(fid, m, h)], ops=[[name, fid], …])   name in lay | report | unlay
The real context is the one of a rendered one-paragraph document whose footnote boxes are the `fns`; it is put in the
state in which `make_page` starts a page (fresh `FootnoteAreaBox`, `page_bottom` = page box bottom, every footnote
waiting) and the calls are made on it.  After each call: `page_bottom`, the height of `current_footnote_area`, the
value returned (`overflow`), and the three lists.  The model side is `applyOps` of `Model/PaginateFootOps.lean`
(`layoutFootnote` / `reportFootnote` / `unlayFootnote` / `updateArea` of the pagination model, called directly).
A call whose Python precondition fails (`list.remove` raises ValueError) ends the trace with `(stop)` on both sides.
"""
from fractions import Fraction

from harness import docs, pm, pm_foot
from vlib import sx

OPS = ('lay', 'report', 'unlay')


def case_line(case):
    fns = [[f['fid'], f['m'], f['h']] for f in case['fns']]
    return sx.line('footops', case['pageH'], pm_foot.area_wire(case['area']), fns,
                   [[name, fid] for name, fid in case['ops']])


def case_doc(case):
    calls = [dict(line=0, fid=f['fid'], m=f['m'], h=f['h'], policy='auto') for f in case['fns']]
    doc = pm_foot._doc(case['pageH'], [pm_foot._para(1, 1, calls)])
    doc['area'] = dict(case['area'])
    return doc


def real_trace(case):
    """The calls made on the real `LayoutContext`; canonical line."""
    from weasyprint import DEFAULT_OPTIONS
    from weasyprint.css.counters import CounterStyle
    from weasyprint.document import Document
    from weasyprint.formatting_structure import boxes
    from weasyprint.formatting_structure.build import build_formatting_structure
    from weasyprint.layout import layout_document
    from weasyprint.layout.percent import resolve_percentages

    html = docs.html(pm_foot.doc_html(case_doc(case)))
    _, _, font_config = docs._env()
    counter_style = CounterStyle()
    context = Document._build_layout_context(html, font_config, counter_style, dict(DEFAULT_OPTIONS))
    root_box = build_formatting_structure(
        html.etree_element, context.style_for, context.get_image_from_uri, html.base_url,
        context.target_collector, counter_style, context.footnotes)
    by_id = {pm_foot.foot_ident(box): box for box in context.footnotes}
    pages = list(layout_document(html, root_box, context))
    page = pages[0]
    # the state in which make_page starts a page
    footnote_area = boxes.FootnoteAreaBox(page, context.style_for(page.page_type, '@footnote'))
    resolve_percentages(footnote_area, page)
    footnote_area.position_x = page.content_box_x()
    context.page_bottom = page.content_box_y() + page.height
    footnote_area.position_y = context.page_bottom
    context.create_block_formatting_context()
    context.current_page = 1
    context.in_column = False
    context.footnotes = [by_id[f['fid']] for f in case['fns']]
    context.current_page_footnotes = []
    context.reported_footnotes = []
    context.current_footnote_area = footnote_area

    def ids(boxes_):
        return [pm_foot.foot_ident(b) for b in boxes_]
    out = []
    for name, fid in case['ops']:
        box = by_id[fid]
        try:
            if name == 'lay':
                overflow = bool(context.layout_footnote(box))
            elif name == 'report':
                context.report_footnote(box)
                overflow = False
            else:
                context.unlayout_footnote(box)
                overflow = False
        except ValueError:
            out.append(['stop'])
            break
        height = context.current_footnote_area.height
        out.append(['s', pm.fr(context.page_bottom), 'auto' if height == 'auto' else pm.fr(height), overflow,
                    ids(context.current_page_footnotes), ids(context.reported_footnotes), ids(context.footnotes)])
    return sx.line(*out) if out else '(none)'


def real_line(case):
    import traceback
    try:
        with docs.time_limit(20):
            return real_trace(case)
    except docs.Hang:
        return 'err:Hang@ops'
    except Exception as exc:  # noqa: BLE001
        frames = [f for f in traceback.extract_tb(exc.__traceback__) if '/weasyprint/' in f.filename]
        where = f'{frames[-1].filename.split("/")[-1]}:{frames[-1].name}' if frames else 'harness'
        return f'err:{type(exc).__name__}@{where}'


def gen_case(rng):
    """A mostly valid call sequence (a footnote is laid out when waiting, reported when in the area, un-laid-out at
    any time), with a few invalid calls; areas with negative margins, bottom decorations and max-height."""
    line_h = Fraction(rng.choice([10, 10, 5, 8]))
    k = rng.choice([1, 2, 3, 3, 4, 5])
    fns = [dict(fid=i + 1, m=rng.choice([1, 1, 2, 3, 5]), h=line_h) for i in range(k)]
    area = pm_foot.default_area()
    if rng.random() < 0.5:
        area['mt'] = Fraction(rng.choice([2, 4, 10, -4, -14, -30]))
    if rng.random() < 0.3:
        area['pt'] = Fraction(rng.choice([2, 4]))
    if rng.random() < 0.3:
        area['bt'] = Fraction(rng.choice([1, 2]))
    if rng.random() < 0.3:
        area['mb'] = Fraction(rng.choice([2, -6]))
    if rng.random() < 0.2:
        area['pb'] = Fraction(rng.choice([2, 4]))
    if rng.random() < 0.2:
        area['bb'] = Fraction(rng.choice([1, 2]))
    if rng.random() < 0.4:
        area['maxH'] = Fraction(rng.choice([1, 2, 3])) * line_h + rng.choice([0, line_h / 2])
    waiting, cur, reported = [f['fid'] for f in fns], [], []
    ops = []
    for _ in range(rng.choice([3, 5, 8, 12])):
        r = rng.random()
        if r < 0.06:
            ops.append([rng.choice(OPS), rng.choice(fns)['fid']])      # maybe invalid: ends the trace
            break
        if waiting and (r < 0.55 or not cur):
            fid = rng.choice(waiting) if rng.random() < 0.3 else waiting[0]
            waiting.remove(fid); cur.append(fid); ops.append(['lay', fid])
        elif cur and r < 0.75:
            fid = cur[-1] if rng.random() < 0.7 else rng.choice(cur)
            cur.remove(fid); reported.append(fid); ops.append(['report', fid])
        else:
            fid = rng.choice(fns)['fid']
            if fid not in waiting:
                waiting.append(fid)
                if fid in cur:
                    cur.remove(fid)
                elif fid in reported:
                    reported.remove(fid)
            ops.append(['unlay', fid])
    return dict(pageH=Fraction(rng.choice([40, 60, 100])), area=area, fns=fns, ops=ops)


def trace_violation(case, impl_out):
    """The clause on the implementation's trace (C03 `context.page_bottom`, C01 nothing lost): after every call
    `page_bottom` is the page box bottom minus what the current area takes (max(0, margin box height); nothing when
    it is empty) and never exceeds the page box bottom; the three lists always hold every footnote exactly once."""
    if impl_out.startswith('err:'):
        return f'the footnote methods raised {impl_out}'
    area = case['area']
    deco = sum(area[key] for key in ('mt', 'mb', 'pt', 'pb', 'bt', 'bb'))
    everything = sorted(f['fid'] for f in case['fns'])
    for number, step in enumerate(sx.loads_line(impl_out)):
        if not step or step[0] != 's':
            continue
        bottom, height = Fraction(step[1]), step[2]
        cur, reported, waiting = ([int(x) for x in step[k]] for k in (4, 5, 6))
        if sorted(cur + reported + waiting) != everything:
            return f'call {number}: the footnote lists hold {sorted(cur + reported + waiting)}, not {everything}'
        if bottom > case['pageH']:
            return f'call {number}: page_bottom {bottom} is below the page box bottom {case["pageH"]}'
        taken = Fraction(0) if (height == 'auto' or not cur) else max(Fraction(0), Fraction(height) + deco)
        if bottom != case['pageH'] - taken:
            return (f'call {number}: page_bottom is {bottom}, the page box bottom {case["pageH"]} minus the area '
                    f'({taken}) is {case["pageH"] - taken}')
    return None
