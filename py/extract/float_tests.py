"""Gen/FloatTests.lean from weasyprint/layout/float.py.

AST translator for the three arithmetic tests of `avoid_collisions` that the C11 theorems depend on:
  * the collision test (the `if` inside `for shape in excluded_shapes`),
  * the filter of `lower_positions_y` (which bottoms the box may descend to),
  * the fit test (`box_width > max_right_bound - max_left_bound`).
Each is translated expression for expression (comparison chains, and / or, + / -) into a Lean Bool
function over Rat, so that editing one comparison in the source changes the definition the proofs
are about.  Anything outside that subset is an ExtractionError (reported like a broken proof).
"""
import ast

from .common import ExtractionError, find_function, parse, span_sha, write_if_changed

REL = 'weasyprint/layout/float.py'
OPS = {ast.Lt: '<', ast.LtE: '≤', ast.Gt: '>', ast.GtE: '≥', ast.Eq: '=', ast.NotEq: '≠'}


def _attr_of(node, obj):
    """`obj.name` -> name ; `obj.name()` -> name() ; else None."""
    if isinstance(node, ast.Attribute) and isinstance(node.value, ast.Name) and node.value.id == obj:
        return node.attr
    if (isinstance(node, ast.Call) and not node.args and not node.keywords and
            isinstance(node.func, ast.Attribute) and isinstance(node.func.value, ast.Name) and
            node.func.value.id == obj):
        return node.func.attr + '()'
    return None


def translate(node, env):
    """Python expression -> Lean term (Rat for arithmetic, Bool for tests)."""
    if isinstance(node, ast.BoolOp):
        op = ' && ' if isinstance(node.op, ast.And) else ' || '
        return '(' + op.join(translate(v, env) for v in node.values) + ')'
    if isinstance(node, ast.Compare):
        terms = [node.left, *node.comparators]
        parts = []
        for op, a, b in zip(node.ops, terms, terms[1:]):
            if type(op) not in OPS:
                raise ExtractionError(f'comparison {type(op).__name__} at line {node.lineno}')
            parts.append(f'decide ({translate(a, env)} {OPS[type(op)]} {translate(b, env)})')
        return '(' + ' && '.join(parts) + ')'
    if isinstance(node, ast.BinOp) and isinstance(node.op, (ast.Add, ast.Sub)):
        op = '+' if isinstance(node.op, ast.Add) else '-'
        return f'({translate(node.left, env)} {op} {translate(node.right, env)})'
    if isinstance(node, ast.Name):
        if node.id in env:
            return env[node.id]
        raise ExtractionError(f'unknown name {node.id!r} at line {node.lineno}')
    key = _attr_of(node, 'shape')
    if key is not None and ('shape.' + key) in env:
        return env['shape.' + key]
    raise ExtractionError(f'expression outside the translated subset at line {getattr(node, "lineno", "?")}: '
                          f'{ast.dump(node)[:80]}')


def extract():
    tree = parse(REL)
    func = find_function(tree, 'avoid_collisions')
    shape_env = {'shape.position_y': 'sy', 'shape.margin_height()': 'sh'}
    # 1. the collision test
    loops = [n for n in ast.walk(func) if isinstance(n, ast.For) and isinstance(n.target, ast.Name) and
             n.target.id == 'shape' and isinstance(n.iter, ast.Name) and n.iter.id == 'excluded_shapes']
    if len(loops) != 1:
        raise ExtractionError('expected one `for shape in excluded_shapes` loop')
    loop = loops[0]
    env = dict(shape_env, position_y='y', box_height='h')
    tests = []
    for stmt in loop.body:
        if isinstance(stmt, ast.Assign) and len(stmt.targets) == 1 and isinstance(stmt.targets[0], ast.Name):
            key = _attr_of(stmt.value, 'shape')
            if key is None or 'shape.' + key not in shape_env:
                raise ExtractionError(f'unexpected local in the collision loop at line {stmt.lineno}')
            env[stmt.targets[0].id] = shape_env['shape.' + key]
        elif isinstance(stmt, ast.If):
            if stmt.orelse or len(stmt.body) != 1:
                raise ExtractionError('collision `if` has an unexpected shape')
            tests.append(stmt.test)
        elif not (isinstance(stmt, ast.Expr) and isinstance(stmt.value, ast.Constant)):
            raise ExtractionError(f'unexpected statement in the collision loop at line {stmt.lineno}')
    if len(tests) != 1:
        raise ExtractionError('expected exactly one test in the collision loop')
    collide = translate(tests[0], env)
    # 2. lower_positions_y = [bottom for shape in colliding_shapes if <test>]
    lower = None
    for node in ast.walk(func):
        if (isinstance(node, ast.Assign) and isinstance(node.targets[0], ast.Name) and
                node.targets[0].id == 'lower_positions_y'):
            comp = node.value
            if not (isinstance(comp, ast.ListComp) and len(comp.generators) == 1 and
                    len(comp.generators[0].ifs) == 1 and isinstance(comp.generators[0].iter, ast.Name) and
                    comp.generators[0].iter.id == 'colliding_shapes'):
                raise ExtractionError('lower_positions_y is not the expected comprehension')
            env2 = dict(shape_env, position_y='y')
            if translate(comp.elt, env2) != '(sy + sh)':
                raise ExtractionError('lower_positions_y does not collect shape bottoms')
            lower = translate(comp.generators[0].ifs[0], env2)
    if lower is None:
        raise ExtractionError('lower_positions_y not found')
    # 3. the fit test and what follows it
    fits = [n for n in ast.walk(func) if isinstance(n, ast.If) and isinstance(n.test, ast.Compare) and
            isinstance(n.test.left, ast.Name) and n.test.left.id == 'box_width']
    if len(fits) != 1:
        raise ExtractionError('fit test not found')
    blocked = translate(fits[0].test, {'box_width': 'w', 'max_right_bound': 'r', 'max_left_bound': 'l'})
    # position_y = min(lower_positions_y)
    descents = [n for n in ast.walk(fits[0]) if isinstance(n, ast.Assign) and isinstance(n.targets[0], ast.Name) and
                n.targets[0].id == 'position_y']
    ok = (len(descents) == 1 and isinstance(descents[0].value, ast.Call) and
          isinstance(descents[0].value.func, ast.Name) and descents[0].value.func.id == 'min' and
          len(descents[0].value.args) == 1 and isinstance(descents[0].value.args[0], ast.Name) and
          descents[0].value.args[0].id == 'lower_positions_y')
    if not ok:
        raise ExtractionError('the descent is not `position_y = min(lower_positions_y)`')
    return {'collide': collide, 'lower': lower, 'blocked': blocked, 'sha': span_sha(REL, func)}


def generate():
    t = extract()
    text = f'''/- GENERATED by py/extract/float_tests.py from {REL} `avoid_collisions` (span sha {t['sha']}). Do not edit. -/
namespace Wp.Gen

/-- The test of `for shape in excluded_shapes: if …: colliding_shapes.append(shape)`;
`sy` = shape.position_y, `sh` = shape.margin_height(), `y` = position_y, `h` = box_height. -/
def collideTest (sy sh y h : Rat) : Bool :=
  {t['collide']}

/-- The filter of `lower_positions_y` (bottoms the box may descend to). -/
def lowerTest (sy sh y : Rat) : Bool :=
  {t['lower']}

/-- "The box does not fit here": `w` = box_width, `r` / `l` = max_right_bound / max_left_bound. -/
def blockedTest (w r l : Rat) : Bool :=
  {t['blocked']}

end Wp.Gen
'''
    changed = write_if_changed('FloatTests', text)
    return {'name': 'FloatTests', 'changed': changed, 'source': 'ast', 'sha256_of_source_span': t['sha'],
            'entries': 3}
