"""Gen/PurityInventory.lean: an inventory, regenerated from weasyprint/**/*.py on every run, of everything that can
make a render depend on something else than its inputs (C19).

AST translator.  Four tables:
  moduleObjects   `(file, name, kind)`   every module-level name bound to a mutable container (dict / list / set literal,
                  comprehension, dict() / list() / set() / defaultdict() …) or to an object built by a call
                  (`kind = call:<callee>`), i.e. everything that lives as long as the process
  stateClasses    `(file, class, attribute, kind)`  every class that gives its instances (or itself) a mutable container:
                  `self.x = {}` … in a method, or a container literal in the class body (`attribute = CLASSATTR:x`)
  memoSites       `(file, qualified function, decorator, scope)`  every function decorated with a memoising decorator
                  (`cache`, `lru_cache`, `cached_property`); scope = `process` (module level or method: lives as long as
                  the process / the class) or `call` (defined inside a function: a new cache per call)
  orderSites      `(file, function, how, expression)`  every place where iteration order of a hash-ordered collection,
                  or an address / hash value, can reach the output: `for` / comprehension / list() / tuple() / join /
                  enumerate / zip / iter / next / * / .pop() over an expression that is set-valued (set literal, set
                  comprehension, set() / frozenset(), | & - ^ of such, .union() …, a name or attribute assigned such a
                  value, `style['<key>']` for a property whose validator returns a set), and every call of `hash()` /
                  `id()`
The Lean side (Props/C19Purity.lean) proves that every entry is in a reviewed whitelist that records *why* it is
harmless; a new cache, a new process-lifetime object, a new stateful class or a new iteration over a set breaks a proof.
What the scan cannot see (aliases, sets passed as arguments or returned by functions, C state behind cffi) is covered
by the deep snapshots and the multi-PYTHONHASHSEED processes of the history harness only.
"""
import ast

from vlib.paths import REPO

from .common import ExtractionError, lean_str, write_if_changed

CONTAINER_CALLS = {'dict', 'list', 'set', 'defaultdict', 'OrderedDict', 'Counter', 'deque', 'bytearray'}
IMMUTABLE_CALLS = {'tuple', 'frozenset', 'int', 'float', 'str', 'bytes', 'compile', 'namedtuple', 'getLogger',
                   'TypeVar', 'Path', 'files', 'getenv'}
SET_CALLS = {'set', 'frozenset'}
SET_METHODS = {'union', 'intersection', 'difference', 'symmetric_difference', 'copy'}
ITER_CALLS = {'list', 'tuple', 'enumerate', 'zip', 'iter', 'next', 'reversed', 'map', 'filter'}
MEMO_DECORATORS = {'cache', 'lru_cache', 'cached_property'}


def _callee(node):
    return ast.unparse(node.func).split('.')[-1]


def container_kind(value):
    if isinstance(value, (ast.Dict, ast.DictComp)):
        return 'dict'
    if isinstance(value, (ast.List, ast.ListComp)):
        return 'list'
    if isinstance(value, (ast.Set, ast.SetComp)):
        return 'set'
    if isinstance(value, ast.Call) and _callee(value) in CONTAINER_CALLS:
        return _callee(value)
    return None


def is_setish(node, names, attributes, keys):
    if isinstance(node, (ast.Set, ast.SetComp)):
        return True
    if isinstance(node, ast.Call):
        func = node.func
        if isinstance(func, ast.Name) and func.id in SET_CALLS:
            return True
        if isinstance(func, ast.Attribute) and func.attr in SET_METHODS:
            return is_setish(func.value, names, attributes, keys)
        return False
    if isinstance(node, ast.Name):
        return node.id in names
    if isinstance(node, ast.Attribute):
        return node.attr in attributes
    if isinstance(node, ast.BinOp) and isinstance(node.op, (ast.BitOr, ast.BitAnd, ast.Sub, ast.BitXor)):
        return is_setish(node.left, names, attributes, keys) or is_setish(node.right, names, attributes, keys)
    if isinstance(node, ast.Subscript) and isinstance(node.slice, ast.Constant) and isinstance(node.slice.value, str):
        return node.slice.value in keys
    if isinstance(node, ast.IfExp):
        return is_setish(node.body, names, attributes, keys) or is_setish(node.orelse, names, attributes, keys)
    return False


def _functions(tree):
    out = []

    def visit(node, prefix, nested):
        for child in ast.iter_child_nodes(node):
            if isinstance(child, (ast.FunctionDef, ast.AsyncFunctionDef)):
                out.append((child, prefix + child.name, nested))
                visit(child, prefix + child.name + '.', True)
            elif isinstance(child, ast.ClassDef):
                visit(child, prefix + child.name + '.', nested)
            else:
                visit(child, prefix, nested)
    visit(tree, '', False)
    return out


def _set_names(scope, seed, attributes, keys):
    names = set(seed)
    changed = True
    while changed:
        changed = False
        for node in ast.walk(scope):
            if isinstance(node, (ast.Assign, ast.AnnAssign)) and node.value is not None and \
                    is_setish(node.value, names, attributes, keys):
                targets = node.targets if isinstance(node, ast.Assign) else [node.target]
                for target in targets:
                    if isinstance(target, ast.Name) and target.id not in names:
                        names.add(target.id)
                        changed = True
    return names


def scan():
    root = REPO / 'weasyprint'
    trees = {}
    for path in sorted(root.rglob('*.py')):
        try:
            trees[str(path.relative_to(root))] = ast.parse(path.read_text(encoding='utf-8'), filename=str(path))
        except SyntaxError as exc:
            raise ExtractionError(f'{path}: {exc}')
    if len(trees) < 50:
        raise ExtractionError(f'only {len(trees)} source files under {root}')

    module_objects, state_classes, memo_sites, order_sites = set(), set(), set(), set()

    # set-valued attributes (anywhere) and set-valued style keys (validators returning a set)
    attributes = set()
    for tree in trees.values():
        for node in ast.walk(tree):
            if isinstance(node, ast.Assign) and is_setish(node.value, set(), set(), set()):
                for target in node.targets:
                    if isinstance(target, ast.Attribute):
                        attributes.add(target.attr)
    keys = set()
    validators = trees.get('css/validation/properties.py')
    if validators is None:
        raise ExtractionError('css/validation/properties.py not found')
    for fn in validators.body:
        if isinstance(fn, ast.FunctionDef):
            local = _set_names(fn, (), set(), set())
            for node in ast.walk(fn):
                if isinstance(node, ast.Return) and node.value is not None and \
                        is_setish(node.value, local, set(), set()):
                    keys.add(fn.name)

    for rel, tree in trees.items():
        module_sets = set()
        for node in tree.body:
            if isinstance(node, (ast.Assign, ast.AnnAssign)) and node.value is not None:
                targets = node.targets if isinstance(node, ast.Assign) else [node.target]
                kind = container_kind(node.value)
                if kind is None and isinstance(node.value, ast.Call) and _callee(node.value) not in IMMUTABLE_CALLS:
                    kind = 'call:' + _callee(node.value)
                for target in targets:
                    if isinstance(target, ast.Name):
                        if kind is not None:
                            module_objects.add((rel, target.id, kind))
                        if is_setish(node.value, set(), attributes, keys):
                            module_sets.add(target.id)
        for cls in ast.walk(tree):
            if not isinstance(cls, ast.ClassDef):
                continue
            for member in cls.body:
                if isinstance(member, ast.Assign):
                    kind = container_kind(member.value)
                    for target in member.targets:
                        if kind and isinstance(target, ast.Name):
                            state_classes.add((rel, cls.name, 'CLASSATTR:' + target.id, kind))
                elif isinstance(member, (ast.FunctionDef, ast.AsyncFunctionDef)):
                    for node in ast.walk(member):
                        if isinstance(node, ast.Assign):
                            kind = container_kind(node.value)
                            for target in node.targets:
                                if (kind and isinstance(target, ast.Attribute) and
                                        isinstance(target.value, ast.Name) and target.value.id in ('self', 'cls')):
                                    state_classes.add((rel, cls.name, target.attr, kind))
        for fn, qual, nested in _functions(tree):
            for decorator in fn.decorator_list:
                head = ast.unparse(decorator).split('(')[0].split('.')[-1]
                if head in MEMO_DECORATORS:
                    memo_sites.add((rel, qual, head, 'call' if nested else 'process'))
            names = _set_names(fn, module_sets, attributes, keys)
            for node in ast.walk(fn):
                iterated, how = None, None
                if isinstance(node, (ast.For, ast.AsyncFor)):
                    iterated, how = node.iter, 'for'
                elif isinstance(node, ast.comprehension):
                    iterated, how = node.iter, 'comprehension'
                elif isinstance(node, ast.Call) and isinstance(node.func, ast.Name):
                    if node.func.id in ITER_CALLS and node.args:
                        iterated, how = node.args[-1] if node.func.id in ('map', 'filter') else node.args[0], node.func.id
                    elif node.func.id in ('hash', 'id'):
                        order_sites.add((rel, qual, node.func.id, ast.unparse(node)))
                elif isinstance(node, ast.Call) and isinstance(node.func, ast.Attribute):
                    if node.func.attr == 'join' and node.args:
                        iterated, how = node.args[0], 'join'
                    elif node.func.attr == 'pop' and not node.args and \
                            is_setish(node.func.value, names, attributes, keys):
                        order_sites.add((rel, qual, 'pop', ast.unparse(node.func.value)))
                elif isinstance(node, ast.Starred):
                    iterated, how = node.value, 'star'
                if iterated is not None and is_setish(iterated, names, attributes, keys):
                    # a set comprehension over a set is again unordered: only its consumers matter
                    order_sites.add((rel, qual, how, ast.unparse(iterated)))
    return (sorted(module_objects), sorted(state_classes), sorted(memo_sites), sorted(order_sites), sorted(keys),
            len(trees))


def _table(name, doc, arity, rows):
    kind = ' × '.join(['String'] * arity)
    body = ',\n   '.join('(' + ', '.join(lean_str(x) for x in row) + ')' for row in rows)
    return f'/-- {doc} -/\ndef {name} : List ({kind}) :=\n  [{body}]\n\n'


def generate():
    module_objects, state_classes, memo_sites, order_sites, set_keys, files = scan()
    text = (
        '/- GENERATED by py/extract/purity_inventory.py from weasyprint/**/*.py — do not edit. -/\n\n'
        'namespace Wp.Gen.Purity\n\n' +
        _table('moduleObjects', '`(file, name, kind)`: module-level mutable containers and objects built by a call.',
               3, module_objects) +
        _table('stateClasses', '`(file, class, attribute, kind)`: classes whose instances (or the class) own a mutable '
               'container.', 4, state_classes) +
        _table('stateClassNames', '`(file, class)` of `stateClasses`, each once.', 2,
               sorted({(f, c) for f, c, _, _ in state_classes})) +
        _table('classLevelContainers', 'the entries of `stateClasses` that sit in a class body (shared by all '
               'instances, process lifetime).', 4, [row for row in state_classes if row[2].startswith('CLASSATTR:')]) +
        _table('memoSites', '`(file, function, decorator, scope)`: memoised functions.', 4, memo_sites) +
        _table('orderSites', '`(file, function, how, expression)`: iteration over set-valued expressions, `hash()`, '
               '`id()`.', 4, order_sites) +
        '/-- Style keys whose validator returns a set (their computed value is iterated in hash order). -/\n'
        'def setValuedProperties : List String :=\n  [' + ', '.join(lean_str(k) for k in set_keys) + ']\n\n'
        f'def files : Nat := {files}\n\nend Wp.Gen.Purity\n')
    changed = write_if_changed('PurityInventory', text)
    return {'table': 'Gen/PurityInventory.lean', 'source': 'weasyprint/**/*.py', 'module_objects': len(module_objects),
            'state_classes': len(state_classes), 'memo_sites': len(memo_sites), 'order_sites': len(order_sites),
            'set_valued_properties': set_keys, 'files': files, 'changed': changed}
