"""Gen/PdfTags.lean from weasyprint/pdf/stream.py.

Graph translator: `Stream.get_marked_content_tag` called on every HTML element name (and on unknown names for the
default branch).
AST translator: the same if/elif chain read from the source (three return shapes: a constant, `element_tag.upper()`,
`element_tag[:2].upper() + element_tag[2:]`), and the three colour-space tuples tested by `Stream.set_color`.
Both tables are written; `Props/C16.lean` proves they agree, so neither translator is trusted alone.
"""
import ast

from .common import (
    ExtractionError, const_str_tuple, find_function, lean_list, lean_str, parse, span_sha, write_if_changed)

REL = 'weasyprint/pdf/stream.py'

HTML_TAGS = (
    'a abbr address area article aside audio b base bdi bdo blockquote body br button canvas caption cite code col '
    'colgroup data datalist dd del details dfn dialog div dl dt em embed fieldset figcaption figure footer form h1 h2 '
    'h3 h4 h5 h6 head header hgroup hr html i iframe img input ins kbd label legend li link main map mark menu meta '
    'meter nav noscript object ol optgroup option output p picture pre progress q rp rt ruby s samp script search '
    'section select slot small source span strong style sub summary sup table tbody td template textarea tfoot th '
    'thead time title tr track u ul var video wbr svg math center font').split()
UNKNOWN = ('x-unknown', 'DIV', 'h7', 'tablex')


def _is_name(node, name):
    return isinstance(node, ast.Name) and node.id == name


def _condition_tags(test):
    """`element_tag == 'x'` or `element_tag in (...)` -> list of tags."""
    if isinstance(test, ast.Compare) and len(test.ops) == 1 and _is_name(test.left, 'element_tag'):
        right = test.comparators[0]
        if isinstance(test.ops[0], ast.Eq) and isinstance(right, ast.Constant) and isinstance(right.value, str):
            return [right.value]
        if isinstance(test.ops[0], ast.In):
            return const_str_tuple(right)
    raise ExtractionError(f'get_marked_content_tag: unexpected condition at line {test.lineno}')


def _return_fn(node):
    """The returned expression as a Python function of the tag."""
    if not isinstance(node, ast.Return):
        raise ExtractionError(f'get_marked_content_tag: expected return at line {node.lineno}')
    value = node.value
    if isinstance(value, ast.Constant) and isinstance(value.value, str):
        return lambda tag, v=value.value: v
    src = ast.unparse(value)
    if src == 'element_tag.upper()':
        return lambda tag: tag.upper()
    if src == 'element_tag[:2].upper() + element_tag[2:]':
        return lambda tag: tag[:2].upper() + tag[2:]
    raise ExtractionError(f'get_marked_content_tag: unexpected return expression `{src}`')


def ast_tables():
    tree = parse(REL)
    func = find_function(tree, 'get_marked_content_tag', cls='Stream')
    body = [n for n in func.body if not (isinstance(n, ast.Expr) and isinstance(n.value, ast.Constant))]
    if len(body) != 1 or not isinstance(body[0], ast.If):
        raise ExtractionError('get_marked_content_tag is not a single if/elif chain')
    node, table, default = body[0], [], None
    while True:
        if len(node.body) != 1:
            raise ExtractionError('get_marked_content_tag: branch with more than one statement')
        fn = _return_fn(node.body[0])
        for tag in _condition_tags(node.test):
            if tag not in [t for t, _ in table]:
                table.append((tag, fn(tag)))
        if len(node.orelse) == 1 and isinstance(node.orelse[0], ast.If):
            node = node.orelse[0]
        elif len(node.orelse) == 1:
            default = _return_fn(node.orelse[0])('')
            break
        else:
            raise ExtractionError('get_marked_content_tag: missing else branch')

    # set_color: `color.space in (...)` tests, in source order
    set_color = find_function(tree, 'set_color', cls='Stream')
    spaces = []
    for n in ast.walk(set_color):
        if (isinstance(n, ast.Compare) and len(n.ops) == 1 and isinstance(n.ops[0], ast.In) and
                isinstance(n.left, ast.Attribute) and n.left.attr == 'space'):
            spaces.append((n.lineno, const_str_tuple(n.comparators[0])))
    spaces.sort()
    if len(spaces) != 3:
        raise ExtractionError(f'set_color: expected three colour-space membership tests, found {len(spaces)}')
    return {'table': table, 'default': default, 'spaces': [s for _, s in spaces],
            'sha': span_sha(REL, func) + span_sha(REL, set_color)}


def graph_table():
    from weasyprint.pdf.stream import Stream
    fn = Stream.get_marked_content_tag
    return [(tag, fn(None, tag)) for tag in HTML_TAGS], [(tag, fn(None, tag)) for tag in UNKNOWN]


def _pairs(pairs):
    return lean_list([f'({lean_str(a)}, {lean_str(b)})' for a, b in pairs])


def generate():
    graph, unknown = graph_table()
    defaults = {r for _, r in unknown}
    try:
        a = ast_tables()
        source = 'ast'
    except ExtractionError:
        # behaviour-only fallback: tags whose result differs from the default
        if len(defaults) != 1:
            raise
        default = next(iter(defaults))
        a = {'table': [(t, r) for t, r in graph if r != default], 'default': default,
             'spaces': None, 'sha': 'graph-fallback'}
        source = 'graph'
    if a['spaces'] is None:
        raise ExtractionError('set_color colour-space tuples not recognised')
    text = (
        '/- GENERATED by py/extract/pdf_tags.py from weasyprint/pdf/stream.py — do not edit. -/\n'
        'namespace Wp.Pdf.Gen\n\n'
        f'/-- if/elif chain of `Stream.get_marked_content_tag` ({source}). -/\n'
        f'def tagGraph : List (String × String) := {_pairs(a["table"])}\n\n'
        f'def tagDefault : String := {lean_str(a["default"])}\n\n'
        '/-- The real function called on every HTML element name. -/\n'
        f'def tagCalled : List (String × String) := {_pairs(graph)}\n\n'
        '/-- … and on names outside HTML (default branch). -/\n'
        f'def tagCalledUnknown : List (String × String) := {_pairs(unknown)}\n\n'
        '/-- `set_color`: spaces written with `rg`, with `/lab-d65 cs`, with `/lab-d50 cs`. -/\n'
        f'def rgbSpaces : List String := {lean_list([lean_str(s) for s in a["spaces"][0]])}\n'
        f'def labD65Spaces : List String := {lean_list([lean_str(s) for s in a["spaces"][1]])}\n'
        f'def labD50Spaces : List String := {lean_list([lean_str(s) for s in a["spaces"][2]])}\n\n'
        'end Wp.Pdf.Gen\n')
    changed = write_if_changed('PdfTags', text)
    return {'name': 'Gen/PdfTags', 'source': source, 'sha256_of_source_span': a['sha'],
            'entries': len(a['table']) + len(graph) + len(unknown) + sum(len(s) for s in a['spaces']),
            'changed': changed}
