"""Gen/BreakTable.lean from weasyprint/layout/block.py.

AST translator: the side set and pair table of the fold in `block_level_page_break`, the membership
tuples of `avoid_page_break` / `force_page_break`.
Graph translator: the real functions called on every input of their finite domains.
"""
import ast

from .common import (
    ExtractionError, const_str_tuple, find_function, lean_list, parse, span_sha, write_if_changed)

REL = 'weasyprint/layout/block.py'
CSS_TO_LEAN = {
    'auto': '.auto', 'avoid': '.avoid', 'avoid-page': '.avoidPage', 'avoid-column': '.avoidColumn',
    'page': '.page', 'column': '.column', 'left': '.left', 'right': '.right', 'recto': '.recto',
    'verso': '.verso'}
VALUES = list(CSS_TO_LEAN)


def brk(value):
    try:
        return CSS_TO_LEAN[value]
    except KeyError:
        raise ExtractionError(f'break value {value!r} is not one of the ten computed break values')


def _is_name(node, name):
    return isinstance(node, ast.Name) and node.id == name


def ast_tables():
    tree = parse(REL)
    func = find_function(tree, 'block_level_page_break')
    sides = pairs = None
    for node in ast.walk(func):
        if isinstance(node, ast.Compare) and len(node.ops) == 1 and isinstance(node.ops[0], ast.In):
            left, right = node.left, node.comparators[0]
            if _is_name(left, 'value'):
                if sides is not None:
                    raise ExtractionError('two side-set tests')
                sides = const_str_tuple(right)
            elif (isinstance(left, ast.Tuple) and len(left.elts) == 2 and
                    _is_name(left.elts[0], 'value') and _is_name(left.elts[1], 'result')):
                if pairs is not None:
                    raise ExtractionError('two pair-table tests')
                if not isinstance(right, ast.Tuple):
                    raise ExtractionError('pair table is not a tuple literal')
                pairs = []
                for elt in right.elts:
                    pair = const_str_tuple(elt)
                    if len(pair) != 2:
                        raise ExtractionError('pair table entry is not a pair')
                    pairs.append(tuple(pair))
    if sides is None or pairs is None:
        raise ExtractionError('fold of block_level_page_break not recognised')
    # The fold must be exactly: result = 'auto'; for value in values: if <test>: result = value
    loops = [n for n in ast.walk(func) if isinstance(n, ast.For) and _is_name(n.iter, 'values')]
    if len(loops) != 1:
        raise ExtractionError('expected one loop over `values`')
    loop = loops[0]
    ok = (
        _is_name(loop.target, 'value') and len(loop.body) == 1 and
        isinstance(loop.body[0], ast.If) and not loop.body[0].orelse and
        isinstance(loop.body[0].test, ast.BoolOp) and isinstance(loop.body[0].test.op, ast.Or) and
        len(loop.body[0].body) == 1 and isinstance(loop.body[0].body[0], ast.Assign) and
        _is_name(loop.body[0].body[0].targets[0], 'result') and
        _is_name(loop.body[0].body[0].value, 'value'))
    if not ok:
        raise ExtractionError('loop body of block_level_page_break is not `if side or pair: result = value`')

    membership = {}
    for name in ('avoid_page_break', 'force_page_break'):
        fn = find_function(tree, name)
        body = [n for n in fn.body if not (isinstance(n, ast.Expr) and isinstance(n.value, ast.Constant))]
        shape_ok = (
            len(body) == 2 and isinstance(body[0], ast.If) and len(body[0].body) == 1 and
            isinstance(body[0].body[0], ast.Return) and isinstance(body[1], ast.Return) and
            isinstance(body[0].test, ast.Attribute) and body[0].test.attr == 'in_column')
        if not shape_ok:
            raise ExtractionError(f'{name}: unexpected shape')
        tuples = []
        for ret in (body[0].body[0], body[1]):
            cmp = ret.value
            if not (isinstance(cmp, ast.Compare) and isinstance(cmp.ops[0], ast.In) and
                    _is_name(cmp.left, 'page_break')):
                raise ExtractionError(f'{name}: unexpected return expression')
            tuples.append(const_str_tuple(cmp.comparators[0]))
        membership[name] = tuples
    return {
        'sides': sides, 'pairs': pairs,
        'avoid_col': membership['avoid_page_break'][0], 'avoid_page': membership['avoid_page_break'][1],
        'force_col': membership['force_page_break'][0], 'force_page': membership['force_page_break'][1],
        'sha': span_sha(REL, func)}


def make_box(break_before='auto', break_after='auto', children=()):
    from weasyprint.formatting_structure import boxes
    style = {'break_before': break_before, 'break_after': break_after}
    return boxes.BlockBox('div', style, None, list(children))


def graph_tables():
    """Call the real functions on their whole finite domain."""
    from weasyprint.layout import block

    class Ctx:
        def __init__(self, in_column):
            self.in_column = in_column

    graph2 = []
    for v1 in VALUES:
        for v2 in VALUES:
            result = block.block_level_page_break(make_box(break_after=v1), make_box(break_before=v2))
            graph2.append((v1, v2, result))
    avoid, force = [], []
    for v in VALUES:
        for col in (True, False):
            avoid.append((v, col, bool(block.avoid_page_break(v, Ctx(col)))))
            force.append((v, col, bool(block.force_page_break(v, Ctx(col)))))
    return {'graph2': graph2, 'avoid': avoid, 'force': force}


def lean_bool(b):
    return 'true' if b else 'false'


def tables_from_graph(g):
    """Fallback when the source is outside the AST subset: derive the fold's tables from behaviour.

    `graph2[(r, v)]` is `step(step(auto, r), v)`; whenever `step(auto, r) = r` this is `step(r, v)`.
    The exhaustive correspondence on longer sequences then decides whether the code is still a fold.
    """
    g2 = {(x, y): r for x, y, r in g['graph2']}
    sides = [v for v in VALUES if all(g2[(r, v)] == v for r in VALUES)]
    pairs = [(v, r) for r in VALUES for v in VALUES
             if v not in sides and v != r and g2[('auto', r)] == r and g2[(r, v)] == v]
    pairs += [(v, 'auto') for v in VALUES if v not in sides and v != 'auto' and g2[('auto', v)] == v
              and (v, 'auto') not in pairs]
    return {
        'sides': sides, 'pairs': pairs,
        'avoid_col': [v for v, c, r in g['avoid'] if c and r], 'avoid_page': [v for v, c, r in g['avoid'] if not c and r],
        'force_col': [v for v, c, r in g['force'] if c and r], 'force_page': [v for v, c, r in g['force'] if not c and r],
        'sha': 'graph-fallback'}


def generate():
    g = graph_tables()
    try:
        a = ast_tables()
        source = 'ast'
    except ExtractionError as exc:
        a = tables_from_graph(g)
        source = f'graph-fallback ({exc})'
    text = f'''/- GENERATED by py/extract/break_table.py from {REL} (span sha {a['sha']}). Do not edit. -/
import WpModel.Model.BreakTypes
namespace Wp.Gen
open Wp

/-- `value in (...)` of the fold in `block_level_page_break` (AST). -/
def sideSet : List Brk := {lean_list([brk(v) for v in a['sides']])}

/-- `(value, result) in (...)` of the same fold (AST). -/
def pairTable : List (Brk × Brk) := {lean_list([f'({brk(v)}, {brk(r)})' for v, r in a['pairs']])}

/-- `avoid_page_break`: tuple used when `context.in_column` / otherwise (AST). -/
def avoidInColumn : List Brk := {lean_list([brk(v) for v in a['avoid_col']])}
def avoidInPage : List Brk := {lean_list([brk(v) for v in a['avoid_page']])}

/-- `force_page_break`: tuple used when `context.in_column` / otherwise (AST). -/
def forceInColumn : List Brk := {lean_list([brk(v) for v in a['force_col']])}
def forceInPage : List Brk := {lean_list([brk(v) for v in a['force_page']])}

/-- Graph of the real `block_level_page_break` on two childless block boxes:
    (break-after of the box before, break-before of the box after, result). -/
def graph2 : List (Brk × Brk × Brk) := {lean_list([f'({brk(x)}, {brk(y)}, {brk(r)})' for x, y, r in g['graph2']])}

/-- Graph of the real `avoid_page_break` / `force_page_break`: (value, in_column, result). -/
def avoidGraph : List (Brk × Bool × Bool) := {lean_list([f'({brk(v)}, {lean_bool(c)}, {lean_bool(r)})' for v, c, r in g['avoid']])}
def forceGraph : List (Brk × Bool × Bool) := {lean_list([f'({brk(v)}, {lean_bool(c)}, {lean_bool(r)})' for v, c, r in g['force']])}

end Wp.Gen
'''
    changed = write_if_changed('BreakTable', text)
    return {'name': 'BreakTable', 'changed': changed, 'source': source, 'sha256_of_source_span': a['sha'],
            'entries': len(a['pairs']) + len(a['sides']) + len(g['graph2']) + 40}
