"""Gen/ReplacedConsts.lean from weasyprint/layout/replaced.py, images.py, css/validation/properties.py.

AST translator only (numeric literals and tuples of string literals):
* the two `1e-6` substitutions of `min_max_auto_replaced` (as the *exact value of the double*, which is
  what the code computes with; `harness/exactq.Q` gives the same meaning on the Python side);
* the ordered list of `violations == (a, b)` cases of the same function (the 10.4 table);
* the fall-back sizes 300 / 150 of `replaced_box_width` / `replaced_box_height`;
* `pt_to_in = 4 / 3 / 96` of `RasterImage.draw` (evaluated in float like Python does, then exact);
* the keyword tuple accepted by the `object-fit` validator.
"""
import ast
from fractions import Fraction

from .common import (
    ExtractionError, const_str_tuple, find_function, lean_list, lean_rat, lean_str, parse, span_sha,
    write_if_changed)

REL = 'weasyprint/layout/replaced.py'
REL_IMAGES = 'weasyprint/images.py'
REL_VALID = 'weasyprint/css/validation/properties.py'


def _num(node):
    if isinstance(node, ast.Constant) and isinstance(node.value, (int, float)) and not isinstance(node.value, bool):
        return node.value
    raise ExtractionError(f'expected a numeric literal at line {node.lineno}')


def _const_float_expr(node):
    """Evaluate + - * / over numeric literals with Python's own (float) semantics."""
    if isinstance(node, ast.Constant):
        return _num(node)
    if isinstance(node, ast.BinOp) and isinstance(node.op, (ast.Add, ast.Sub, ast.Mult, ast.Div)):
        a, b = _const_float_expr(node.left), _const_float_expr(node.right)
        if isinstance(node.op, ast.Add):
            return a + b
        if isinstance(node.op, ast.Sub):
            return a - b
        if isinstance(node.op, ast.Mult):
            return a * b
        return a / b
    raise ExtractionError(f'expected constant arithmetic at line {node.lineno}')


def _is_name(node, name):
    return isinstance(node, ast.Name) and node.id == name


def _is_box_attr(node, attr):
    return (isinstance(node, ast.Attribute) and node.attr == attr and _is_name(node.value, 'box'))


def min_max_tables(tree):
    fn = find_function(tree, 'min_max_auto_replaced')
    eps = {}
    cases = []
    for node in ast.walk(fn):
        # if width == 0: width = 1e-6
        if (isinstance(node, ast.If) and isinstance(node.test, ast.Compare) and len(node.test.ops) == 1 and
                isinstance(node.test.ops[0], ast.Eq) and isinstance(node.test.left, ast.Name) and
                node.test.left.id in ('width', 'height') and
                isinstance(node.test.comparators[0], ast.Constant) and node.test.comparators[0].value == 0):
            name = node.test.left.id
            if (len(node.body) != 1 or not isinstance(node.body[0], ast.Assign) or
                    not _is_name(node.body[0].targets[0], name) or node.orelse):
                raise ExtractionError(f'min_max_auto_replaced: unexpected zero work-around for {name}')
            if name in eps:
                raise ExtractionError(f'min_max_auto_replaced: two zero work-arounds for {name}')
            eps[name] = Fraction(_num(node.body[0].value))
        # violations == ('max', '')
        if (isinstance(node, ast.Compare) and _is_name(node.left, 'violations') and len(node.ops) == 1 and
                isinstance(node.ops[0], ast.Eq)):
            pair = const_str_tuple(node.comparators[0])
            if len(pair) != 2 or any(p not in ('', 'min', 'max') for p in pair):
                raise ExtractionError('min_max_auto_replaced: unexpected violation case')
            cases.append(tuple(pair))
    if set(eps) != {'width', 'height'}:
        raise ExtractionError('min_max_auto_replaced: zero work-around not found')
    # source order of the elif chain
    ordered = []
    node = next((n for n in fn.body if isinstance(n, ast.If) and isinstance(n.test, ast.Compare) and
                 _is_name(n.test.left, 'violations')), None)
    while node is not None:
        ordered.append(tuple(const_str_tuple(node.test.comparators[0])))
        nxt = node.orelse
        if len(nxt) == 1 and isinstance(nxt[0], ast.If):
            node = nxt[0]
        elif not nxt:
            node = None
        else:
            raise ExtractionError('min_max_auto_replaced: the case chain has an else branch')
    if sorted(ordered) != sorted(cases):
        raise ExtractionError('min_max_auto_replaced: violation tests outside the elif chain')
    return eps, ordered, span_sha(REL, fn)


def default_size(tree, func, attr):
    """The single numeric literal assigned to box.<attr> in <func>."""
    fn = find_function(tree, func)
    found = []
    for node in ast.walk(fn):
        if (isinstance(node, ast.Assign) and len(node.targets) == 1 and _is_box_attr(node.targets[0], attr) and
                isinstance(node.value, ast.Constant) and isinstance(node.value.value, (int, float))):
            found.append(Fraction(node.value.value))
    if len(found) != 1:
        raise ExtractionError(f'{func}: expected exactly one literal assigned to box.{attr}, got {found}')
    return found[0]


def pt_to_in():
    tree = parse(REL_IMAGES)
    fn = find_function(tree, 'draw', cls='RasterImage')
    for node in ast.walk(fn):
        if isinstance(node, ast.Assign) and len(node.targets) == 1 and _is_name(node.targets[0], 'pt_to_in'):
            return Fraction(_const_float_expr(node.value))
    raise ExtractionError('RasterImage.draw: pt_to_in not found')


def object_fit_keywords():
    tree = parse(REL_VALID)
    fn = find_function(tree, 'object_fit')
    for node in ast.walk(fn):
        if (isinstance(node, ast.Compare) and len(node.ops) == 1 and isinstance(node.ops[0], ast.In) and
                _is_name(node.left, 'keyword')):
            return const_str_tuple(node.comparators[0])
    raise ExtractionError('object_fit validator: keyword tuple not found')


def generate():
    tree = parse(REL)
    eps, cases, sha = min_max_tables(tree)
    width300 = default_size(tree, 'replaced_box_width', 'width')
    height150 = default_size(tree, 'replaced_box_height', 'height')
    ptin = pt_to_in()
    keywords = object_fit_keywords()
    text = f'''/- GENERATED by py/extract/replaced_consts.py from {REL} (span sha {sha}), {REL_IMAGES},
   {REL_VALID}. Do not edit. -/
namespace Wp.Gen

/-- `if width == 0: width = 1e-6` / `if height == 0: height = 1e-6` of `min_max_auto_replaced`:
    the exact value of the double literal. -/
def minMaxEpsWidth : Rat := {lean_rat(eps['width'])}
def minMaxEpsHeight : Rat := {lean_rat(eps['height'])}

/-- The `violations == (w, h)` cases of `min_max_auto_replaced`, in source order. -/
def violationCases : List (String × String) := {lean_list([f'({lean_str(a)}, {lean_str(b)})' for a, b in cases])}

/-- `box.width = 300` (`replaced_box_width`), `box.height = 150` (`replaced_box_height`). -/
def replacedDefaultWidth : Rat := {lean_rat(width300)}
def replacedDefaultHeight : Rat := {lean_rat(height150)}

/-- `pt_to_in = 4 / 3 / 96` of `RasterImage.draw`, evaluated in double precision. -/
def ptToIn : Rat := {lean_rat(ptin)}

/-- Keywords accepted by the `object-fit` validator. -/
def objectFitKeywords : List String := {lean_list([lean_str(k) for k in keywords])}

end Wp.Gen
'''
    changed = write_if_changed('ReplacedConsts', text)
    return {'name': 'ReplacedConsts', 'changed': changed, 'source': 'ast', 'sha256_of_source_span': sha,
            'entries': 2 + len(cases) + 3 + len(keywords)}
