"""Gen/NumericC07.lean (property C07) — AST translator for the numeric `@single_token` validators of
weasyprint/css/validation/properties.py: functions whose body is a sequence of clauses of the shapes

    if token.type == 'number' and token.int_value is not None:       -> ("int", lower, allowed)
        return token.int_value | value = token.int_value; if value >= K: return value
        | if token.int_value >= K: return token.int_value | if token.int_value in (…): return token.int_value
    if get_keyword(token) == 'kw': return 'kw' | keyword = get_keyword(token); if keyword in (…): return keyword
                                                                     -> ("kw", keywords)
    if token.type == 'number' [and token.value >= K]: return token.value | Dimension(token.value, None)
                                                                     -> ("number", lower, as_dimension)
    if token.type == 'percentage' and token.value >= K: return Dimension(token.value, '%')
                                                                     -> ("percentage", lower)
    if token.type == 'dimension' and token.value >= K: return get_length(token)
                                                                     -> ("dimension", lower)
    return get_length(token, negative=…, percentage=…)               -> ("length", negative, percentage)

(`elif` is recorded).  Every bound, keyword and flag is read from the source, so that an edit of a bound changes the
generated table and re-checks the range theorems of Props/C07Numeric.lean.  A function outside the subset is listed
as not mirrored.

Also: the "one or two lengths" validators (border-spacing, border-*-radius) with the flags of their get_length call.
"""
import ast

from .common import ExtractionError, lean_list, lean_str, parse, write_if_changed

VALIDATORS_PY = 'weasyprint/css/validation/properties.py'


class NotNumeric(Exception):
    """The function is outside the clause subset (not an error: it is simply not mirrored)."""


def _is_token_attr(node, attr):
    return isinstance(node, ast.Attribute) and node.attr == attr and isinstance(node.value, ast.Name) \
        and node.value.id == 'token'


def _const_int(node):
    if isinstance(node, ast.Constant) and isinstance(node.value, int) and not isinstance(node.value, bool):
        return node.value
    if isinstance(node, ast.UnaryOp) and isinstance(node.op, ast.USub):
        return -_const_int(node.operand)
    raise NotNumeric('bound is not an integer literal')


def _is_get_keyword(node):
    return isinstance(node, ast.Call) and isinstance(node.func, ast.Name) and node.func.id == 'get_keyword' \
        and len(node.args) == 1 and isinstance(node.args[0], ast.Name) and node.args[0].id == 'token' \
        and not node.keywords


def _type_test(node):
    """`token.type == '<t>'` -> t"""
    if isinstance(node, ast.Compare) and len(node.ops) == 1 and isinstance(node.ops[0], ast.Eq) \
            and _is_token_attr(node.left, 'type') and isinstance(node.comparators[0], ast.Constant) \
            and isinstance(node.comparators[0].value, str):
        return node.comparators[0].value
    return None


def _ge_bound(node, attr_or_name):
    """`token.<attr> >= K` or `<name> >= K` -> K"""
    if isinstance(node, ast.Compare) and len(node.ops) == 1 and isinstance(node.ops[0], ast.GtE):
        left = node.left
        ok = _is_token_attr(left, attr_or_name) or (isinstance(left, ast.Name) and left.id == attr_or_name)
        if ok:
            return _const_int(node.comparators[0])
    return None


def _parse_test(test, has_keyword_var):
    conj = test.values if isinstance(test, ast.BoolOp) and isinstance(test.op, ast.And) else [test]
    kind = _type_test(conj[0])
    if kind == 'number' and len(conj) == 2 and isinstance(conj[1], ast.Compare) and len(conj[1].ops) == 1 \
            and isinstance(conj[1].ops[0], ast.IsNot) and _is_token_attr(conj[1].left, 'int_value') \
            and isinstance(conj[1].comparators[0], ast.Constant) and conj[1].comparators[0].value is None:
        return 'int', None, []
    if kind in ('number', 'percentage', 'dimension') and len(conj) == 1:
        return kind, None, []
    if kind in ('number', 'percentage', 'dimension') and len(conj) == 2:
        bound = _ge_bound(conj[1], 'value')
        if bound is not None:
            return kind, bound, []
    if len(conj) == 1 and isinstance(test, ast.Compare) and len(test.ops) == 1:
        left_kw = _is_get_keyword(test.left) or (
            has_keyword_var and isinstance(test.left, ast.Name) and test.left.id == 'keyword')
        if left_kw and isinstance(test.ops[0], ast.Eq) and isinstance(test.comparators[0], ast.Constant) \
                and isinstance(test.comparators[0].value, str):
            return 'kw', None, [test.comparators[0].value]
        if left_kw and isinstance(test.ops[0], ast.In) and isinstance(test.comparators[0], (ast.Tuple, ast.List, ast.Set)):
            kws = []
            for elt in test.comparators[0].elts:
                if not (isinstance(elt, ast.Constant) and isinstance(elt.value, str)):
                    raise NotNumeric('keyword tuple is not made of string literals')
                kws.append(elt.value)
            return 'kw', None, kws
    raise NotNumeric(f'test outside the subset at line {test.lineno}')


def _is_return_of(stmt, pred):
    return isinstance(stmt, ast.Return) and stmt.value is not None and pred(stmt.value)


def _parse_int_body(body):
    """-> (lower, allowed)"""
    ret_int = lambda v: _is_token_attr(v, 'int_value')      # noqa: E731
    ret_value = lambda v: isinstance(v, ast.Name) and v.id == 'value'     # noqa: E731
    if len(body) == 1 and _is_return_of(body[0], ret_int):
        return None, []
    if len(body) == 2 and isinstance(body[0], ast.Assign) and len(body[0].targets) == 1 \
            and isinstance(body[0].targets[0], ast.Name) and body[0].targets[0].id == 'value' \
            and _is_token_attr(body[0].value, 'int_value') and isinstance(body[1], ast.If) and not body[1].orelse \
            and len(body[1].body) == 1 and _is_return_of(body[1].body[0], ret_value):
        bound = _ge_bound(body[1].test, 'value')
        if bound is not None:
            return bound, []
    if len(body) == 1 and isinstance(body[0], ast.If) and not body[0].orelse and len(body[0].body) == 1 \
            and _is_return_of(body[0].body[0], ret_int):
        inner = body[0].test
        bound = _ge_bound(inner, 'int_value')
        if bound is not None:
            return bound, []
        if isinstance(inner, ast.Compare) and len(inner.ops) == 1 and isinstance(inner.ops[0], ast.In) \
                and _is_token_attr(inner.left, 'int_value') \
                and isinstance(inner.comparators[0], (ast.Tuple, ast.List, ast.Set)):
            return None, [_const_int(e) for e in inner.comparators[0].elts]
    raise NotNumeric('integer clause body outside the subset')


def _is_dimension_call(node, unit):
    """`Dimension(token.value, <unit>)`"""
    return isinstance(node, ast.Call) and isinstance(node.func, ast.Name) and node.func.id == 'Dimension' \
        and len(node.args) == 2 and not node.keywords and _is_token_attr(node.args[0], 'value') \
        and isinstance(node.args[1], ast.Constant) and node.args[1].value == unit


def _get_length_flags(node):
    """`get_length(token[, negative=…][, percentage=…])` -> (negative, percentage) with the defaults of utils.py"""
    if not (isinstance(node, ast.Call) and isinstance(node.func, ast.Name) and node.func.id == 'get_length'
            and len(node.args) == 1 and isinstance(node.args[0], ast.Name) and node.args[0].id == 'token'):
        return None
    flags = {'negative': True, 'percentage': False}
    for kw in node.keywords:
        if kw.arg not in flags or not (isinstance(kw.value, ast.Constant) and isinstance(kw.value.value, bool)):
            return None
        flags[kw.arg] = kw.value.value
    return flags['negative'], flags['percentage']


def _clauses_of_if(node, has_keyword_var, is_elif):
    kind, lower, keywords = _parse_test(node.test, has_keyword_var)
    allowed, flag_a, flag_b = [], False, False
    body = node.body
    if kind == 'int':
        lower, allowed = _parse_int_body(body)
    elif kind == 'kw':
        ok = len(body) == 1 and isinstance(body[0], ast.Return) and (
            (isinstance(body[0].value, ast.Constant) and len(keywords) == 1 and body[0].value.value == keywords[0]) or
            (isinstance(body[0].value, ast.Name) and body[0].value.id == 'keyword' and has_keyword_var))
        if not ok:
            raise NotNumeric('keyword clause does not return the keyword')
    elif kind == 'number':
        if len(body) == 1 and _is_return_of(body[0], lambda v: _is_token_attr(v, 'value')):
            flag_a = False
        elif len(body) == 1 and _is_return_of(body[0], lambda v: _is_dimension_call(v, None)):
            flag_a = True
        else:
            raise NotNumeric('number clause body outside the subset')
    elif kind == 'percentage':
        if not (len(body) == 1 and _is_return_of(body[0], lambda v: _is_dimension_call(v, '%'))):
            raise NotNumeric('percentage clause body outside the subset')
    elif kind == 'dimension':
        if not (len(body) == 1 and isinstance(body[0], ast.Return) and _get_length_flags(body[0].value) == (True, False)):
            raise NotNumeric('dimension clause body outside the subset')
    out = [(kind, lower, allowed, keywords, is_elif, flag_a, flag_b)]
    if node.orelse:
        if len(node.orelse) == 1 and isinstance(node.orelse[0], ast.If):
            out += _clauses_of_if(node.orelse[0], has_keyword_var, True)
        else:
            raise NotNumeric('else branch outside the subset')
    return out


def clauses_of(func):
    if [a.arg for a in func.args.args] != ['token']:
        raise NotNumeric('not a one-token validator')
    has_keyword_var = False
    clauses = []
    body = [n for n in func.body if not (isinstance(n, ast.Expr) and isinstance(n.value, ast.Constant))]
    for i, stmt in enumerate(body):
        if isinstance(stmt, ast.Assign) and len(stmt.targets) == 1 and isinstance(stmt.targets[0], ast.Name) \
                and stmt.targets[0].id == 'keyword' and _is_get_keyword(stmt.value):
            has_keyword_var = True
        elif isinstance(stmt, ast.If):
            clauses += _clauses_of_if(stmt, has_keyword_var, False)
        elif isinstance(stmt, ast.Return) and i == len(body) - 1 and _get_length_flags(stmt.value) is not None:
            negative, percentage = _get_length_flags(stmt.value)
            clauses.append(('length', None, [], [], False, negative, percentage))
        else:
            raise NotNumeric(f'statement outside the subset at line {stmt.lineno}')
    if not any(c[0] in ('int', 'number', 'percentage', 'dimension') for c in clauses):
        raise NotNumeric('no numeric clause')
    return clauses


def ast_numeric_validators():
    """-> ([(property name, function name, clauses)], [(function, why not mirrored)])"""
    tree = parse(VALIDATORS_PY)
    table, skipped = [], []
    for node in tree.body:
        if not isinstance(node, ast.FunctionDef):
            continue
        names, single_token, other_decorators = [], False, False
        for dec in node.decorator_list:
            if isinstance(dec, ast.Call) and isinstance(dec.func, ast.Name) and dec.func.id == 'property':
                if dec.args and isinstance(dec.args[0], ast.Constant) and isinstance(dec.args[0].value, str):
                    names.append(dec.args[0].value)
                elif dec.args:
                    raise ExtractionError(f'{node.name}: @property argument is not a string literal')
                else:
                    names.append(node.name.rstrip('_').replace('_', '-'))
            elif isinstance(dec, ast.Name) and dec.id == 'single_token':
                single_token = True
            else:
                other_decorators = True
        if not names or not single_token or other_decorators:
            continue
        try:
            clauses = clauses_of(node)
        except NotNumeric as exc:
            src = ast.dump(node)
            if 'int_value' in src or "'number'" in src:
                skipped.append((node.name, str(exc)))
            continue
        for name in names:
            table.append((name, node.name, clauses))
    return sorted(table), sorted(skipped)


def _is_lengths_comprehension(node):
    """`[get_length(token, …) for token in tokens]` -> (negative, percentage)"""
    if not (isinstance(node, ast.ListComp) and len(node.generators) == 1):
        return None
    gen = node.generators[0]
    if gen.ifs or not (isinstance(gen.target, ast.Name) and gen.target.id == 'token'
                       and isinstance(gen.iter, ast.Name) and gen.iter.id == 'tokens'):
        return None
    return _get_length_flags(node.elt)


def _is_len_eq(test, k):
    return isinstance(test, ast.Compare) and len(test.ops) == 1 and isinstance(test.ops[0], ast.Eq) \
        and isinstance(test.left, ast.Call) and isinstance(test.left.func, ast.Name) and test.left.func.id == 'len' \
        and len(test.left.args) == 1 and isinstance(test.left.args[0], ast.Name) and test.left.args[0].id == 'lengths' \
        and isinstance(test.comparators[0], ast.Constant) and test.comparators[0].value == k


def length_list_flags(func):
    """The shape of border_spacing / border_corner_radius:

        lengths = [get_length(token, negative=…, percentage=…) for token in tokens]
        if all(lengths):
            if len(lengths) == 1: return (lengths[0], lengths[0])
            elif len(lengths) == 2: return tuple(lengths)

    -> (negative, percentage) or None"""
    if [a.arg for a in func.args.args] != ['tokens']:
        return None
    body = [n for n in func.body if not (isinstance(n, ast.Expr) and isinstance(n.value, ast.Constant))]
    if len(body) != 2 or not (isinstance(body[0], ast.Assign) and len(body[0].targets) == 1
                              and isinstance(body[0].targets[0], ast.Name) and body[0].targets[0].id == 'lengths'):
        return None
    flags = _is_lengths_comprehension(body[0].value)
    outer = body[1]
    if flags is None or not (isinstance(outer, ast.If) and not outer.orelse and len(outer.body) == 1
                             and isinstance(outer.test, ast.Call) and isinstance(outer.test.func, ast.Name)
                             and outer.test.func.id == 'all' and len(outer.test.args) == 1
                             and isinstance(outer.test.args[0], ast.Name) and outer.test.args[0].id == 'lengths'):
        return None
    one = outer.body[0]
    if not (isinstance(one, ast.If) and _is_len_eq(one.test, 1) and len(one.body) == 1
            and isinstance(one.body[0], ast.Return) and isinstance(one.body[0].value, ast.Tuple)
            and len(one.body[0].value.elts) == 2 and len(one.orelse) == 1 and isinstance(one.orelse[0], ast.If)):
        return None
    two = one.orelse[0]
    if not (_is_len_eq(two.test, 2) and not two.orelse and len(two.body) == 1 and isinstance(two.body[0], ast.Return)
            and isinstance(two.body[0].value, ast.Call) and isinstance(two.body[0].value.func, ast.Name)
            and two.body[0].value.func.id == 'tuple'):
        return None
    return flags


def ast_length_list_validators():
    """[(property, function, negative, percentage)] for the 'one or two lengths' validators."""
    tree = parse(VALIDATORS_PY)
    out = []
    for node in tree.body:
        if not isinstance(node, ast.FunctionDef):
            continue
        names, other = [], False
        for dec in node.decorator_list:
            if isinstance(dec, ast.Call) and isinstance(dec.func, ast.Name) and dec.func.id == 'property':
                if dec.args and isinstance(dec.args[0], ast.Constant) and isinstance(dec.args[0].value, str):
                    names.append(dec.args[0].value)
                elif not dec.args:
                    names.append(node.name.rstrip('_').replace('_', '-'))
            else:
                other = True
        if not names or other:
            continue
        flags = length_list_flags(node)
        if flags is not None:
            for name in names:
                out.append((name, node.name, flags[0], flags[1]))
    return sorted(out)


def runtime_image_computers():
    """([(property, computer function name)] for the two gradient computers, [properties whose validator takes a
    gradient]) — from the runtime registries."""
    from weasyprint.css import computed_values
    from weasyprint.css.utils import remove_whitespace
    from weasyprint.css.validation.properties import PROPERTIES
    import tinycss2
    computers = sorted(
        (key.replace('_', '-'), fn.__name__) for key, fn in computed_values.COMPUTER_FUNCTIONS.items()
        if fn.__name__ in ('background_image', 'image'))
    tokens = remove_whitespace(tinycss2.parse_component_value_list('linear-gradient(red 1in, blue 2in)'))
    valued = []
    for name, fn in sorted(PROPERTIES.items()):
        try:
            value = fn(tokens, 'http://c07.test/') if fn.wants_base_url else fn(tokens)
        except Exception:  # noqa: BLE001 - not this table's business
            value = None
        if value is not None:
            valued.append(name)
    return computers, valued


def _opt_int(v):
    return 'none' if v is None else f'some ({v})'


def _clause(c):
    kind, lower, allowed, keywords, is_elif, flag_a, flag_b = c
    b = lambda x: 'true' if x else 'false'      # noqa: E731
    return (f'({lean_str(kind)}, {_opt_int(lower)}, {lean_list([f"({a} : Int)" for a in allowed])}, '
            f'{lean_list([lean_str(k) for k in keywords])}, {b(is_elif)}, {b(flag_a)}, {b(flag_b)})')


def generate():
    table, skipped = ast_numeric_validators()
    length_lists = ast_length_list_validators()
    computers, valued = runtime_image_computers()
    if not table:
        raise ExtractionError('no numeric @single_token validator found in properties.py')
    rows = [f'({lean_str(name)}, {lean_str(fn)}, {lean_list([_clause(c) for c in clauses])})'
            for name, fn, clauses in table]
    text = f'''/- GENERATED by py/extract/c07_numeric.py from {VALIDATORS_PY}. Do not edit. -/
namespace Wp.Gen.NumericC07

/-- One clause of a numeric `@single_token` validator:
(kind, lower bound, allowed integers, keywords, is an `elif`, flag A, flag B);
kind "int" / "kw" / "number" (A: returns `Dimension(value, None)`) / "percentage" / "dimension" /
"length" (A: `negative=`, B: `percentage=`). -/
abbrev Clause := String × Option Int × List Int × List String × Bool × Bool × Bool

/-- (property, validator function, clauses in source order) (AST), sorted by property. -/
def numericValidators : List (String × String × List Clause) := {lean_list(rows)}

/-- Validators of the shape "one or two lengths" (`lengths = [get_length(token, negative=…, percentage=…) for token in
tokens]`, one length doubled, two kept): (property, function, negative, percentage) (AST), sorted by property. -/
def lengthListValidators : List (String × String × Bool × Bool) := {lean_list([f"({lean_str(n)}, {lean_str(f)}, {'true' if a else 'false'}, {'true' if b else 'false'})" for n, f, a, b in length_lists])}

/-- `COMPUTER_FUNCTIONS` entries bound to the two gradient computers: (property, function name) (runtime). -/
def imageComputers : List (String × String) := {lean_list([f"({lean_str(n)}, {lean_str(f)})" for n, f in computers])}

/-- Properties whose registered validator accepts `linear-gradient(red 1in, blue 2in)` (runtime probe). -/
def gradientValued : List String := {lean_list([lean_str(n) for n in valued])}

/-- Numeric-looking `@single_token` validators outside the clause subset (not mirrored): (function, reason). -/
def notMirrored : List (String × String) := {lean_list([f"({lean_str(f)}, {lean_str(w)})" for f, w in skipped])}

end Wp.Gen.NumericC07
'''
    changed = write_if_changed('NumericC07', text)
    return {'name': 'NumericC07', 'changed': changed, 'source': 'ast', 'sha256_of_source_span': 'whole-file',
            'entries': sum(len(c) for _, _, c in table) + len(length_lists), 'numeric_properties': len(table),
            'length_list_properties': [n for n, _, _, _ in length_lists],
            'not_mirrored': [f for f, _ in skipped]}
