"""Gen/ImageKey.lean from weasyprint/images.py: how `get_image_from_uri` builds its cache key, which expressions index
the cache, and which `options[...]` the image code reads (AST translator).

The class of defect this table is for: the cached image depends on something that is not part of the key (F18: the
orientation; `image-cache-ignores-options`: optimize_images / jpeg_quality / dpi), or the cache is indexed by
something else than the key.  `Props/C19Key.lean` proves that the hand-written `Model/ImageCache.keyStr` renders exactly
these parts, that every option the image code reads is a key field, and that the cache is only indexed by `key`.
"""
import ast

from .common import ExtractionError, lean_str, parse, write_if_changed

REL = 'weasyprint/images.py'
FUNCTION = 'get_image_from_uri'


def _field(node):
    """A formatted value of the key f-string -> field name."""
    if isinstance(node, ast.Name):
        return node.id
    if (isinstance(node, ast.Subscript) and isinstance(node.value, ast.Name) and
            isinstance(node.slice, ast.Constant) and isinstance(node.slice.value, str)):
        return f'{node.value.id}.{node.slice.value}'
    raise ExtractionError(f'{REL}:{node.lineno}: key component {ast.unparse(node)!r} is neither a name nor '
                          'name["literal"]')


def _functions(tree):
    """(qualified name, node) of every function of the module."""
    out = []

    def visit(body, prefix):
        for node in body:
            if isinstance(node, (ast.FunctionDef, ast.AsyncFunctionDef)):
                out.append((prefix + node.name, node))
                visit(node.body, prefix + node.name + '.')
            elif isinstance(node, ast.ClassDef):
                visit(node.body, prefix + node.name + '.')
    visit(tree.body, '')
    return out


def scan():
    tree = parse(REL)
    functions = _functions(tree)
    target = [node for name, node in functions if name == FUNCTION]
    if len(target) != 1:
        raise ExtractionError(f'{REL}: expected one function {FUNCTION}')
    function = target[0]
    # the key
    assigns = [node for node in ast.walk(function) if isinstance(node, ast.Assign) and
               any(isinstance(t, ast.Name) and t.id == 'key' for t in node.targets)]
    if len(assigns) != 1:
        raise ExtractionError(f'{REL}: {len(assigns)} assignments to `key` in {FUNCTION} (expected one)')
    value = assigns[0].value
    if not isinstance(value, ast.JoinedStr):
        raise ExtractionError(f'{REL}:{value.lineno}: `key` is not an f-string')
    parts = []
    for piece in value.values:
        if isinstance(piece, ast.Constant) and isinstance(piece.value, str):
            if parts and not parts[-1][0]:
                parts[-1] = (False, parts[-1][1] + piece.value)
            else:
                parts.append((False, piece.value))
        elif isinstance(piece, ast.FormattedValue):
            if piece.conversion != -1 or piece.format_spec is not None:
                raise ExtractionError(f'{REL}:{piece.lineno}: conversion / format spec in the key')
            parts.append((True, _field(piece.value)))
        else:
            raise ExtractionError(f'{REL}:{piece.lineno}: unexpected f-string component')
    key_nodes = {id(node) for node in ast.walk(value)}
    # what indexes the cache
    index = []
    for node in ast.walk(function):
        if isinstance(node, ast.Subscript) and isinstance(node.value, ast.Name) and node.value.id == 'cache':
            kind = {ast.Load: 'load', ast.Store: 'store', ast.Del: 'del'}[type(node.ctx)]
            index.append((node.lineno, node.col_offset, kind, ast.unparse(node.slice)))
        elif isinstance(node, ast.Compare):
            for op, comparator in zip(node.ops, node.comparators):
                if isinstance(op, (ast.In, ast.NotIn)) and isinstance(comparator, ast.Name) and comparator.id == 'cache':
                    index.append((node.lineno, node.col_offset, 'in', ast.unparse(node.left)))
        elif (isinstance(node, ast.Call) and isinstance(node.func, ast.Attribute) and
              isinstance(node.func.value, ast.Name) and node.func.value.id == 'cache'):
            arg = ast.unparse(node.args[0]) if node.args else '-'
            index.append((node.lineno, node.col_offset, node.func.attr, arg))
    index = [(kind, text) for _, _, kind, text in sorted(index)]
    # which options the image code reads (everywhere in the module, the key itself excepted)
    reads = []
    for name, node in functions:
        own = set()
        for child in ast.walk(node):
            if child is not node and isinstance(child, (ast.FunctionDef, ast.AsyncFunctionDef)):
                own |= {id(n) for n in ast.walk(child)}
        for child in ast.walk(node):
            if id(child) in own or id(child) in key_nodes:
                continue
            option = None
            if (isinstance(child, ast.Subscript) and isinstance(child.value, ast.Name) and
                    child.value.id == 'options' and isinstance(child.ctx, ast.Load)):
                if not (isinstance(child.slice, ast.Constant) and isinstance(child.slice.value, str)):
                    raise ExtractionError(f'{REL}:{child.lineno}: options[...] with a computed key')
                option = child.slice.value
            elif (isinstance(child, ast.Call) and isinstance(child.func, ast.Attribute) and
                  isinstance(child.func.value, ast.Name) and child.func.value.id == 'options' and
                  child.func.attr in ('get', 'pop', 'setdefault')):
                if not (child.args and isinstance(child.args[0], ast.Constant) and isinstance(child.args[0].value, str)):
                    raise ExtractionError(f'{REL}:{child.lineno}: options.{child.func.attr}(...) with a computed key')
                option = child.args[0].value
            if option is not None:
                reads.append((child.lineno, child.col_offset, name, option))
    reads = [(name, option) for _, _, name, option in sorted(reads)]
    return parts, index, reads


def generate():
    parts, index, reads = scan()
    text = (
        f'/- GENERATED by py/extract/image_key.py from {REL} — do not edit. -/\n\n'
        'namespace Wp.Gen.ImageKey\n\n'
        f'/-- The f-string assigned to `key` in `{FUNCTION}`: `(true, field)` for a formatted value (`name` or\n'
        '`name.literal` for `name["literal"]`), `(false, text)` for literal text, in order. -/\n'
        'def keyParts : List (Bool × String) :=\n  [' +
        ', '.join(f'({"true" if is_field else "false"}, {lean_str(text_)})' for is_field, text_ in parts) + ']\n\n'
        f'/-- Every expression that indexes `cache` in `{FUNCTION}` (`x in cache`, `cache[x]` read / written,\n'
        '`cache.method(x)`), in source order: `(how, expression)`. -/\n'
        'def cacheIndexExprs : List (String × String) :=\n  [' +
        ', '.join(f'({lean_str(kind)}, {lean_str(expr)})' for kind, expr in index) + ']\n\n'
        '/-- Every `options["…"]` / `options.get("…")` read of the module (the key itself excepted):\n'
        '`(function, option)`. -/\n'
        'def optionReads : List (String × String) :=\n  [' +
        ', '.join(f'({lean_str(name)}, {lean_str(option)})' for name, option in reads) + ']\n\n'
        'end Wp.Gen.ImageKey\n')
    changed = write_if_changed('ImageKey', text)
    return {'table': 'Gen/ImageKey.lean', 'source': REL, 'entries': len(parts) + len(index) + len(reads),
            'changed': changed}
