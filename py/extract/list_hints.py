"""Gen/ListHints.lean: the presentational hints of `<ol start>` and `<li value>` and the user-agent counter
declarations of list elements.

AST translator for the two branches of `find_style_attributes` (weasyprint/css/__init__.py):

    elif element.tag == 'ol':
        if element.get('start'):
            yield specificity, check_style_attribute(element, f'<decl with {element.get("start")}>;<const decls>')

The shape is checked strictly (a truthiness test of the raw attribute, one yield, one f-string whose only
placeholder is that same raw attribute, standing at the end of its declaration): anything else is outside the
translator's subset and reported like a broken proof.  The constant declarations of the template and the
tokens in front of the placeholder go through the *real* tinycss2 parser and the *real* property validators.

Graph translator for the UA part: the computed `display` / `counter-reset` / `counter-set` / `counter-increment`
of `ol`, `ul`, `li`, `div` in a probe document under the real HTML5 UA style sheet, without hints.
"""
import ast

from .common import ExtractionError, find_function, lean_str, parse, span_sha, write_if_changed

REL = 'weasyprint/css/__init__.py'
COUNTER_PROPS = ('counter_reset', 'counter_set', 'counter_increment')


def is_element_get(node, attr=None):
    ok = (isinstance(node, ast.Call) and isinstance(node.func, ast.Attribute) and node.func.attr == 'get'
          and isinstance(node.func.value, ast.Name) and node.func.value.id == 'element' and len(node.args) == 1
          and not node.keywords and isinstance(node.args[0], ast.Constant) and isinstance(node.args[0].value, str))
    return ok and (attr is None or node.args[0].value == attr)


def tag_branches(func):
    """{tag: body} of the `element.tag == '<tag>'` tests of the if/elif chain."""
    out = {}
    for node in ast.walk(func):
        if not isinstance(node, ast.If):
            continue
        test = node.test
        if (isinstance(test, ast.Compare) and len(test.ops) == 1 and isinstance(test.ops[0], ast.Eq)
                and isinstance(test.left, ast.Attribute) and test.left.attr == 'tag'
                and isinstance(test.left.value, ast.Name) and test.left.value.id == 'element'
                and isinstance(test.comparators[0], ast.Constant) and test.comparators[0].value in ('ol', 'li')):
            out.setdefault(test.comparators[0].value, []).append(node.body)
    return out


def template_of(tag, body):
    """-> (attr, text before the placeholder, text after it)"""
    stmts = [s for s in body if not (isinstance(s, ast.Expr) and isinstance(s.value, ast.Constant))]
    if len(stmts) != 1 or not isinstance(stmts[0], ast.If) or stmts[0].orelse:
        raise ExtractionError(f'find_style_attributes, {tag}: expected a single `if element.get(…):`')
    test = stmts[0].test
    if not is_element_get(test):
        raise ExtractionError(f'find_style_attributes, {tag}: the hint is no longer guarded by the truthiness of '
                              f'the raw attribute (line {test.lineno})')
    attr = test.args[0].value
    inner = stmts[0].body
    if not (len(inner) == 1 and isinstance(inner[0], ast.Expr) and isinstance(inner[0].value, ast.Yield)):
        raise ExtractionError(f'find_style_attributes, {tag}: expected one yield')
    value = inner[0].value.value
    if not (isinstance(value, ast.Tuple) and len(value.elts) == 2 and isinstance(value.elts[1], ast.Call)
            and getattr(value.elts[1].func, 'id', None) == 'check_style_attribute' and len(value.elts[1].args) == 2):
        raise ExtractionError(f'find_style_attributes, {tag}: expected `specificity, check_style_attribute(element, …)`')
    text = value.elts[1].args[1]
    if not isinstance(text, ast.JoinedStr):
        raise ExtractionError(f'find_style_attributes, {tag}: the style text is not an f-string')
    before, after, seen = '', '', False
    for part in text.values:
        if isinstance(part, ast.Constant):
            if seen:
                after += part.value
            else:
                before += part.value
        elif (isinstance(part, ast.FormattedValue) and not seen and part.conversion == -1
              and part.format_spec is None and is_element_get(part.value, attr)):
            seen = True
        else:
            raise ExtractionError(f'find_style_attributes, {tag}: placeholder other than the raw `{attr}` attribute')
    if not seen:
        raise ExtractionError(f'find_style_attributes, {tag}: no placeholder')
    return attr, before, after


def validated(text):
    """{property: value} of a declaration list, through the real parser and validators."""
    import tinycss2
    from weasyprint.css.validation import preprocess_declarations
    declarations = tinycss2.parse_blocks_contents(text)
    return {name: value for name, value, _ in preprocess_declarations('http://x.invalid/', declarations)}


def lean_pairs(pairs):
    return '[' + ', '.join(f'({lean_str(n)}, ({int(v)}))' for n, v in pairs) + ']'


def lean_tok(token):
    if token.type == 'ident':
        return f'.ident {lean_str(token.value)}'
    if token.type == 'number' and token.int_value is not None:
        return f'.int ({token.int_value})'
    return '.other'


def hint_of(tag, body):
    import tinycss2
    attr, before, after = template_of(tag, body)
    if not after.startswith(';') and after:
        raise ExtractionError(f'find_style_attributes, {tag}: text between the placeholder and the next `;`')
    head, _, own = before.rpartition(';')
    name, colon, prefix = own.partition(':')
    prop = name.strip().replace('-', '_')
    if not colon or prop not in COUNTER_PROPS:
        raise ExtractionError(f'find_style_attributes, {tag}: the attribute goes into {name!r}, not a counter property')
    const = validated(head + ';' + after)
    for key in const:
        if key not in COUNTER_PROPS:
            raise ExtractionError(f'find_style_attributes, {tag}: constant declaration {key} outside the model')
    if prop in const:
        raise ExtractionError(f'find_style_attributes, {tag}: {prop} declared twice')
    tokens = [t for t in tinycss2.parse_component_value_list(prefix) if t.type not in ('whitespace', 'comment')]
    fields = [f'attr := {lean_str(attr)}', f'prop := {lean_str(prop)}',
              'pre := [' + ', '.join(lean_tok(t) for t in tokens) + ']']
    for key, field in (('counter_reset', 'constReset'), ('counter_set', 'constSet'), ('counter_increment', 'constIncr')):
        if key in const:
            fields.append(f'{field} := some {lean_pairs(const[key])}')
    return '{ ' + ', '.join(fields) + ' }', attr


def ua_ops():
    """Computed counter declarations of list elements under the real HTML5 UA sheet, no hints."""
    from weasyprint import HTML
    from weasyprint.css import get_all_computed_styles
    from weasyprint.css.counters import CounterStyle
    from weasyprint.text.fonts import FontConfiguration
    html = HTML(string='<ol><li></li></ol><ul><li></li></ul><div></div>')
    style_for = get_all_computed_styles(html, font_config=FontConfiguration(), counter_style=CounterStyle(),
                                        presentational_hints=False)
    out = {}
    for element in html.etree_element.iter():
        if element.tag in ('ol', 'ul', 'li', 'div') and element.tag not in out:
            style = style_for(element)
            display = style['display']
            disp = '.none' if display == ('none',) else '.listItem' if 'list-item' in display else '.other'
            incr = style['counter_increment']
            out[element.tag] = (f'⟨{disp}, {lean_pairs(style["counter_reset"])}, {lean_pairs(style["counter_set"])}, '
                                + ('none' if incr == 'auto' else f'some {lean_pairs(incr)}') + '⟩')
    return out


def generate():
    tree = parse(REL)
    func = find_function(tree, 'find_style_attributes')
    branches = tag_branches(func)
    hints = {}
    for tag in ('ol', 'li'):
        if len(branches.get(tag, [])) != 1:
            raise ExtractionError(f'find_style_attributes: expected one `element.tag == {tag!r}` branch')
        hints[tag] = hint_of(tag, branches[tag][0])
    ua = ua_ops()
    lines = [
        '/- GENERATED by py/extract/list_hints.py from `find_style_attributes` of',
        f'   {REL} (AST: the `ol` / `li` branches; constant parts through the real parser and validators)',
        '   and from the computed styles of list elements under the real HTML5 UA sheet. Do not edit. -/',
        'import WpModel.Model.ListHintTypes',
        '',
        'namespace Wp.Gen',
        'open Wp.Counters Wp.ListHints',
        '',
        f'/-- `<ol {hints["ol"][1]}>` -/',
        f'def olHint : AttrHint := {hints["ol"][0]}',
        '',
        f'/-- `<li {hints["li"][1]}>` -/',
        f'def liHint : AttrHint := {hints["li"][0]}',
        '',
        '/-- Computed `display` / `counter-reset` / `counter-set` / `counter-increment` without hints. -/',
    ]
    for tag in ('ol', 'ul', 'li', 'div'):
        lines.append(f'def ua{tag.capitalize()} : Ops := {ua[tag]}')
    lines += ['', 'end Wp.Gen', '']
    changed = write_if_changed('ListHints', '\n'.join(lines))
    return {'name': 'Gen/ListHints.lean', 'source': REL, 'sha256_of_source_span': span_sha(REL, func),
            'entries': 6, 'changed': changed}
