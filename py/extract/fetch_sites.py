"""Gen/FetchSites.lean from an AST scan of every module under weasyprint/.

Two generated lists (tie G of DESIGN.md §2.1, C20 `every_loader_uses_fetcher`):

* `openSites`: every call site that can open a file, a URL or a socket — calls of the names `open`, `urlopen`,
  `urlretrieve`, `Request`, `mkdtemp`, `mkstemp`, `NamedTemporaryFile`, `TemporaryFile`, `TemporaryDirectory`,
  `create_connection`, `socket`, and of the attributes `.open`, `.read_bytes`, `.read_text`, `.write_bytes`,
  `.write_text`, `.urlopen`, `.connect`, `.create_connection`, `.getctime`, `.getmtime`, `.exists`, `.stat`,
  `.iterdir`, `.glob`, `.unlink` — as (file, enclosing function, callee, first-argument shape);
* `fetchSites`: every call site of `fetch(…)` (urls.fetch) and every direct call of something named
  `url_fetcher` (`url_fetcher(…)`, `x.url_fetcher(…)`) as (file, enclosing function, callee).

* `handlerSites`: in the modules that load resources (`LOADER_FILES`), every `try` statement with the exception
  classes its `except` clauses name, in source order, as (file, enclosing function, handlers) — `handlers` is the
  clauses joined by ` | ` (`bare` for `except:`), followed by ` +finally` when there is a `finally` block.  The
  models absorb exactly these classes (`Exc.isUrlFetching || Exc.isImageLoading` in `getImage`, `absorbFetchError`,
  `except Exception: continue` in `fontLoop`, `except BaseException` in `drawSvg`): Props/C20.lean states the list for
  the mirrored functions, so narrowing or widening an `except` clause breaks a proof.

Props/C20.lean compares them with hand-written whitelists by `decide`: a new open/fetch site breaks the fact.
"""
import ast
import hashlib

from vlib.paths import REPO

from .common import ExtractionError, lean_list, lean_str, write_if_changed

OPEN_NAMES = {'open', 'urlopen', 'urlretrieve', 'Request', 'mkdtemp', 'mkstemp', 'NamedTemporaryFile', 'TemporaryFile',
              'TemporaryDirectory', 'create_connection', 'socket', 'fdopen', 'getctime', 'getmtime', 'rmtree'}
OPEN_ATTRS = {'open', 'read_bytes', 'read_text', 'write_bytes', 'write_text', 'urlopen', 'urlretrieve', 'connect',
              'create_connection', 'getctime', 'getmtime', 'exists', 'stat', 'iterdir', 'glob', 'unlink', 'fdopen',
              'is_file', 'is_dir', 'listdir', 'scandir'}


LOADER_FILES = {'urls.py', 'images.py', '__init__.py', 'css/__init__.py', 'text/fonts.py', 'svg/images.py', 'svg/defs.py',
                'html.py', 'pdf/anchors.py', 'document.py', 'layout/background.py'}


def arg_shape(call):
    """Coarse shape of the first argument: distinguishes `Image.open(BytesIO(...))` from `open(filename)`."""
    if not call.args:
        return '-'
    arg = call.args[0]
    if isinstance(arg, ast.Call):
        func = arg.func
        name = func.attr if isinstance(func, ast.Attribute) else getattr(func, 'id', '?')
        return f'{name}()'
    if isinstance(arg, ast.Constant):
        return 'const'
    if isinstance(arg, ast.Name):
        return arg.id
    if isinstance(arg, ast.Attribute):
        return ast.unparse(arg)
    return type(arg).__name__


class Scanner(ast.NodeVisitor):
    def __init__(self, rel):
        self.rel = rel
        self.stack = []
        self.opens = []
        self.fetches = []
        self.handlers = []

    def scope(self):
        return '.'.join(self.stack) or '<module>'

    def visit_FunctionDef(self, node):
        self.stack.append(node.name)
        self.generic_visit(node)
        self.stack.pop()

    visit_AsyncFunctionDef = visit_FunctionDef
    visit_ClassDef = visit_FunctionDef

    def visit_Try(self, node):
        if self.rel in LOADER_FILES:
            clauses = ' | '.join('bare' if handler.type is None else ast.unparse(handler.type) for handler in node.handlers)
            self.handlers.append((self.rel, self.scope(), clauses + (' +finally' if node.finalbody else '')))
        self.generic_visit(node)

    visit_TryStar = visit_Try

    def visit_Call(self, node):
        func = node.func
        if isinstance(func, ast.Name):
            if func.id in OPEN_NAMES:
                self.opens.append((self.rel, self.scope(), func.id, arg_shape(node)))
            if func.id in ('fetch', 'url_fetcher', 'default_url_fetcher'):
                self.fetches.append((self.rel, self.scope(), func.id))
        elif isinstance(func, ast.Attribute):
            receiver = ast.unparse(func.value)
            if func.attr in OPEN_ATTRS:
                self.opens.append((self.rel, self.scope(), f'{receiver}.{func.attr}'[:60], arg_shape(node)))
            if func.attr in ('fetch', 'url_fetcher', 'default_url_fetcher', 'fetch_url'):
                self.fetches.append((self.rel, self.scope(), f'{receiver}.{func.attr}'[:60]))
        self.generic_visit(node)


def scan():
    root = REPO / 'weasyprint'
    if not root.is_dir():
        raise ExtractionError(f'{root} not found')
    opens, fetches, handlers, digest = [], [], [], hashlib.sha256()
    for path in sorted(root.rglob('*.py')):
        rel = str(path.relative_to(root))
        source = path.read_text(encoding='utf-8')
        try:
            tree = ast.parse(source, filename=str(path))
        except SyntaxError as exc:
            raise ExtractionError(f'{rel}: {exc}')
        scanner = Scanner(rel)
        scanner.visit(tree)
        opens.extend(scanner.opens)
        fetches.extend(scanner.fetches)
        handlers.extend(scanner.handlers)
    for entry in opens + fetches + handlers:
        digest.update(repr(entry).encode())
    return opens, fetches, handlers, digest.hexdigest()[:16]


def generate():
    opens, fetches, handlers, sha = scan()
    text = f'''/- GENERATED by py/extract/fetch_sites.py from an AST scan of weasyprint/**/*.py (entries sha {sha}). Do not edit. -/
namespace Wp.Gen

/-- Call sites that can open a file, URL or socket: (file, enclosing scope, callee, first-argument shape). -/
def openSites : List (String × String × String × String) := {lean_list(
        ['(' + ', '.join(lean_str(x) for x in e) + ')' for e in opens])}

/-- Call sites of `fetch(…)` and direct calls of an `url_fetcher`: (file, enclosing scope, callee). -/
def fetchSites : List (String × String × String) := {lean_list(
        ['(' + ', '.join(lean_str(x) for x in e) + ')' for e in fetches])}

/-- `try` statements of the resource-loading modules with the classes their `except` clauses name:
(file, enclosing scope, handlers). -/
def handlerSites : List (String × String × String) := {lean_list(
        ['(' + ', '.join(lean_str(x) for x in e) + ')' for e in handlers])}

end Wp.Gen
'''
    changed = write_if_changed('FetchSites', text)
    return {'name': 'FetchSites', 'changed': changed, 'source': 'ast', 'sha256_of_source_span': sha,
            'entries': len(opens) + len(fetches) + len(handlers)}
