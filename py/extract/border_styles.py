"""Gen/BorderStyles.lean from weasyprint/layout/table.py `collapse_table_borders`.

AST translator: the style list given to `reversed(...)`, the shape of `style_scores`, `style_map`,
the two null borders and the `hidden` test of the score.
Graph translator: the real function on a 1x1 table whose cell has each of the ten styles
(score triple and stored style of the winning edge).
"""
import ast

from .common import ExtractionError, find_function, lean_list, parse, span_sha, write_if_changed

REL = 'weasyprint/layout/table.py'
CSS = ['none', 'hidden', 'dotted', 'dashed', 'solid', 'double', 'groove', 'ridge', 'inset', 'outset']


def bs(value):
    if value not in CSS:
        raise ExtractionError(f'{value!r} is not one of the ten border styles')
    return '.' + value


def _assign(func, name):
    found = [n for n in ast.walk(func) if isinstance(n, ast.Assign) and len(n.targets) == 1 and
             isinstance(n.targets[0], ast.Name) and n.targets[0].id == name]
    if len(found) != 1:
        raise ExtractionError(f'expected exactly one assignment to {name}')
    return found[0].value


def _strs(node):
    if not isinstance(node, (ast.List, ast.Tuple)):
        raise ExtractionError('expected a list literal of styles')
    out = []
    for elt in node.elts:
        if not (isinstance(elt, ast.Constant) and isinstance(elt.value, str)):
            raise ExtractionError('expected string constants in the style list')
        out.append(elt.value)
    return out


def _null_border(node, name):
    """((h, w, style_scores['x']), ('x', w, TRANSPARENT)) -> (h, w, 'x')."""
    try:
        score, stored = node.elts
        h, w, rank = score.elts
        style, w2, color = stored.elts
        ok = (isinstance(h, ast.Constant) and isinstance(w, ast.Constant) and
              isinstance(rank, ast.Subscript) and rank.value.id == 'style_scores' and
              isinstance(rank.slice, ast.Constant) and isinstance(style, ast.Constant) and
              style.value == rank.slice.value and w2.value == w.value and color.id == 'TRANSPARENT')
    except (AttributeError, ValueError):
        ok = False
    if not ok:
        raise ExtractionError(f'{name}: unexpected shape')
    return int(h.value), int(w.value), style.value


def ast_tables():
    tree = parse(REL)
    func = find_function(tree, 'collapse_table_borders')
    styles = _assign(func, 'styles')
    if not (isinstance(styles, ast.Call) and isinstance(styles.func, ast.Name) and
            styles.func.id == 'reversed' and len(styles.args) == 1):
        raise ExtractionError('styles is not reversed([...])')
    order = _strs(styles.args[0])
    scores = _assign(func, 'style_scores')
    expected = "{style: score for score, style in enumerate(styles)}"
    if ast.unparse(scores).replace(' ', '') != expected.replace(' ', ''):
        raise ExtractionError('style_scores is not {style: score for score, style in enumerate(styles)}')
    smap = _assign(func, 'style_map')
    if not isinstance(smap, ast.Dict):
        raise ExtractionError('style_map is not a dict literal')
    mapping = []
    for k, v in zip(smap.keys, smap.values):
        if not (isinstance(k, ast.Constant) and isinstance(v, ast.Constant)):
            raise ExtractionError('style_map entries are not constants')
        mapping.append((k.value, v.value))
    weak = _null_border(_assign(func, 'weak_null_border'), 'weak_null_border')
    strong = _null_border(_assign(func, 'strong_null_border'), 'strong_null_border')
    inner = find_function(ast.Module(body=[n for n in ast.walk(func) if isinstance(n, ast.FunctionDef)],
                                     type_ignores=[]), 'set_one_border')
    score = _assign(inner, 'score')
    expected = "((1 if style == 'hidden' else 0), width, style_scores[style])"
    if ast.unparse(score).replace(' ', '') != ast.unparse(ast.parse(expected).body[0].value).replace(' ', ''):
        raise ExtractionError('score is not ((1 if style == "hidden" else 0), width, style_scores[style])')
    # the comparison must be the strict `previous_score < score`
    tests = [n.test for n in ast.walk(inner) if isinstance(n, ast.If)]
    if [ast.unparse(t) for t in tests] != ['previous_score < score']:
        raise ExtractionError('set_one_border does not test exactly `previous_score < score`')
    return order, mapping, weak, strong, span_sha(REL, func)


def graph():
    """(style, hidden flag, rank, stored style) from the real function on a 1x1 table."""
    from weasyprint.formatting_structure import boxes
    from weasyprint.layout.table import collapse_table_borders
    out = []
    for name in CSS:
        def style(s, w):
            d = {'direction': 'ltr', 'color': 9}
            for side in ('top', 'right', 'bottom', 'left'):
                d[f'border_{side}_style'] = s
                d[f'border_{side}_width'] = w
                d[f'border_{side}_color'] = 1
            return d
        cell = boxes.TableCellBox('td', style(name, 1), None, [])
        cell.grid_x, cell.colspan, cell.rowspan = 0, 1, 1
        row = boxes.TableRowBox('tr', style('none', 0), None, [cell])
        group = boxes.TableRowGroupBox('tbody', style('none', 0), None, [row])
        table = boxes.TableBox('table', style('none', 0), None, [group])
        table.column_groups = ()
        _, horizontal = collapse_table_borders(table, 1, 1)
        (hidden, width, rank), (stored, _, _) = horizontal[0][0]
        if width != 1:
            raise ExtractionError('graph probe: unexpected winning width')
        out.append((name, int(hidden), int(rank), stored))
    return out


def generate():
    order, mapping, weak, strong, sha = ast_tables()
    rows = graph()
    text = f'''/- GENERATED by py/extract/border_styles.py from {REL} (span sha {sha}). Do not edit. -/
import WpModel.Model.BorderTypes
namespace Wp.Gen.BorderStyles
open Wp

/-- The list literal given to `reversed(...)` in `collapse_table_borders`, in source order (AST). -/
def styleOrder : List BStyle := {lean_list([bs(s) for s in order])}

/-- `style_map` (AST). -/
def styleMap : List (BStyle × BStyle) := {lean_list([f'({bs(a)}, {bs(b)})' for a, b in mapping])}

/-- `weak_null_border` / `strong_null_border`: (hidden flag, width, style) (AST). -/
def weakNull : Nat × Nat × BStyle := ({weak[0]}, {weak[1]}, {bs(weak[2])})
def strongNull : Nat × Nat × BStyle := ({strong[0]}, {strong[1]}, {bs(strong[2])})

/-- Graph of the real function on a 1×1 table whose cell has the style with width 1:
    (style, hidden flag of the score, style rank of the score, stored style). -/
def scoreGraph : List (BStyle × Nat × Nat × BStyle) := {lean_list([f'({bs(a)}, {h}, {r}, {bs(b)})' for a, h, r, b in rows])}

end Wp.Gen.BorderStyles
'''
    changed = write_if_changed('BorderStyles', text)
    return {'name': 'Gen/BorderStyles.lean', 'sha256_of_source_span': sha,
            'entries': len(order) + len(mapping) + 2 + len(rows), 'changed': changed}
