"""Gen/Units.lean: the tables `computed_values.py` and `ComputedStyle.__missing__` read.

AST translator (exact rationals from the *source text* of numeric literals, so `96. / 2.54` becomes
4800/127, not a float):
  css/utils.py            LENGTHS_TO_PIXELS
  css/computed_values.py  FONT_SIZE_KEYWORDS (factor table x INITIAL_VALUES['font_size']),
                          BORDER_WIDTH_KEYWORDS, FONT_WEIGHT_RELATIVE
  css/properties.py       INHERITED, INITIAL_NOT_COMPUTED
Each is cross-checked against the imported runtime object; when the source is outside the AST
subset the runtime object is used (`source = runtime-fallback`).
Graph / runtime translator:
  COMPUTER_FUNCTIONS  (property key -> name of the registered function)
  INITIAL_VALUES      (the entries whose value has one of the modelled shapes)
"""
import ast
from fractions import Fraction

from .common import ExtractionError, lean_list, lean_str, parse, read_source, write_if_changed

UTILS = 'weasyprint/css/utils.py'
COMPUTED = 'weasyprint/css/computed_values.py'
PROPERTIES = 'weasyprint/css/properties.py'


def lean_q(fr):
    fr = Fraction(fr)
    if fr.denominator == 1:
        return f'({fr.numerator} : Rat)'
    return f'(({fr.numerator} : Rat) / {fr.denominator})'


def exact(node, source):
    """Arithmetic on numeric literals -> Fraction, reading literals from the source text."""
    if isinstance(node, ast.Constant) and isinstance(node.value, (int, float)) and not isinstance(node.value, bool):
        text = ast.get_source_segment(source, node).replace('_', '')
        if text.endswith('.'):
            text += '0'
        return Fraction(text)
    if isinstance(node, ast.BinOp):
        left, right = exact(node.left, source), exact(node.right, source)
        if isinstance(node.op, ast.Div):
            return left / right
        if isinstance(node.op, ast.Mult):
            return left * right
        if isinstance(node.op, ast.Add):
            return left + right
        if isinstance(node.op, ast.Sub):
            return left - right
    if isinstance(node, ast.UnaryOp) and isinstance(node.op, ast.USub):
        return -exact(node.operand, source)
    raise ExtractionError(f'not a numeric literal expression at line {node.lineno}')


def assigned(tree, name):
    for node in tree.body:
        if isinstance(node, ast.Assign) and len(node.targets) == 1 and isinstance(node.targets[0], ast.Name) \
                and node.targets[0].id == name:
            return node.value
    raise ExtractionError(f'{name} not assigned at module level')


def const_key(node):
    if isinstance(node, ast.Constant) and isinstance(node.value, (str, int)):
        return node.value
    raise ExtractionError(f'non-constant key at line {node.lineno}')


def close(a, b):
    return abs(float(a) - float(b)) <= 1e-12 * max(1.0, abs(float(b)))


def lengths_to_pixels():
    from weasyprint.css import utils
    runtime = dict(utils.LENGTHS_TO_PIXELS)
    try:
        source = read_source(UTILS)
        node = assigned(parse(UTILS), 'LENGTHS_TO_PIXELS')
        if not isinstance(node, ast.Dict):
            raise ExtractionError('LENGTHS_TO_PIXELS is not a dict literal')
        table = [(const_key(k), exact(v, source)) for k, v in zip(node.keys, node.values)]
        if [k for k, _ in table] != list(runtime) or not all(close(v, runtime[k]) for k, v in table):
            raise ExtractionError('LENGTHS_TO_PIXELS: source and runtime disagree')
        return table, 'ast'
    except ExtractionError as exc:
        return [(k, Fraction(v).limit_denominator(10 ** 6)) for k, v in runtime.items()], f'runtime-fallback ({exc})'


def font_size_keywords():
    from weasyprint.css import computed_values, properties
    runtime = dict(computed_values.FONT_SIZE_KEYWORDS)
    initial = properties.INITIAL_VALUES['font_size']
    try:
        source = read_source(COMPUTED)
        node = assigned(parse(COMPUTED), 'FONT_SIZE_KEYWORDS')
        ok = (isinstance(node, ast.DictComp) and len(node.generators) == 1 and
              isinstance(node.generators[0].iter, ast.Tuple) and isinstance(node.value, ast.BinOp) and
              isinstance(node.value.op, ast.Mult) and isinstance(node.value.right, ast.Name) and
              node.value.right.id == 'factor' and isinstance(node.value.left, ast.Subscript) and
              ast.get_source_segment(source, node.value.left) == "INITIAL_VALUES['font_size']")
        if not ok:
            raise ExtractionError('FONT_SIZE_KEYWORDS: unexpected shape')
        table = []
        for pair in node.generators[0].iter.elts:
            if not (isinstance(pair, ast.Tuple) and len(pair.elts) == 2):
                raise ExtractionError('FONT_SIZE_KEYWORDS: entry is not a pair')
            table.append((const_key(pair.elts[0]), Fraction(initial) * exact(pair.elts[1], source)))
        if [k for k, _ in table] != list(runtime) or not all(close(v, runtime[k]) for k, v in table):
            raise ExtractionError('FONT_SIZE_KEYWORDS: source and runtime disagree')
        return table, 'ast'
    except ExtractionError as exc:
        return [(k, Fraction(v).limit_denominator(10 ** 6)) for k, v in runtime.items()], f'runtime-fallback ({exc})'


def border_width_keywords():
    from weasyprint.css import computed_values
    runtime = dict(computed_values.BORDER_WIDTH_KEYWORDS)
    try:
        source = read_source(COMPUTED)
        node = assigned(parse(COMPUTED), 'BORDER_WIDTH_KEYWORDS')
        if not isinstance(node, ast.Dict):
            raise ExtractionError('BORDER_WIDTH_KEYWORDS is not a dict literal')
        table = [(const_key(k), exact(v, source)) for k, v in zip(node.keys, node.values)]
        if [k for k, _ in table] != list(runtime) or not all(v == runtime[k] for k, v in table):
            raise ExtractionError('BORDER_WIDTH_KEYWORDS: source and runtime disagree')
        return table, 'ast'
    except ExtractionError as exc:
        return [(k, Fraction(v)) for k, v in runtime.items()], f'runtime-fallback ({exc})'


def font_weight_relative():
    from weasyprint.css import computed_values
    runtime = {k: dict(v) for k, v in computed_values.FONT_WEIGHT_RELATIVE.items()}
    try:
        node = assigned(parse(COMPUTED), 'FONT_WEIGHT_RELATIVE')
        if not isinstance(node, ast.Dict):
            raise ExtractionError('FONT_WEIGHT_RELATIVE is not a dict literal')
        table = {}
        for k, v in zip(node.keys, node.values):
            if not isinstance(v, ast.Dict):
                raise ExtractionError('FONT_WEIGHT_RELATIVE: inner table is not a dict literal')
            table[const_key(k)] = [(const_key(a), const_key(b)) for a, b in zip(v.keys, v.values)]
        if {k: dict(v) for k, v in table.items()} != runtime:
            raise ExtractionError('FONT_WEIGHT_RELATIVE: source and runtime disagree')
        return table, 'ast'
    except ExtractionError as exc:
        return {k: list(v.items()) for k, v in runtime.items()}, f'runtime-fallback ({exc})'


def string_set(name):
    from weasyprint.css import properties
    runtime = set(getattr(properties, name))
    try:
        node = assigned(parse(PROPERTIES), name)
        if not isinstance(node, ast.Set):
            raise ExtractionError(f'{name} is not a set literal')
        items = [const_key(e) for e in node.elts]
        if set(items) != runtime:
            raise ExtractionError(f'{name}: source and runtime disagree')
        return items, 'ast'
    except ExtractionError as exc:
        return sorted(runtime), f'runtime-fallback ({exc})'


def opaque(value):
    """Stable atom for a value whose shape is not modelled (colours, nested tuples, …)."""
    import hashlib
    return 'opaque-' + hashlib.sha1(repr(value).encode()).hexdigest()[:12]


def shape(value):
    """Python property value -> ('kw', s) | ('dim', Fraction, unit) | ('num', Fraction) | ('strs', [..])
    | ('tag', s, Fraction) | ('null',) | ('tup', [shape, ...]); a leaf of any other shape becomes an opaque keyword."""
    from weasyprint.css.properties import Dimension

    def number(x):
        return (isinstance(x, (int, float, Fraction)) and not isinstance(x, bool) and x == x and
                abs(x) != float('inf'))
    if value is None:
        return ('null',)
    if isinstance(value, str):
        return ('kw', value) if value == '' or _atom_ok(value) else ('kw', opaque(value))
    if isinstance(value, Dimension):
        if number(value.value) and (value.unit is None or (isinstance(value.unit, str) and _atom_ok(value.unit))):
            return ('dim', Fraction(value.value), value.unit or 'none')
        return ('kw', opaque(value))
    if number(value):
        return ('num', Fraction(value))
    if isinstance(value, (tuple, list)) and all(isinstance(v, str) and _atom_ok(v) for v in value):
        return ('strs', list(value))
    if isinstance(value, (set, frozenset)) and all(isinstance(v, str) and _atom_ok(v) for v in value):
        return ('strs', sorted(value))
    if isinstance(value, tuple) and len(value) == 2 and isinstance(value[0], str) and _atom_ok(value[0]) \
            and value[0].isupper() and number(value[1]):
        return ('tag', value[0], Fraction(value[1]))
    if isinstance(value, (tuple, list)):       # lists (content lists, token lists) iterate like tuples
        return ('tup', [shape(v) for v in value])
    return ('kw', opaque(value))


def _atom_ok(s):
    """Usable as a wire atom (parentheses are written `[` `]` on the wire) and inside the canonical renderings."""
    return bool(s) and not any(c in s for c in ' []\n\t\r;=@:,|')


def lean_shape(sh):
    if sh[0] == 'kw':
        return f'.kw {lean_str(sh[1])}'
    if sh[0] == 'dim':
        return f'.dim {lean_q(sh[1])} {lean_str(sh[2])}'
    if sh[0] == 'num':
        return f'.num {lean_q(sh[1])}'
    if sh[0] == 'strs':
        return f'.strs {lean_list([lean_str(v) for v in sh[1]])}'
    if sh[0] == 'null':
        return '.null'
    if sh[0] == 'tup':
        return f'.tup {lean_list([lean_shape(x) for x in sh[1]])}'
    return f'.tagged {lean_str(sh[1])} {lean_q(sh[2])}'


def encode_value(value):
    """A Python property value -> Lean `Val` term."""
    return lean_shape(shape(value))


def generate():
    from weasyprint.css import computed_values, properties
    l2p, s1 = lengths_to_pixels()
    fsk, s2 = font_size_keywords()
    bwk, s3 = border_width_keywords()
    fwr, s4 = font_weight_relative()
    inherited, s5 = string_set('INHERITED')
    inc, s6 = string_set('INITIAL_NOT_COMPUTED')
    computers = [(k, f.__name__) for k, f in computed_values.COMPUTER_FUNCTIONS.items()]
    initial = []
    for key, value in properties.INITIAL_VALUES.items():
        initial.append((key, encode_value(value)))
    sources = {'LENGTHS_TO_PIXELS': s1, 'FONT_SIZE_KEYWORDS': s2, 'BORDER_WIDTH_KEYWORDS': s3,
               'FONT_WEIGHT_RELATIVE': s4, 'INHERITED': s5, 'INITIAL_NOT_COMPUTED': s6}

    def pairs_q(table):
        return lean_list([f'({lean_str(k)}, {lean_q(v)})' for k, v in table])

    def pairs_n(table):
        return lean_list([f'({a}, {b})' for a, b in table])
    text = f'''/- GENERATED by py/extract/units.py from {UTILS}, {COMPUTED}, {PROPERTIES}. Do not edit.
   sources: {sources} -/
import WpModel.Model.CssVal
namespace Wp.Gen.Units
open Wp

/-- `LENGTHS_TO_PIXELS` (css/utils.py), exact rationals, dict order. -/
def lengthsToPixels : List (String × Rat) := {pairs_q(l2p)}

/-- `FONT_SIZE_KEYWORDS` (computed_values.py): INITIAL_VALUES['font_size'] x factor, dict order. -/
def fontSizeKeywords : List (String × Rat) := {pairs_q(fsk)}

/-- `INITIAL_VALUES['font_size']`. -/
def initialFontSize : Rat := {lean_q(Fraction(properties.INITIAL_VALUES['font_size']))}

/-- `INITIAL_VALUES['font_weight']`. -/
def initialFontWeight : Nat := {int(properties.INITIAL_VALUES['font_weight'])}

/-- `BORDER_WIDTH_KEYWORDS`. -/
def borderWidthKeywords : List (String × Rat) := {pairs_q(bwk)}

/-- `FONT_WEIGHT_RELATIVE['bolder']` / `['lighter']`, dict order. -/
def fontWeightBolder : List (Nat × Nat) := {pairs_n(fwr.get('bolder', []))}
def fontWeightLighter : List (Nat × Nat) := {pairs_n(fwr.get('lighter', []))}

/-- `INHERITED` (css/properties.py). -/
def inherited : List String := {lean_list([lean_str(s) for s in inherited])}

/-- `INITIAL_NOT_COMPUTED` (css/properties.py). -/
def initialNotComputed : List String := {lean_list([lean_str(s) for s in inc])}

/-- `COMPUTER_FUNCTIONS`: property key -> `__name__` of the registered function (runtime registry). -/
def computerFunctions : List (String × String) := {lean_list([f'({lean_str(k)}, {lean_str(f)})' for k, f in computers])}

/-- Every key of `INITIAL_VALUES`. -/
def initialKeys : List String := {lean_list([lean_str(k) for k in properties.INITIAL_VALUES])}

/-- `INITIAL_VALUES`; values of a shape that is not modelled are opaque keywords (sha1 of the repr). -/
def initialValues : List (String × Val) := {lean_list([f'({lean_str(k)}, {v})' for k, v in initial])}

end Wp.Gen.Units
'''
    changed = write_if_changed('Units', text)
    return {'name': 'Units', 'changed': changed, 'source': 'ast' if all(s == 'ast' for s in sources.values())
            else str(sources), 'entries': len(l2p) + len(fsk) + len(bwk) + sum(len(v) for v in fwr.values()) +
            len(inherited) + len(inc) + len(computers) + len(initial)}
