"""Gen/LineBreakTables.lean from weasyprint/text/line_break.py, layout/inline.py and the validators.

AST translator only (the tabulated things are literal tuples / numeric literals inside larger
functions, there is no finite pure function to call):

* `split_first_line`: the `white-space` membership tuples of `text_wrap` and `space_collapse`, the
  heuristic `ratio`, the keywords of the step-5 `can_break` expression;
* `create_layout`: its own `text_wrap` tuple and the `2 ** 21` Pango width limit;
* `Layout.set_text`: the `index+2` truncation after the first newline, the `overflow_wrap` tuple that
  disables Pango's automatic hyphens;
* `inline.py`: the collapsible `white-space` tuples of `skip_first_whitespace`,
  `remove_last_whitespace`, `text_align`; the `1 + 1e-9` fudge of `split_inline_box`; the preserved
  line-break characters of `split_text_box`; the `('left', 'right')` test of `text_align`; the wrapping
  `white-space` tuple of `can_break_inside`; the `('pre', 'nowrap')` tuple of `split_inline_box` (no break
  opportunity between two children);
* `layout/preferred.py`: the `space_collapse` / `text_wrap` tuples of `inline_line_widths`;
* `validation/properties.py`: accepted keywords of `white-space`, `overflow-wrap`, `word-break`,
  `text-align-all`, `text-align-last`.
"""
import ast
from fractions import Fraction

from .common import (
    ExtractionError, const_str_tuple, find_function, lean_list, lean_rat, lean_str, parse, read_source,
    span_sha, write_if_changed)

LB = 'weasyprint/text/line_break.py'
INL = 'weasyprint/layout/inline.py'
PREF = 'weasyprint/layout/preferred.py'
VAL = 'weasyprint/css/validation/properties.py'


def _style_key(node):
    """`style['k']` / `self.style['k']` / `box.style['k']` / `line.style['k']` -> 'k'."""
    if isinstance(node, ast.Subscript) and isinstance(node.slice, ast.Constant):
        value = node.value
        if (isinstance(value, ast.Name) and value.id == 'style') or (
                isinstance(value, ast.Attribute) and value.attr == 'style'):
            return node.slice.value
    return None


def membership_tuples(func, key):
    """All literal tuples T of `style[key] in T` (or `<name bound to style[key]> in T`) in func, in order."""
    aliases = set()
    for node in ast.walk(func):
        if isinstance(node, ast.Assign) and _style_key(node.value) == key:
            for target in node.targets:
                if isinstance(target, ast.Name):
                    aliases.add(target.id)
    out = []
    for node in ast.walk(func):
        if isinstance(node, ast.Compare) and len(node.ops) == 1 and isinstance(node.ops[0], ast.In):
            left = node.left
            if _style_key(left) == key or (isinstance(left, ast.Name) and left.id in aliases):
                out.append((node.lineno, const_str_tuple(node.comparators[0])))
    out.sort()
    return [t for _, t in out]


def assigned_tuple(func, name, key):
    """The tuple of `name = style[key] in (...)`."""
    found = []
    for node in ast.walk(func):
        if (isinstance(node, ast.Assign) and len(node.targets) == 1 and isinstance(node.targets[0], ast.Name)
                and node.targets[0].id == name):
            value = node.value
            if (isinstance(value, ast.Compare) and len(value.ops) == 1 and isinstance(value.ops[0], ast.In)
                    and _style_key(value.left) == key):
                found.append(const_str_tuple(value.comparators[0]))
    if len(found) != 1:
        raise ExtractionError(f'{func.name}: expected exactly one `{name} = style[{key!r}] in (...)`, got {len(found)}')
    return found[0]


def int_assign(func, name):
    found = [n.value.value for n in ast.walk(func)
             if isinstance(n, ast.Assign) and len(n.targets) == 1 and isinstance(n.targets[0], ast.Name)
             and n.targets[0].id == name and isinstance(n.value, ast.Constant) and isinstance(n.value.value, int)]
    if len(found) != 1:
        raise ExtractionError(f'{func.name}: expected one integer assignment to {name}')
    return found[0]


def validator_keywords(tree, name):
    func = find_function(tree, name)
    for node in ast.walk(func):
        if isinstance(node, ast.Compare) and len(node.ops) == 1 and isinstance(node.ops[0], ast.In):
            if isinstance(node.left, ast.Name) and node.left.id == 'keyword':
                return const_str_tuple(node.comparators[0])
    raise ExtractionError(f'validator {name}: no `keyword in (...)`')


def tables():
    lb = parse(LB)
    sfl = find_function(lb, 'split_first_line')
    out = {}
    out['textWrapValues'] = assigned_tuple(sfl, 'text_wrap', 'white_space')
    out['spaceCollapseValues'] = assigned_tuple(sfl, 'space_collapse', 'white_space')
    out['ratio'] = int_assign(sfl, 'ratio')
    # step 5: word_break == 'break-all' or (is_line_start and (overflow_wrap == 'anywhere' or (… == 'break-word' and not minimum)))
    can_break = [n for n in ast.walk(sfl) if isinstance(n, ast.Assign) and isinstance(n.targets[0], ast.Name)
                 and n.targets[0].id == 'can_break']
    if len(can_break) != 1:
        raise ExtractionError('split_first_line: expected one assignment to can_break')
    consts = [c.value for n in ast.walk(can_break[0].value) if isinstance(n, ast.Compare)
              for c in n.comparators if isinstance(c, ast.Constant) and isinstance(c.value, str)]
    names = [n.id for n in ast.walk(can_break[0].value) if isinstance(n, ast.Name)]
    out['canBreakKeywords'] = consts
    if sorted(set(names)) != ['is_line_start', 'minimum', 'overflow_wrap', 'style'] and \
            sorted(set(names)) != ['is_line_start', 'minimum', 'overflow_wrap']:
        raise ExtractionError(f'split_first_line: can_break reads {sorted(set(names))}')
    out['canBreakShape'] = ast.dump(can_break[0].value)

    cl = find_function(lb, 'create_layout')
    out['createLayoutWrapValues'] = assigned_tuple(cl, 'text_wrap', 'white_space')
    pows = [n for n in ast.walk(cl) if isinstance(n, ast.BinOp) and isinstance(n.op, ast.Pow)
            and isinstance(n.left, ast.Constant) and n.left.value == 2 and isinstance(n.right, ast.Constant)]
    if len(pows) != 1:
        raise ExtractionError('create_layout: expected one `2 ** k`')
    out['maxWidthLog2'] = pows[0].right.value

    st = find_function(lb, 'set_text', cls='Layout')
    out['wordBreakingValues'] = assigned_tuple(st, 'word_breaking', 'overflow_wrap')
    keep = [n for n in ast.walk(st) if isinstance(n, ast.Slice) and isinstance(n.upper, ast.BinOp)
            and isinstance(n.upper.op, ast.Add) and isinstance(n.upper.left, ast.Name) and n.upper.left.id == 'index'
            and isinstance(n.upper.right, ast.Constant)]
    if len(keep) != 1:
        raise ExtractionError('Layout.set_text: expected one `text[:index+k]`')
    out['newlineKeep'] = keep[0].upper.right.value

    inl = parse(INL)
    for fname, lean in (('skip_first_whitespace', 'skipFirstWsValues'),
                        ('remove_last_whitespace', 'removeLastWsValues'),
                        ('text_align', 'textAlignCollapseValues')):
        tuples = membership_tuples(find_function(inl, fname), 'white_space')
        if len(tuples) != 1:
            raise ExtractionError(f'{fname}: expected one white_space membership test, got {len(tuples)}')
        out[lean] = tuples[0]
    ta = find_function(inl, 'text_align')
    lr = [const_str_tuple(n.comparators[0]) for n in ast.walk(ta)
          if isinstance(n, ast.Compare) and isinstance(n.ops[0], ast.In) and isinstance(n.left, ast.Name)
          and n.left.id == 'align']
    if len(lr) != 1:
        raise ExtractionError('text_align: expected one `align in (...)`')
    out['physicalAlignValues'] = lr[0]
    cbi = find_function(inl, 'can_break_inside')
    out['canBreakInsideWrapValues'] = assigned_tuple(cbi, 'text_wrap', 'white_space')
    sib = find_function(inl, 'split_inline_box')
    tuples = membership_tuples(sib, 'white_space')
    if len(tuples) != 1:
        raise ExtractionError(f'split_inline_box: expected one white_space membership test, got {len(tuples)}')
    out['inlineNoBreakValues'] = tuples[0]
    ilw = find_function(parse(PREF), 'inline_line_widths')
    out['preferredCollapseValues'] = assigned_tuple(ilw, 'space_collapse', 'white_space')
    out['preferredWrapValues'] = assigned_tuple(ilw, 'text_wrap', 'white_space')
    src = read_source(INL)
    fudges = [n for n in ast.walk(sib) if isinstance(n, ast.AugAssign) and isinstance(n.op, ast.Mult)
              and isinstance(n.target, ast.Name) and n.target.id == 'max_x']
    if len(fudges) != 1 or not (isinstance(fudges[0].value, ast.BinOp) and isinstance(fudges[0].value.op, ast.Add)):
        raise ExtractionError('split_inline_box: expected one `max_x *= a + b`')
    try:
        left = Fraction(ast.get_source_segment(src, fudges[0].value.left))
        right = Fraction(ast.get_source_segment(src, fudges[0].value.right))
    except (ValueError, TypeError) as exc:
        raise ExtractionError(f'split_inline_box: fudge is not a sum of numeric literals ({exc})')
    out['fudge'] = left + right
    stb = find_function(inl, 'split_text_box')
    lbs = [n for n in ast.walk(stb) if isinstance(n, ast.Assign) and isinstance(n.targets[0], ast.Name)
           and n.targets[0].id == 'line_breaks']
    if len(lbs) != 1:
        raise ExtractionError('split_text_box: expected one `line_breaks = (...)`')
    out['lineBreakChars'] = [ord(c) for c in const_str_tuple(lbs[0].value)]

    val = parse(VAL)
    for fname, lean in (('white_space', 'whiteSpaceKeywords'), ('overflow_wrap', 'overflowWrapKeywords'),
                        ('word_break', 'wordBreakKeywords'), ('text_align_all', 'textAlignAllKeywords'),
                        ('text_align_last', 'textAlignLastKeywords')):
        out[lean] = validator_keywords(val, fname)
    out['sha'] = {
        'split_first_line': span_sha(LB, sfl), 'create_layout': span_sha(LB, cl),
        'text_align': span_sha(INL, ta), 'split_text_box': span_sha(INL, stb),
        'can_break_inside': span_sha(INL, cbi), 'inline_line_widths': span_sha(PREF, ilw)}
    return out


def render(t):
    def strs(key):
        return f'def {key} : List String := {lean_list([lean_str(s) for s in t[key]])}'
    lines = [
        '/- GENERATED by py/extract/line_break_tables.py from weasyprint/text/line_break.py, layout/inline.py,',
        '   css/validation/properties.py.  Do not edit: regenerated (and rebuilt when changed) by every check. -/',
        'namespace Wp.Gen.LineBreak',
        '',
        '/-- `split_first_line`: `text_wrap = style[\'white_space\'] in …` -/',
        strs('textWrapValues'),
        '/-- `split_first_line`: `space_collapse = style[\'white_space\'] in …` -/',
        strs('spaceCollapseValues'),
        '/-- `create_layout`: its own `text_wrap` tuple (a Pango width is set only for these) -/',
        strs('createLayoutWrapValues'),
        '/-- `Layout.set_text`: `overflow_wrap` values that switch Pango\'s automatic hyphens off -/',
        strs('wordBreakingValues'),
        '/-- string constants of the step-5 `can_break` expression, in source order -/',
        strs('canBreakKeywords'),
        '/-- `skip_first_whitespace` / `remove_last_whitespace` / `text_align`: collapsible `white-space` values -/',
        strs('skipFirstWsValues'),
        strs('removeLastWsValues'),
        strs('textAlignCollapseValues'),
        '/-- `can_break_inside`: `text_wrap = box.style[\'white_space\'] in …` -/',
        strs('canBreakInsideWrapValues'),
        '/-- `split_inline_box`: no break opportunity between two children under these `white-space` values -/',
        strs('inlineNoBreakValues'),
        '/-- `preferred.inline_line_widths`: its own `space_collapse` / `text_wrap` tuples -/',
        strs('preferredCollapseValues'),
        strs('preferredWrapValues'),
        '/-- `text_align`: the physical keywords mapped through `direction` -/',
        strs('physicalAlignValues'),
        '/-- validators: accepted keywords -/',
        strs('whiteSpaceKeywords'),
        strs('overflowWrapKeywords'),
        strs('wordBreakKeywords'),
        strs('textAlignAllKeywords'),
        strs('textAlignLastKeywords'),
        '/-- `ratio` of the prefix heuristic (step 1) -/',
        f'def ratio : Nat := {t["ratio"]}',
        '/-- `create_layout`: widths `≥ 2 ^ maxWidthLog2` are treated as unconstrained -/',
        f'def maxWidthLog2 : Nat := {t["maxWidthLog2"]}',
        '/-- `Layout.set_text`: the text is cut at `index_of_first_newline + newlineKeep` -/',
        f'def newlineKeep : Nat := {t["newlineKeep"]}',
        '/-- `split_inline_box`: `max_x *= fudge` -/',
        f'def fudge : Rat := {lean_rat(t["fudge"])}',
        '/-- `split_text_box`: code points accepted between two lines as a preserved line break -/',
        f'def lineBreakChars : List Nat := {lean_list([str(c) for c in t["lineBreakChars"]])}',
        '',
        'end Wp.Gen.LineBreak',
        '']
    return '\n'.join(lines)


def generate():
    t = tables()
    changed = write_if_changed('LineBreakTables', render(t))
    return {'table': 'Gen/LineBreakTables.lean', 'changed': changed, 'source_sha': t['sha'],
            'ratio': t['ratio'], 'fudge': str(t['fudge'])}
