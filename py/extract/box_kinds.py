"""Gen/BoxKinds.lean from weasyprint/formatting_structure/{build,boxes}.py, css/computed_values.py,
css/properties.py, css/validation/properties.py.

AST translator: `BOX_TYPE_FROM_DISPLAY`, the `white-space` membership tuples of `process_whitespace`
and `inline_in_block`, the three regular expressions, the `white-space` keywords of the validator,
`TABLE_WRAPPER_BOX_PROPERTIES`.
Graph translator: `issubclass` over (concrete class x class used in an isinstance test), the class
attributes of the anonymous-table rules, the imported `BOX_TYPE_FROM_DISPLAY`, and the complete
graphs of `computed_values.display` / `compute_float` over every value the validators produce.
"""
import ast
import itertools

from .common import (
    ExtractionError, const_str_tuple, find_function, lean_list, lean_str, parse, span_sha, write_if_changed)

BUILD = 'weasyprint/formatting_structure/build.py'
PROPERTIES = 'weasyprint/css/properties.py'
VALIDATION = 'weasyprint/css/validation/properties.py'

KINDS = [
    'BlockBox', 'LineBox', 'InlineBox', 'TextBox', 'InlineBlockBox', 'BlockReplacedBox', 'InlineReplacedBox',
    'TableBox', 'InlineTableBox', 'TableRowGroupBox', 'TableRowBox', 'TableColumnGroupBox', 'TableColumnBox',
    'TableCellBox', 'TableCaptionBox', 'FlexBox', 'InlineFlexBox', 'GridBox', 'InlineGridBox']
CLASSES = [
    'ParentBox', 'BlockLevelBox', 'BlockContainerBox', 'InlineLevelBox', 'AtomicInlineLevelBox', 'ReplacedBox',
    'FlexContainerBox', 'GridContainerBox', 'BlockBox', 'LineBox', 'InlineBox', 'TextBox', 'InlineBlockBox',
    'TableBox', 'InlineTableBox', 'TableRowGroupBox', 'TableRowBox', 'TableColumnGroupBox', 'TableColumnBox',
    'TableCellBox', 'TableCaptionBox']
WS = {'normal': '.normal', 'nowrap': '.nowrap', 'pre': '.pre', 'pre-wrap': '.preWrap', 'pre-line': '.preLine'}
FLOATS = ['none', 'left', 'right', 'footnote']
POSITIONS = ['static', 'relative', 'absolute', 'fixed', 'running']


def kind(name):
    if name not in KINDS:
        raise ExtractionError(f'box class {name!r} is not one of the modelled concrete classes')
    return '.' + name


def ws(value):
    try:
        return WS[value]
    except KeyError:
        raise ExtractionError(f'white-space value {value!r} is not modelled')


def lean_strs(items):
    return lean_list([lean_str(i) for i in items])


def ast_display_table():
    tree = parse(BUILD)
    for node in tree.body:
        if (isinstance(node, ast.Assign) and len(node.targets) == 1 and
                isinstance(node.targets[0], ast.Name) and node.targets[0].id == 'BOX_TYPE_FROM_DISPLAY'):
            if not isinstance(node.value, ast.Dict):
                raise ExtractionError('BOX_TYPE_FROM_DISPLAY is not a dict literal')
            table = []
            for key, value in zip(node.value.keys, node.value.values):
                names = const_str_tuple(key)
                if not (isinstance(value, ast.Attribute) and isinstance(value.value, ast.Name) and
                        value.value.id == 'boxes'):
                    raise ExtractionError(f'BOX_TYPE_FROM_DISPLAY value at line {value.lineno} is not boxes.X')
                table.append((names, value.attr))
            return table, span_sha(BUILD, node)
    raise ExtractionError('BOX_TYPE_FROM_DISPLAY not found')


def _ws_compare_tuples(func):
    """Every `<...>['white_space'] in (<tuple>)` inside `func`, in source order, with the assigned name."""
    found = []
    for node in ast.walk(func):
        if isinstance(node, ast.Compare) and len(node.ops) == 1 and isinstance(node.ops[0], ast.In):
            left = node.left
            if (isinstance(left, ast.Subscript) and isinstance(left.slice, ast.Constant) and
                    left.slice.value == 'white_space'):
                found.append((node.lineno, const_str_tuple(node.comparators[0])))
    return [t for _, t in sorted(found)]


def ast_whitespace():
    tree = parse(BUILD)
    func = find_function(tree, 'process_whitespace')
    names = {}
    for node in ast.walk(func):
        if (isinstance(node, ast.Assign) and len(node.targets) == 1 and isinstance(node.targets[0], ast.Name) and
                isinstance(node.value, ast.Compare) and isinstance(node.value.ops[0], ast.In)):
            left = node.value.left
            if (isinstance(left, ast.Subscript) and isinstance(left.slice, ast.Constant) and
                    left.slice.value == 'white_space'):
                names[node.targets[0].id] = const_str_tuple(node.value.comparators[0])
    if set(names) != {'new_line_collapse', 'space_collapse'}:
        raise ExtractionError(f'process_whitespace: expected new_line_collapse / space_collapse, got {sorted(names)}')
    iib = _ws_compare_tuples(find_function(tree, 'inline_in_block'))
    if len(iib) != 1:
        raise ExtractionError('inline_in_block: expected one white_space membership test')
    regexes = {}
    for node in tree.body:
        if (isinstance(node, ast.Assign) and isinstance(node.targets[0], ast.Name) and
                node.targets[0].id in ('LINE_FEED_RE', 'TAB_RE', 'SPACE_RE')):
            call = node.value
            if not (isinstance(call, ast.Call) and len(call.args) == 1 and isinstance(call.args[0], ast.Constant)
                    and isinstance(call.args[0].value, str) and not call.keywords):
                raise ExtractionError(f'{node.targets[0].id} is not re.compile(<literal>)')
            regexes[node.targets[0].id] = call.args[0].value
    if len(regexes) != 3:
        raise ExtractionError('the three white-space regular expressions were not found')
    vtree = parse(VALIDATION)
    vfunc = find_function(vtree, 'white_space')
    returns = [n for n in ast.walk(vfunc) if isinstance(n, ast.Return)]
    if not (len(returns) == 1 and isinstance(returns[0].value, ast.Compare) and
            isinstance(returns[0].value.ops[0], ast.In)):
        raise ExtractionError('validator white_space: unexpected shape')
    valid = const_str_tuple(returns[0].value.comparators[0])
    return {'new_line_collapse': names['new_line_collapse'], 'space_collapse': names['space_collapse'],
            'line_start': iib[0], 'regexes': regexes, 'valid': valid, 'sha': span_sha(BUILD, func)}


def ast_wrapper_properties():
    tree = parse(PROPERTIES)
    for node in tree.body:
        if (isinstance(node, ast.Assign) and isinstance(node.targets[0], ast.Name) and
                node.targets[0].id == 'TABLE_WRAPPER_BOX_PROPERTIES'):
            return const_str_tuple(node.value)
    raise ExtractionError('TABLE_WRAPPER_BOX_PROPERTIES not found')


def graph_classes():
    from weasyprint.formatting_structure import boxes, build
    sub = []
    for k in KINDS:
        for c in CLASSES:
            if issubclass(getattr(boxes, k), getattr(boxes, c)):
                sub.append((k, c))
    flags = {}
    for attr in ('proper_table_child', 'internal_table_or_caption', 'tabular_container'):
        flags[attr] = [k for k in KINDS if getattr(getattr(boxes, k), attr) is True]
    parents = {}
    for k in KINDS:
        tup = getattr(getattr(boxes, k), 'proper_parents', ())
        parents[k] = [cls.__name__ for cls in tup]
    table = []
    for key, cls in build.BOX_TYPE_FROM_DISPLAY.items():
        table.append((list(key), cls.__name__))
    # every class of the module that is a Box and not modelled must not be reachable from build.py
    return {'sub': sub, 'flags': flags, 'parents': parents, 'table': table}


def display_values():
    """Every value the real `display` validator produces (keywords taken from its own source)."""
    import tinycss2
    from weasyprint.css.validation import properties as vp
    words = ['none', 'block', 'inline', 'flow', 'flow-root', 'table', 'flex', 'grid', 'list-item', 'inline-block',
             'inline-table', 'inline-flex', 'inline-grid', 'table-caption', 'table-row-group', 'table-cell',
             'table-header-group', 'table-footer-group', 'table-row', 'table-column-group', 'table-column',
             'contents', 'run-in']
    out = []
    validator = getattr(vp.display, '__wrapped__', vp.display)
    for n in (1, 2, 3):
        for combo in itertools.product(words, repeat=n):
            tokens = [t for t in tinycss2.parse_component_value_list(' '.join(combo)) if t.type != 'whitespace']
            try:
                value = vp.display(tokens)
            except TypeError:
                value = validator(tokens)
            if value is not None and tuple(value) not in out:
                out.append(tuple(value))
    return out


def graph_blockify(values):
    from weasyprint.css import computed_values

    class Style:
        def __init__(self, float_, position, root):
            self.specified = {'float': float_, 'position': ('running()', 'x') if position == 'running' else position}
            self.is_root_element = root
    graph, fgraph = [], []
    for value in values:
        for float_ in FLOATS:
            for position in POSITIONS:
                for root in (False, True):
                    result = computed_values.display(Style(float_, position, root), 'display', value)
                    graph.append((list(value), float_, position, root, list(result)))
    for float_ in FLOATS:
        for position in POSITIONS:
            fgraph.append((float_, position, computed_values.compute_float(Style(float_, position, False), 'float', float_)))
    return graph, fgraph


def lean_bool(b):
    return 'true' if b else 'false'


def generate():
    table_ast, sha = ast_display_table()
    wsp = ast_whitespace()
    wrapper_props = ast_wrapper_properties()
    g = graph_classes()
    values = display_values()
    blockify, floats = graph_blockify(values)

    def table(rows):
        return lean_list([f'({lean_strs(key)}, {kind(cls)})' for key, cls in rows])

    def flag_fn(name, members):
        if members:
            pats = '\n'.join(f'  | {kind(k)} => true' for k in members)
            return f'def {name} : BoxKind → Bool\n{pats}\n  | _ => false\n'
        return f'def {name} : BoxKind → Bool\n  | _ => false\n'

    sub_lines = '\n'.join(f'  | {kind(k)}, .{c} => true' for k, c in g['sub'])
    parents_lines = '\n'.join(
        f'  | {kind(k)} => {lean_list([kind(p) for p in ps])}' for k, ps in g['parents'].items() if ps)
    text = f'''/- GENERATED by py/extract/box_kinds.py from {BUILD} (BOX_TYPE_FROM_DISPLAY span sha {sha};
   process_whitespace span sha {wsp['sha']}), boxes.py, css/computed_values.py, css/properties.py. Do not edit. -/
import WpModel.Model.BoxTypes
namespace Wp.Gen
open Wp Wp.Bx

/-- `BOX_TYPE_FROM_DISPLAY` read from the source text (AST). -/
def displayTableAst : List (List String × BoxKind) := {table(table_ast)}

/-- `BOX_TYPE_FROM_DISPLAY` of the imported module (graph). -/
def displayTableGraph : List (List String × BoxKind) := {table(g['table'])}

/-- `issubclass(kind, class)` for every concrete kind and every class used in an `isinstance` test. -/
def isSub : BoxKind → BoxClass → Bool
{sub_lines}
  | _, _ => false

/-- Class attributes of the anonymous-table rules. -/
{flag_fn('properTableChild', g['flags']['proper_table_child'])}
{flag_fn('internalTableOrCaption', g['flags']['internal_table_or_caption'])}
{flag_fn('tabularContainer', g['flags']['tabular_container'])}
/-- `proper_parents` (exact classes). -/
def properParents : BoxKind → List BoxKind
{parents_lines}
  | _ => []

/-- `white-space` values for which `process_whitespace` turns newlines into spaces / collapses spaces;
    values for which `inline_in_block` drops a single space at the start of a line (AST). -/
def newLineCollapseWs : List WS := {lean_list([ws(v) for v in wsp['new_line_collapse']])}
def spaceCollapseWs : List WS := {lean_list([ws(v) for v in wsp['space_collapse']])}
def lineStartSpaceWs : List WS := {lean_list([ws(v) for v in wsp['line_start']])}
/-- Keywords accepted by the `white-space` validator (AST). -/
def validWs : List String := {lean_strs(wsp['valid'])}

/-- Patterns of `LINE_FEED_RE`, `TAB_RE`, `SPACE_RE` (AST). -/
def lineFeedRe : String := {lean_str(wsp['regexes']['LINE_FEED_RE']).replace(chr(13), '\\r').replace(chr(9), '\\t')}
def tabRe : String := {lean_str(wsp['regexes']['TAB_RE']).replace(chr(13), '\\r').replace(chr(9), '\\t')}
def spaceRe : String := {lean_str(wsp['regexes']['SPACE_RE']).replace(chr(13), '\\r').replace(chr(9), '\\t')}

/-- Is `float` / `position` moved from the table to its wrapper (`TABLE_WRAPPER_BOX_PROPERTIES`, AST). -/
def wrapperTakesFloat : Bool := {lean_bool('float' in wrapper_props)}
def wrapperTakesPosition : Bool := {lean_bool('position' in wrapper_props)}

/-- Every value the real `display` validator returns for 1-3 keywords. -/
def displayValues : List (List String) := {lean_list([lean_strs(v) for v in values])}

/-- Graph of the real `computed_values.display`: (specified display, float, position, is root, computed). -/
def blockifyGraph : List (List String × String × String × Bool × List String) := {lean_list([
        f'({lean_strs(v)}, {lean_str(f)}, {lean_str(p)}, {lean_bool(r)}, {lean_strs(res)})' for v, f, p, r, res in blockify])}

/-- Graph of the real `computed_values.compute_float`: (float, position, computed float). -/
def floatGraph : List (String × String × String) := {lean_list([
        f'({lean_str(f)}, {lean_str(p)}, {lean_str(r)})' for f, p, r in floats])}

end Wp.Gen
'''
    changed = write_if_changed('BoxKinds', text)
    return {'name': 'BoxKinds', 'changed': changed, 'source': 'ast+graph', 'sha256_of_source_span': sha,
            'entries': len(table_ast) + len(g['sub']) + len(blockify) + len(floats) + len(KINDS) * 4}
