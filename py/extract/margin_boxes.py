"""Gen/MarginBoxes.lean from weasyprint/layout/page.py `make_margin_boxes` (AST translator).

Extracted: the four rows of the side loop, the four rows of the corner loop, the suffix lists, which
half of `containing_block` is the fixed / the variable dimension, the offsets `[0, 0.5, 1]`, the
prefixes for which `top_or_left` is true, the definitions of `page_end_x` / `page_end_y`, and the
order / arguments of the two `compute_fixed_dimension` calls of a corner box.
Anything outside this shape raises ExtractionError (reported like a broken proof obligation).
"""
import ast
from fractions import Fraction

from .common import (
    ExtractionError, const_str_tuple, find_function, lean_list, lean_rat, lean_str, parse, span_sha,
    write_if_changed)

REL = 'weasyprint/layout/page.py'

SYMS = {
    'margin_top': '.marginTop', 'margin_bottom': '.marginBottom', 'margin_left': '.marginLeft',
    'margin_right': '.marginRight', 'max_box_width': '.maxBoxWidth', 'max_box_height': '.maxBoxHeight',
    'page_end_x': '.pageEndX', 'page_end_y': '.pageEndY'}


def sym(node):
    if isinstance(node, ast.Constant) and node.value == 0 and not isinstance(node.value, bool):
        return '.zero'
    if isinstance(node, ast.Name) and node.id in SYMS:
        return SYMS[node.id]
    raise ExtractionError(f'make_margin_boxes: unexpected table entry at line {node.lineno}: {ast.dump(node)}')


def _names(node):
    if not isinstance(node, ast.Tuple) or not all(isinstance(e, ast.Name) for e in node.elts):
        raise ExtractionError(f'expected a tuple of names at line {node.lineno}')
    return [e.id for e in node.elts]


def _is_name(node, name):
    return isinstance(node, ast.Name) and node.id == name


def _expect(cond, what):
    if not cond:
        raise ExtractionError(f'make_margin_boxes: {what}')


def _assignments(func):
    """Top-level `name = expr` of the function body."""
    out = {}
    for node in func.body:
        if isinstance(node, ast.Assign) and len(node.targets) == 1 and isinstance(node.targets[0], ast.Name):
            out[node.targets[0].id] = node.value
    return out


def _page_attr(node, attr, call=False):
    if call:
        return (isinstance(node, ast.Call) and not node.args and not node.keywords and
                _page_attr(node.func, attr))
    return isinstance(node, ast.Attribute) and node.attr == attr and _is_name(node.value, 'page')


def _sum_of(node):
    if not (isinstance(node, ast.BinOp) and isinstance(node.op, ast.Add)):
        raise ExtractionError('page_end_* is not a sum of two variables')
    return sym(node.left), sym(node.right)


def _calls(node, name):
    return [n for n in ast.walk(node) if isinstance(n, ast.Call) and _is_name(n.func, name)]


def _in_test(node, var):
    """`'<s>' in <var>` -> s"""
    ok = (isinstance(node, ast.Compare) and len(node.ops) == 1 and isinstance(node.ops[0], ast.In) and
          isinstance(node.left, ast.Constant) and isinstance(node.left.value, str) and
          _is_name(node.comparators[0], var))
    _expect(ok, 'corner top/left test is not `"<word>" in at_keyword`')
    return node.left.value


def tables():
    tree = parse(REL)
    func = find_function(tree, 'make_margin_boxes')
    assigns = _assignments(func)
    for name in ('margin_top', 'margin_bottom', 'margin_left', 'margin_right'):
        _expect(name in assigns and _page_attr(assigns[name], name), f'{name} is not page.{name}')
    _expect('max_box_width' in assigns and _page_attr(assigns['max_box_width'], 'border_width', call=True),
            'max_box_width is not page.border_width()')
    _expect('max_box_height' in assigns and _page_attr(assigns['max_box_height'], 'border_height', call=True),
            'max_box_height is not page.border_height()')
    _expect('page_end_x' in assigns and 'page_end_y' in assigns, 'page_end_x / page_end_y not assigned')
    end_x, end_y = _sum_of(assigns['page_end_x']), _sum_of(assigns['page_end_y'])

    loops = [n for n in func.body if isinstance(n, ast.For) and isinstance(n.iter, ast.Tuple)]
    _expect(len(loops) == 2, f'expected the side loop and the corner loop, found {len(loops)} literal loops')
    side_loop, corner_loop = loops
    _expect(_names(side_loop.target) == ['prefix', 'vertical', 'containing_block', 'position_x', 'position_y'],
            'side loop target changed')
    _expect(_names(corner_loop.target) == ['at_keyword', 'cb_width', 'cb_height', 'position_x', 'position_y'],
            'corner loop target changed')

    sides = []
    for row in side_loop.iter.elts:
        _expect(isinstance(row, ast.Tuple) and len(row.elts) == 5, 'side row is not a 5-tuple')
        pre, vert, cb, px, py = row.elts
        _expect(isinstance(pre, ast.Constant) and isinstance(pre.value, str), 'side prefix is not a string')
        _expect(isinstance(vert, ast.Constant) and isinstance(vert.value, bool), 'side vertical is not a bool')
        _expect(isinstance(cb, ast.Tuple) and len(cb.elts) == 2, 'side containing_block is not a pair')
        sides.append((pre.value, vert.value, sym(cb.elts[0]), sym(cb.elts[1]), sym(px), sym(py)))

    # if vertical: suffixes = [...]; fixed_outer, variable_outer = containing_block  else: ...
    ifs = [n for n in side_loop.body if isinstance(n, ast.If) and _is_name(n.test, 'vertical')]
    _expect(len(ifs) == 1, '`if vertical:` not found in the side loop')
    branch = {}
    for key, body in (('vertical', ifs[0].body), ('horizontal', ifs[0].orelse)):
        suffixes = order = None
        for stmt in body:
            if isinstance(stmt, ast.Assign) and _is_name(stmt.targets[0], 'suffixes'):
                suffixes = const_str_tuple(stmt.value)
            elif (isinstance(stmt, ast.Assign) and isinstance(stmt.targets[0], ast.Tuple) and
                    _is_name(stmt.value, 'containing_block')):
                order = _names(stmt.targets[0])
        _expect(suffixes is not None and len(suffixes) == 3, f'{key}: three suffixes expected')
        _expect(order in (['fixed_outer', 'variable_outer'], ['variable_outer', 'fixed_outer']),
                f'{key}: containing_block unpacking changed')
        branch[key] = (suffixes, order[0] == 'fixed_outer')

    # the at-keyword is f'@{prefix}-{suffix}'
    make_calls = _calls(side_loop, 'make_box')
    _expect(len(make_calls) == 1 and isinstance(make_calls[0].args[0], ast.JoinedStr), 'make_box call changed')
    parts = make_calls[0].args[0].values
    shape = [p.value if isinstance(p, ast.Constant) else p.value.id for p in parts
             if isinstance(p, ast.Constant) or (isinstance(p, ast.FormattedValue) and isinstance(p.value, ast.Name))]
    _expect(shape == ['@', 'prefix', '-', 'suffix'], f'at-keyword format changed: {shape}')
    _expect(_is_name(make_calls[0].args[1], 'containing_block'), 'make_box containing block changed')

    # compute_variable_dimension(context, side_boxes, vertical, variable_outer)
    var_calls = _calls(side_loop, 'compute_variable_dimension')
    _expect(len(var_calls) == 1 and [getattr(a, 'id', None) for a in var_calls[0].args] ==
            ['context', 'side_boxes', 'vertical', 'variable_outer'], 'compute_variable_dimension call changed')

    # for box, offset in zip(side_boxes, [0, 0.5, 1])
    zips = [n for n in ast.walk(side_loop) if isinstance(n, ast.For) and isinstance(n.iter, ast.Call) and
            _is_name(n.iter.func, 'zip')]
    _expect(len(zips) == 1 and isinstance(zips[0].iter.args[1], ast.List), 'offset loop changed')
    offsets = []
    for elt in zips[0].iter.args[1].elts:
        _expect(isinstance(elt, ast.Constant) and isinstance(elt.value, (int, float)), 'offset is not a number')
        offsets.append(Fraction(elt.value))
    _expect(len(offsets) == 3, 'three offsets expected')
    # position adjustment: vertical -> position_y += offset * (variable_outer - box.margin_height())
    adj = [n for n in zips[0].body if isinstance(n, ast.If) and _is_name(n.test, 'vertical')]
    _expect(len(adj) == 1, 'position adjustment changed')
    for body, attr, meth in ((adj[0].body, 'position_y', 'margin_height'), (adj[0].orelse, 'position_x', 'margin_width')):
        ok = (len(body) == 1 and isinstance(body[0], ast.AugAssign) and isinstance(body[0].op, ast.Add) and
              isinstance(body[0].target, ast.Attribute) and body[0].target.attr == attr and
              isinstance(body[0].value, ast.BinOp) and isinstance(body[0].value.op, ast.Mult) and
              _is_name(body[0].value.left, 'offset') and isinstance(body[0].value.right, ast.BinOp) and
              isinstance(body[0].value.right.op, ast.Sub) and _is_name(body[0].value.right.left, 'variable_outer') and
              isinstance(body[0].value.right.right, ast.Call) and
              getattr(body[0].value.right.right.func, 'attr', None) == meth)
        _expect(ok, f'{attr} adjustment is not `+= offset * (variable_outer - box.{meth}())`')
    # compute_fixed_dimension(context, box, fixed_outer, not vertical, prefix in (...))
    fixed_calls = _calls(zips[0], 'compute_fixed_dimension')
    _expect(len(fixed_calls) == 1 and len(fixed_calls[0].args) == 5, 'side compute_fixed_dimension call changed')
    a = fixed_calls[0].args
    _expect(_is_name(a[2], 'fixed_outer') and isinstance(a[3], ast.UnaryOp) and isinstance(a[3].op, ast.Not) and
            _is_name(a[3].operand, 'vertical'), 'side compute_fixed_dimension arguments changed')
    _expect(isinstance(a[4], ast.Compare) and isinstance(a[4].ops[0], ast.In) and _is_name(a[4].left, 'prefix'),
            'top_or_left test changed')
    top_or_left = const_str_tuple(a[4].comparators[0])

    corners = []
    corner_calls = _calls(corner_loop, 'compute_fixed_dimension')
    _expect(len(corner_calls) == 2, 'corner: two compute_fixed_dimension calls expected')
    corner_calls.sort(key=lambda n: n.lineno)
    first, second = corner_calls
    _expect(_is_name(first.args[2], 'cb_height') and isinstance(first.args[3], ast.Constant) and
            first.args[3].value is True, 'corner: first call is not (cb_height, True)')
    _expect(_is_name(second.args[2], 'cb_width') and isinstance(second.args[3], ast.Constant) and
            second.args[3].value is False, 'corner: second call is not (cb_width, False)')
    top_word, left_word = _in_test(first.args[4], 'at_keyword'), _in_test(second.args[4], 'at_keyword')
    corner_make = _calls(corner_loop, 'make_box')
    _expect(len(corner_make) == 1 and isinstance(corner_make[0].args[1], ast.Tuple) and
            [getattr(e, 'id', None) for e in corner_make[0].args[1].elts] == ['cb_width', 'cb_height'],
            'corner make_box containing block changed')
    for row in corner_loop.iter.elts:
        _expect(isinstance(row, ast.Tuple) and len(row.elts) == 5, 'corner row is not a 5-tuple')
        kw, cbw, cbh, px, py = row.elts
        _expect(isinstance(kw, ast.Constant) and isinstance(kw.value, str), 'corner keyword is not a string')
        corners.append((kw.value, sym(cbw), sym(cbh), sym(px), sym(py), top_word in kw.value, left_word in kw.value))

    return {'sides': sides, 'corners': corners, 'branch': branch, 'offsets': offsets, 'top_or_left': top_or_left,
            'end_x': end_x, 'end_y': end_y, 'sha': span_sha(REL, func)}


def lean_bool(b):
    return 'true' if b else 'false'


def generate():
    t = tables()
    sides = [f'⟨{lean_str(p)}, {lean_bool(v)}, {a}, {b}, {x}, {y}⟩' for p, v, a, b, x, y in t['sides']]
    corners = [f'⟨{lean_str(k)}, {w}, {h}, {x}, {y}, {lean_bool(tp)}, {lean_bool(lf)}⟩'
               for k, w, h, x, y, tp, lf in t['corners']]
    (vs, vfirst), (hs, hfirst) = t['branch']['vertical'], t['branch']['horizontal']
    text = f'''/- GENERATED by py/extract/margin_boxes.py from {REL} `make_margin_boxes` (span sha {t['sha']}). Do not edit. -/
import WpModel.Model.MarginSym
namespace Wp.Gen
open Wp

/-- Rows of the side loop `for prefix, vertical, containing_block, position_x, position_y in (...)`. -/
def sideTable : List SideRow := {lean_list(sides)}

/-- Rows of the corner loop (with `'top' in at_keyword`, `'left' in at_keyword` evaluated). -/
def cornerTable : List CornerRow := {lean_list(corners)}

/-- `suffixes` in the `if vertical:` / `else:` branches. -/
def verticalSuffixes : List String := {lean_list([lean_str(s) for s in vs])}
def horizontalSuffixes : List String := {lean_list([lean_str(s) for s in hs])}

/-- Is `fixed_outer` the first component of `containing_block` (vertical / horizontal branch)? -/
def verticalFixedFirst : Bool := {lean_bool(vfirst)}
def horizontalFixedFirst : Bool := {lean_bool(hfirst)}

/-- `zip(side_boxes, [...])`. -/
def offsets : List Rat := {lean_list([lean_rat(o) for o in t['offsets']])}

/-- `prefix in (...)`: sides for which `top_or_left` is true. -/
def topOrLeftPrefixes : List String := {lean_list([lean_str(s) for s in t['top_or_left']])}

/-- `page_end_x = a + b`, `page_end_y = a + b`. -/
def pageEndXDef : MSym × MSym := ({t['end_x'][0]}, {t['end_x'][1]})
def pageEndYDef : MSym × MSym := ({t['end_y'][0]}, {t['end_y'][1]})

end Wp.Gen
'''
    changed = write_if_changed('MarginBoxes', text)
    return {'name': 'MarginBoxes', 'changed': changed, 'source': 'ast', 'sha256_of_source_span': t['sha'],
            'entries': len(sides) + len(corners) + 12}
