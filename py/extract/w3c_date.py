"""Gen/W3cDate.lean from weasyprint/html.py (W3C_DATE_RE) and weasyprint/pdf/__init__.py (_w3c_date_to_pdf).

AST translator: the pattern text and flags of `W3C_DATE_RE` (normalised: re.VERBOSE white space and
comments removed), the key tuple of the loop of `_w3c_date_to_pdf` and the `("day", "month")` tuple.
Graph translator: the time-zone suffix written by the real `_w3c_date_to_pdf` for every tz hour
(-23..+23 with both signs of 00) and a set of minutes, and the outputs for one date of each of the
six W3C formats.
"""
import ast

from .common import ExtractionError, const_str_tuple, find_function, parse, span_sha, write_if_changed

REL_HTML = 'weasyprint/html.py'
REL_PDF = 'weasyprint/pdf/__init__.py'
GRAPH_MINUTES = ('00', '01', '09', '10', '15', '30', '45', '59')
FORMAT_SAMPLES = (
    '1997', '1997-07', '1997-07-16', '1997-07-16T19:20+01:00', '1997-07-16T19:20:30+01:00',
    '1997-07-16T19:20:30.45+01:00', '1997-07-16T19:20Z', '1997-07-16T19:20:30Z',
    '1997-07-16T19:20:30.45Z', '  2024-12-31T23:59:59-00:30\n')


def normalise_verbose(pattern):
    """Remove what re.VERBOSE ignores: white space and #-comments outside character classes."""
    out, in_class, i = [], False, 0
    while i < len(pattern):
        c = pattern[i]
        if c == '\\':
            out.append(pattern[i:i + 2])
            i += 2
            continue
        if in_class:
            out.append(c)
            if c == ']':
                in_class = False
        elif c == '[':
            in_class = True
            out.append(c)
        elif c == '#':
            while i < len(pattern) and pattern[i] != '\n':
                i += 1
            continue
        elif c in ' \t\n\r\f\v':
            pass
        else:
            out.append(c)
        i += 1
    return ''.join(out)


def lean_string(s):
    out = []
    for c in s:
        if c == '\\':
            out.append('\\\\')
        elif c == '"':
            out.append('\\"')
        elif c == '\n':
            out.append('\\n')
        elif c == '\t':
            out.append('\\t')
        elif c == '\r':
            out.append('\\r')
        elif c == '\f':
            out.append('\\f')
        elif ' ' <= c <= '~':
            out.append(c)
        else:
            raise ExtractionError(f'character {c!r} in the pattern is outside the translator subset')
    return '"' + ''.join(out) + '"'


def printable_pattern(pattern):
    """The control characters of the character classes written as their escapes."""
    return (pattern.replace('\t', '\\t').replace('\n', '\\n').replace('\x0c', '\\f').replace('\r', '\\r'))


def ast_pattern():
    tree = parse(REL_HTML)
    for node in tree.body:
        if (isinstance(node, ast.Assign) and len(node.targets) == 1 and
                isinstance(node.targets[0], ast.Name) and node.targets[0].id == 'W3C_DATE_RE'):
            call = node.value
            ok = (isinstance(call, ast.Call) and isinstance(call.func, ast.Attribute) and
                  call.func.attr == 'compile' and len(call.args) == 2 and
                  isinstance(call.args[0], ast.Constant) and isinstance(call.args[0].value, str))
            if not ok:
                raise ExtractionError('W3C_DATE_RE is not re.compile(<literal>, <flags>)')
            flags = ast.unparse(call.args[1])
            if flags != 're.VERBOSE':
                raise ExtractionError(f'W3C_DATE_RE flags are {flags}, the matcher models re.VERBOSE only')
            return printable_pattern(normalise_verbose(call.args[0].value)), span_sha(REL_HTML, node)
    raise ExtractionError('W3C_DATE_RE not found')


def ast_keys():
    tree = parse(REL_PDF)
    func = find_function(tree, '_w3c_date_to_pdf')
    loops = [n for n in ast.walk(func) if isinstance(n, ast.For)]
    if len(loops) != 1 or not (isinstance(loops[0].target, ast.Name) and loops[0].target.id == 'key'):
        raise ExtractionError('_w3c_date_to_pdf: expected one `for key in (…)` loop')
    keys = const_str_tuple(loops[0].iter)
    ones = None
    for node in ast.walk(loops[0]):
        if (isinstance(node, ast.Compare) and len(node.ops) == 1 and isinstance(node.ops[0], ast.In) and
                isinstance(node.left, ast.Name) and node.left.id == 'key'):
            if ones is not None:
                raise ExtractionError('_w3c_date_to_pdf: two `key in (…)` tests')
            ones = const_str_tuple(node.comparators[0])
    if ones is None:
        raise ExtractionError('_w3c_date_to_pdf: `key in ("day", "month")` test not found')
    return keys, ones, span_sha(REL_PDF, func)


def graph():
    from weasyprint.pdf import _w3c_date_to_pdf
    prefix = 'D:20000101000000'
    tz = []
    for sign in '+-':
        for hour in range(24):
            for minute in GRAPH_MINUTES:
                tz_hour = f'{sign}{hour:02d}'
                out = _w3c_date_to_pdf(f'2000-01-01T00:00:00{tz_hour}:{minute}', 'graph')
                if not (isinstance(out, str) and out.startswith(prefix)):
                    raise ExtractionError(f'_w3c_date_to_pdf: unexpected output {out!r} for tz {tz_hour}:{minute}')
                tz.append((tz_hour, minute, out[len(prefix):]))
    samples = []
    for sample in FORMAT_SAMPLES:
        out = _w3c_date_to_pdf(sample, 'graph')
        if not isinstance(out, str):
            raise ExtractionError(f'_w3c_date_to_pdf({sample!r}) = {out!r}')
        samples.append((sample, out))
    return tz, samples


def chars(s):
    def one(c):
        if c == "'":
            return "'\\''"
        if c == '\n':
            return "'\\n'"
        if c == '\\':
            return "'\\\\'"
        return f"'{c}'"
    return '[' + ', '.join(one(c) for c in s) + ']'


def generate():
    pattern, sha_re = ast_pattern()
    keys, ones, sha_fn = ast_keys()
    tz, samples = graph()
    tz_lines = ',\n  '.join(f'({chars(h)}, {chars(m)}, {chars(o)})' for h, m, o in tz)
    sample_lines = ',\n  '.join(f'({chars(s)}, {chars(o)})' for s, o in samples)
    text = f'''/-
GENERATED by py/extract/w3c_date.py from {REL_HTML} (W3C_DATE_RE, span {sha_re}) and
{REL_PDF} (_w3c_date_to_pdf, span {sha_fn}).  Do not edit.
-/
namespace Wp.Gen

/-- Pattern of `W3C_DATE_RE` (flags: re.VERBOSE) without the ignored white space and comments. -/
def datePattern : String :=
  {lean_string(pattern)}

/-- `for key in (…)` of `_w3c_date_to_pdf`. -/
def dateKeys : List String := [{', '.join(lean_string(k) for k in keys)}]

/-- `key in (…)`: the keys filled with `01` rather than `00`. -/
def dateOneKeys : List String := [{', '.join(lean_string(k) for k in ones)}]

/-- Graph of the real function: (tz_hour group, tz_minute group, suffix written after the seconds). -/
def tzGraph : List (List Char × List Char × List Char) := [
  {tz_lines}]

/-- Graph of the real function on one date of each W3C format: (input, output). -/
def formatGraph : List (List Char × List Char) := [
  {sample_lines}]

end Wp.Gen
'''
    changed = write_if_changed('W3cDate', text)
    return {'table': 'Gen/W3cDate.lean', 'source': [REL_HTML, REL_PDF], 'changed': changed,
            'entries': len(tz) + len(samples) + len(keys) + len(ones) + 1}


if __name__ == '__main__':
    print(generate())
