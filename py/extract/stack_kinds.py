"""Gen/StackKinds.lean from weasyprint/stacking.py, weasyprint/draw/__init__.py and boxes.py.

AST translator: every `isinstance(<x>, <box classes>)` test of `_dispatch`, `_dispatch_children`,
`draw_stacking_context` and `draw_inline_level`, in source order (the class tuples are read from the
source text, names such as `stacking_classes` / `allowed_boxes` are resolved to their literal tuple).
Graph translator: `issubclass` of every concrete class of `formatting_structure.boxes` against each of
those tuples (the real class hierarchy); and, for `gaTransformable`, the complete graph of the finite
function "does `anchors.gather_anchors` give a box of this class with a non-empty `transform` a
`transformation_matrix`" obtained by calling the real function on one box of every class (the AST tuple of
its class test is recorded in the comment when the test is in the subset, whatever its polarity).  The Lean model of C17 takes every class test from this
file, so an edit of a tuple or of the hierarchy changes the model and re-checks the theorems.
"""
import ast

from .common import ExtractionError, find_function, parse, span_sha, write_if_changed

STACKING = 'weasyprint/stacking.py'
DRAW = 'weasyprint/draw/__init__.py'
ANCHORS = 'weasyprint/anchors.py'

# slot name -> (file, function, ordinal among the box-class isinstance tests of that function)
SLOTS = [
    ('dispStackingClass', STACKING, '_dispatch', 0),      # isinstance(box, stacking_classes)
    ('dispBlockLevel', STACKING, '_dispatch', 1),         # isinstance(box, boxes.BlockLevelBox)
    ('dispCell', STACKING, '_dispatch', 2),               # isinstance(box, boxes.TableCellBox)
    ('dispParent', STACKING, '_dispatch_children', 0),    # isinstance(box, boxes.ParentBox)
    ('drawOwnDecoration', DRAW, 'draw_stacking_context', 0),   # point 2 tuple
    ('drawPage', DRAW, 'draw_stacking_context', 1),       # isinstance(box, boxes.PageBox)
    ('drawTable', DRAW, 'draw_stacking_context', 2),      # isinstance(block, boxes.TableBox)
    ('drawInline', DRAW, 'draw_stacking_context', 3),     # point 6
    ('drawReplaced', DRAW, 'draw_stacking_context', 4),   # point 7
    ('drawLine', DRAW, 'draw_stacking_context', 5),       # point 7: children[-1] is a LineBox
    ('dilAllowed', DRAW, 'draw_inline_level', 0),         # assert isinstance(stacking_context.box, allowed_boxes)
    ('dilInlineOrLine', DRAW, 'draw_inline_level', 1),    # isinstance(box, (InlineBox, LineBox))
    ('dilLine', DRAW, 'draw_inline_level', 2),            # isinstance(box, LineBox)
    ('dilTextChild', DRAW, 'draw_inline_level', 3),       # isinstance(child, TextBox)
    ('dilInlineReplaced', DRAW, 'draw_inline_level', 4),  # isinstance(box, InlineReplacedBox)
    ('dilText', DRAW, 'draw_inline_level', 5),            # assert isinstance(box, TextBox)
]
EXPECTED_COUNT = {(STACKING, '_dispatch'): 3, (STACKING, '_dispatch_children'): 1,
                  (DRAW, 'draw_stacking_context'): 6, (DRAW, 'draw_inline_level'): 6}

# The tuples as of the last synchronisation with /repo (a9887a3).  Used when a function has another number of
# box-class isinstance tests than the model knows (EXPECTED_COUNT): the slots are then aligned in order with the
# tests whose tuple is the known one, the table is still written — so that the model stays the last synchronised
# one and the correspondence can show the behavioural difference on a concrete input — and the extraction is
# reported as failed (the model no longer mirrors the function test for test).
FALLBACK = {
    'dispStackingClass': ['InlineBlockBox', 'InlineFlexBox', 'InlineGridBox'],
    'dispBlockLevel': ['BlockLevelBox'], 'dispCell': ['TableCellBox'], 'dispParent': ['ParentBox'],
    'drawOwnDecoration': ['BlockBox', 'MarginBox', 'InlineBlockBox', 'TableCellBox', 'FlexContainerBox',
                          'GridContainerBox', 'ReplacedBox'],
    'drawPage': ['PageBox'], 'drawTable': ['TableBox'], 'drawInline': ['InlineBox'],
    'drawReplaced': ['ReplacedBox'], 'drawLine': ['LineBox'],
    'dilAllowed': ['InlineBlockBox', 'InlineFlexBox', 'InlineGridBox'],
    'dilInlineOrLine': ['InlineBox', 'LineBox'], 'dilLine': ['LineBox'], 'dilTextChild': ['TextBox'],
    'dilInlineReplaced': ['InlineReplacedBox'], 'dilText': ['TextBox'],
}


def _class_names(node, assignments):
    """`boxes.X` / tuple of them / a local name bound to such a tuple -> [X, ...] or None."""
    if isinstance(node, ast.Attribute) and isinstance(node.value, ast.Name) and node.value.id == 'boxes':
        return [node.attr]
    if isinstance(node, ast.Tuple):
        out = []
        for elt in node.elts:
            names = _class_names(elt, assignments)
            if names is None:
                return None
            out.extend(names)
        return out
    if isinstance(node, ast.Name) and node.id in assignments:
        return assignments[node.id]
    return None


class _Sites(ast.NodeVisitor):
    def __init__(self):
        self.assignments = {}
        self.sites = []

    def visit_Assign(self, node):
        if len(node.targets) == 1 and isinstance(node.targets[0], ast.Name):
            names = _class_names(node.value, self.assignments)
            if names is not None and isinstance(node.value, ast.Tuple):
                self.assignments[node.targets[0].id] = names
        self.generic_visit(node)

    def visit_Call(self, node):
        if isinstance(node.func, ast.Name) and node.func.id == 'isinstance' and len(node.args) == 2:
            names = _class_names(node.args[1], self.assignments)
            if names is not None:
                self.sites.append((node.lineno, node.col_offset, names))
        self.generic_visit(node)


def align(slots, sites):
    """Slots of one function (in source order) against the tests found: every slot takes the next test whose
    tuple is the known one, else keeps the known tuple.  -> ({slot: tuple}, [description of what did not fit])"""
    out, problems, position = {}, [], 0
    used = set()
    for slot in slots:
        for k in range(position, len(sites)):
            if sites[k][2] == FALLBACK[slot]:
                out[slot] = sites[k][2]
                used.add(k)
                position = k + 1
                break
        else:
            out[slot] = list(FALLBACK[slot])
            problems.append(f'no test isinstance(·, ({", ".join(FALLBACK[slot])})) for slot {slot}')
    for k, (line, _, names) in enumerate(sites):
        if k not in used:
            problems.append(f'unmodelled test isinstance(·, ({", ".join(names)})) at line {line}')
    return out, problems


def ast_sites():
    """-> ({slot: class tuple}, span shas, problems).  `problems` is non-empty when a function has another
    number of box-class tests than the model mirrors (the table is then aligned on the known tuples)."""
    out, shas, problems = {}, [], []
    by_function = {}
    for slot, rel, func_name, index in SLOTS:
        by_function.setdefault((rel, func_name), []).append((index, slot))
    for (rel, func_name), slots in by_function.items():
        func = find_function(parse(rel), func_name)
        visitor = _Sites()
        visitor.visit(func)
        sites = sorted(visitor.sites)
        shas.append(span_sha(rel, func))
        names = [slot for _, slot in sorted(slots)]
        if len(sites) == EXPECTED_COUNT[(rel, func_name)]:
            for index, slot in slots:
                out[slot] = sites[index][2]
        else:
            aligned, what = align(names, sites)
            out.update(aligned)
            problems.append(f'{func_name}: {len(sites)} box-class isinstance tests, the model mirrors '
                            f'{EXPECTED_COUNT[(rel, func_name)]} ({"; ".join(what)})')
    return out, '-'.join(shas), problems


def box_classes():
    """All classes of formatting_structure.boxes deriving from Box, in definition order."""
    from weasyprint.formatting_structure import boxes
    classes = [c for c in vars(boxes).values() if isinstance(c, type) and issubclass(c, boxes.Box)]
    return boxes, classes


def transformable_graph(classes):
    """{class name: bool}: gather_anchors on a real box object of every class carrying a translation."""
    from fractions import Fraction

    from weasyprint.anchors import gather_anchors
    from weasyprint.css.properties import Dimension
    out = {}
    for cls in classes:
        box = cls.__new__(cls)
        for name in ('position_x', 'position_y', 'margin_left', 'margin_top', 'border_top_width',
                     'border_right_width', 'border_bottom_width', 'border_left_width', 'padding_top',
                     'padding_right', 'padding_bottom', 'padding_left', 'margin_right', 'margin_bottom'):
            setattr(box, name, Fraction(1))
        box.width, box.height = Fraction(20), Fraction(10)
        box.style = {'transform': (('translate', (Dimension(Fraction(3), 'px'), Dimension(Fraction(0), 'px'))),),
                     'transform_origin': (Dimension(Fraction(50), '%'), Dimension(Fraction(50), '%')),
                     'bookmark_level': 'none', 'bookmark_state': 'open', 'link': None, 'anchor': None,
                     'appearance': 'none'}
        box.element, box.element_tag, box.bookmark_label = None, 'x', None
        box.children, box.column_groups = (), ()
        try:
            gather_anchors(box, {}, [], [], {})
        except Exception as exc:
            raise ExtractionError(f'gather_anchors on a {cls.__name__}: {type(exc).__name__}: {exc}')
        out[cls.__name__] = bool(box.transformation_matrix)
    return out


def anchors_tuple():
    """The class tuple of the first box-class isinstance test of gather_anchors (comment only)."""
    func = find_function(parse(ANCHORS), 'gather_anchors')
    visitor = _Sites()
    visitor.visit(func)
    sites = [names for _, _, names in sorted(visitor.sites)]
    return (sites[0] if sites else None), span_sha(ANCHORS, func)


def generate():
    boxes, classes = box_classes()
    problems = []
    try:
        sites, sha, problems = ast_sites()
        source = 'ast' if not problems else 'ast, aligned on the known tuples'
    except ExtractionError as exc:
        sites, sha = dict(FALLBACK), 'fallback'
        source = 'fallback'
        problems = [str(exc)]
    names = [c.__name__ for c in classes]
    lines = [
        f'/- GENERATED by py/extract/stack_kinds.py from {STACKING}, {DRAW}, {ANCHORS} (span sha {sha}) and the class',
        '   hierarchy of weasyprint/formatting_structure/boxes.py (issubclass graph). Do not edit. -/',
        'namespace Wp.Gen', '',
        '/-- Every class of `formatting_structure.boxes` deriving from `Box`. -/',
        'inductive Kind where']
    lines += [f'  | {n}' for n in names]
    lines += ['  deriving Repr, DecidableEq, Inhabited', '', 'namespace Kind', '',
              'def all : List Kind := [' + ', '.join('.' + n for n in names) + ']', '',
              'def name : Kind → String']
    lines += [f'  | .{n} => "{n}"' for n in names]
    lines += ['', 'def ofName? (s : String) : Option Kind := all.find? (fun k => k.name == s)', '']
    table = {}
    for slot, _, func_name, _ in SLOTS:
        tuple_names = sites[slot]
        try:
            tup = tuple(getattr(boxes, n) for n in tuple_names)
        except AttributeError as exc:
            raise ExtractionError(str(exc))
        members = [c.__name__ for c in classes if issubclass(c, tup)]
        table[slot] = members
        lines.append(f'/-- `{func_name}`: `isinstance(·, ({", ".join(tuple_names)}))` (tuple by AST, members by issubclass). -/')
        lines.append(f'def {slot} : Kind → Bool')
        for n in members:
            lines.append(f'  | .{n} => true')
        if len(members) < len(names):
            lines.append('  | _ => false')
        lines.append('')
    graph = transformable_graph(classes)
    try:
        ga_tuple, ga_sha = anchors_tuple()
    except ExtractionError:
        ga_tuple, ga_sha = None, 'outside-ast-subset'
    lines.append(f'/-- `gather_anchors` ({ANCHORS}, span sha {ga_sha}): a box of this class whose `transform` is not '
                 'empty gets a')
    lines.append('`transformation_matrix` (graph of the real function on one box per class; class test of the source: '
                 f'`isinstance(·, ({", ".join(ga_tuple) if ga_tuple else "?"}))`). -/')
    lines.append('def gaTransformable : Kind → Bool')
    for n in names:
        if graph[n]:
            lines.append(f'  | .{n} => true')
    if not all(graph.values()):
        lines.append('  | _ => false')
    lines.append('')
    lines += ['end Kind', 'end Wp.Gen', '']
    changed = write_if_changed('StackKinds', '\n'.join(lines))
    if problems:
        # the table is written (last synchronised model), the obligation "the model mirrors the source" is broken
        raise ExtractionError('; '.join(problems))
    return {'name': 'StackKinds', 'changed': changed, 'source': source, 'sha256_of_source_span': sha,
            'entries': len(names) * (len(SLOTS) + 1)}
