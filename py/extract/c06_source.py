"""Gen/C06Source.lean: the literal tables inside the functions mirrored by the C06 models.

AST translator (weasyprint/css/__init__.py, weasyprint/css/computed_values.py):
  * every membership test `<expr> in (<string constants>)` of the mirrored functions, in source order
    (`length`: pass-through keywords and font-relative units; `border_width`: the styles without border;
    `vertical_align`: the keywords; `_content_list`: the item kinds; `character_ratio`: the accepted characters;
    `text_decoration`: the propagated properties; `ComputedStyle.__missing__`: the keys whose specified value is saved);
  * the dict literal of `AnonymousStyle.__init__` (`self.update({...})`: the keys preset to 0);
  * the per-document cache: the keys of the dict literal `self.cache = {...}` of `ComputedStyle.__init__` and
    `AnonymousStyle.__init__`, and whether the cache of the parent is shared (`if parent_style: self.cache = parent_style.cache`);
  * the method chain applied to each item of the `media` attribute in `find_stylesheets`.
Graph translator:
  * `character_ratio`: the cache table selected for each accepted character, obtained by *evaluating* the
    subscript expression of `style.cache[...]` with `character` bound to it.
Props/C06Source.lean compares these with the literals the models use; a source edit breaks that proof.
"""
import ast

from .common import ExtractionError, find_function, lean_list, lean_str, parse, read_source, write_if_changed

CSS = 'weasyprint/css/__init__.py'
COMPUTED = 'weasyprint/css/computed_values.py'

IN_TEST_FUNCTIONS = [
    (COMPUTED, 'length', None), (COMPUTED, 'border_width', None), (COMPUTED, 'vertical_align', None),
    (COMPUTED, '_content_list', None), (COMPUTED, 'character_ratio', None), (COMPUTED, 'compute_float', None),
    (COMPUTED, 'display', None), (COMPUTED, 'content', None),
    (CSS, 'text_decoration', None), (CSS, '__missing__', 'ComputedStyle'), (CSS, '__missing__', 'AnonymousStyle'),
]


def str_tuple(node):
    if isinstance(node, (ast.Tuple, ast.List, ast.Set)) and node.elts and all(
            isinstance(e, ast.Constant) and isinstance(e.value, str) for e in node.elts):
        return [e.value for e in node.elts]
    return None


def in_tests(rel, fn_node, source):
    """[(left-hand side source text, 'in' | 'not in', [members])] in source order; also `name = (<strings>)`
    assignments followed by `in name` (as `text_properties` in text_decoration)."""
    out, named = [], {}
    for node in ast.walk(fn_node):
        if isinstance(node, ast.Assign) and len(node.targets) == 1 and isinstance(node.targets[0], ast.Name):
            members = str_tuple(node.value)
            if members:
                named[node.targets[0].id] = members
    for node in sorted((n for n in ast.walk(fn_node) if isinstance(n, ast.Compare)),
                       key=lambda n: (n.lineno, n.col_offset)):
        if len(node.ops) != 1 or not isinstance(node.ops[0], (ast.In, ast.NotIn)):
            continue
        right = node.comparators[0]
        members = str_tuple(right)
        if members is None and isinstance(right, ast.Name) and right.id in named:
            members = named[right.id]
        if members is None:
            continue
        out.append((ast.get_source_segment(source, node.left), 'in' if isinstance(node.ops[0], ast.In) else 'not in',
                    members))
    return out


def anonymous_presets(tree):
    init = find_function(tree, '__init__', 'AnonymousStyle')
    for node in ast.walk(init):
        if (isinstance(node, ast.Call) and isinstance(node.func, ast.Attribute) and node.func.attr == 'update' and
                isinstance(node.func.value, ast.Name) and node.func.value.id == 'self' and node.args and
                isinstance(node.args[0], ast.Dict)):
            rows = []
            for k, v in zip(node.args[0].keys, node.args[0].values):
                if not (isinstance(k, ast.Constant) and isinstance(k.value, str) and isinstance(v, ast.Constant) and
                        isinstance(v.value, int) and not isinstance(v.value, bool)):
                    raise ExtractionError('AnonymousStyle.__init__: preset is not `str: int`')
                rows.append((k.value, v.value))
            return rows
    raise ExtractionError('AnonymousStyle.__init__: self.update({...}) not found')


def cache_init(tree, cls, source):
    """-> (keys of the new cache dict, source text of the test that shares the parent's cache)."""
    init = find_function(tree, '__init__', cls)
    for node in ast.walk(init):
        if not isinstance(node, ast.If):
            continue

        def cache_assign(body):
            for stmt in body:
                if (isinstance(stmt, ast.Assign) and len(stmt.targets) == 1 and
                        isinstance(stmt.targets[0], ast.Attribute) and stmt.targets[0].attr == 'cache'):
                    return stmt.value
            return None
        shared, fresh = cache_assign(node.body), cache_assign(node.orelse)
        if shared is None or fresh is None:
            continue
        if not (isinstance(fresh, ast.Dict) and all(isinstance(k, ast.Constant) and isinstance(k.value, str) and
                                                    isinstance(v, ast.Dict) and not v.keys
                                                    for k, v in zip(fresh.keys, fresh.values))):
            raise ExtractionError(f'{cls}.__init__: the new cache is not a dict of empty dicts')
        if ast.get_source_segment(source, shared) != 'parent_style.cache':
            raise ExtractionError(f'{cls}.__init__: the shared cache is not parent_style.cache')
        return [k.value for k in fresh.keys], ast.get_source_segment(source, node.test)
    raise ExtractionError(f'{cls}.__init__: cache initialisation not found')


def ratio_tables(tree, source):
    """-> (accepted characters, [(character, cache table)]) of character_ratio."""
    fn = find_function(tree, 'character_ratio')
    characters = None
    for node in ast.walk(fn):
        if isinstance(node, ast.Assert) and isinstance(node.test, ast.Compare) and \
                isinstance(node.test.ops[0], ast.In) and ast.get_source_segment(source, node.test.left) == 'character':
            characters = str_tuple(node.test.comparators[0])
    if not characters:
        raise ExtractionError('character_ratio: `assert character in (...)` not found')
    selector = None
    for node in ast.walk(fn):
        if (isinstance(node, ast.Assign) and len(node.targets) == 1 and isinstance(node.targets[0], ast.Name) and
                node.targets[0].id == 'cache' and isinstance(node.value, ast.Subscript) and
                ast.get_source_segment(source, node.value.value) == 'style.cache'):
            selector = node.value.slice
    if selector is None:
        raise ExtractionError('character_ratio: `cache = style.cache[...]` not found')
    code = compile(ast.Expression(selector), '<character_ratio cache selector>', 'eval')
    rows = []
    for character in characters:
        table = eval(code, {'__builtins__': {}}, {'character': character})      # noqa: S307 - a subscript of string constants
        if not isinstance(table, str):
            raise ExtractionError('character_ratio: the cache selector is not a string')
        rows.append((character, table))
    return characters, rows


def media_item_methods(tree, source):
    """The method chain applied to each comma-separated item of the media attribute in find_stylesheets."""
    fn = find_function(tree, 'find_stylesheets')
    for node in ast.walk(fn):
        if (isinstance(node, ast.Assign) and len(node.targets) == 1 and isinstance(node.targets[0], ast.Name) and
                node.targets[0].id == 'media' and isinstance(node.value, ast.ListComp)):
            chain, cur = [], node.value.elt
            while isinstance(cur, ast.Call) and isinstance(cur.func, ast.Attribute) and not cur.args:
                chain.append(cur.func.attr)
                cur = cur.func.value
            if not isinstance(cur, ast.Name):
                raise ExtractionError('find_stylesheets: media item is not a method chain on the loop variable')
            split = ast.get_source_segment(source, node.value.generators[0].iter)
            return list(reversed(chain)), split
    raise ExtractionError('find_stylesheets: `media = [...]` not found')


def generate():
    trees = {rel: parse(rel) for rel in (CSS, COMPUTED)}
    sources = {rel: read_source(rel) for rel in (CSS, COMPUTED)}
    tests = []
    for rel, name, cls in IN_TEST_FUNCTIONS:
        fn = find_function(trees[rel], name, cls)
        label = f'{cls}.{name}' if cls else name
        for left, op, members in in_tests(rel, fn, sources[rel]):
            tests.append((label, left, op, members))
    presets = anonymous_presets(trees[CSS])
    cache_c, share_c = cache_init(trees[CSS], 'ComputedStyle', sources[CSS])
    cache_a, share_a = cache_init(trees[CSS], 'AnonymousStyle', sources[CSS])
    characters, tables = ratio_tables(trees[COMPUTED], sources[COMPUTED])
    methods, split = media_item_methods(trees[CSS], sources[CSS])

    def strs(items):
        return lean_list([lean_str(s) for s in items])
    text = f'''/- GENERATED by py/extract/c06_source.py from {CSS}, {COMPUTED}. Do not edit. -/
namespace Wp.Gen.C06Source

/-- Membership tests `<lhs> in (<string constants>)` of the mirrored functions, in source order:
(function, left-hand side, `in` | `not in`, members). -/
def inTests : List (String × String × String × List String) := {lean_list(
        [f'({lean_str(f)}, {lean_str(left)}, {lean_str(op)}, {strs(members)})' for f, left, op, members in tests])}

/-- `AnonymousStyle.__init__`: `self.update({{...}})`. -/
def anonymousPresets : List (String × Int) := {lean_list([f'({lean_str(k)}, {v})' for k, v in presets])}

/-- The tables of a new per-document cache (`self.cache = {{...}}`), and the test under which the parent's
cache is shared instead. -/
def cacheInitComputed : List String := {strs(cache_c)}
def cacheInitAnonymous : List String := {strs(cache_a)}
def cacheSharedIfComputed : String := {lean_str(share_c)}
def cacheSharedIfAnonymous : String := {lean_str(share_a)}

/-- `character_ratio`: the accepted characters (`assert character in ...`) and the cache table that
`style.cache[...]` selects for each (the subscript expression evaluated for every character). -/
def ratioCharacters : List String := {strs(characters)}
def ratioTableOf : List (String × String) := {lean_list([f'({lean_str(c)}, {lean_str(t)})' for c, t in tables])}

/-- `find_stylesheets`: `media = [<item>.<methods>() for <item> in <split>]`. -/
def mediaItemMethods : List String := {strs(methods)}
def mediaSplit : String := {lean_str(split)}

end Wp.Gen.C06Source
'''
    changed = write_if_changed('C06Source', text)
    return {'name': 'C06Source', 'changed': changed, 'source': 'ast+graph',
            'entries': len(tests) + len(presets) + len(cache_c) + len(cache_a) + len(tables) + len(methods)}
