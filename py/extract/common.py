"""Helpers for the source -> Lean translators (tie G of DESIGN.md §2.1)."""
import ast
import hashlib
from pathlib import Path

from vlib.paths import GEN, REPO


class ExtractionError(Exception):
    """The source is outside the translator's subset (reported like a broken proof)."""


def read_source(rel):
    path = REPO / rel
    return path.read_text(encoding='utf-8')


def parse(rel):
    return ast.parse(read_source(rel), filename=str(REPO / rel))


def find_function(tree, name, cls=None):
    nodes = tree.body
    if cls is not None:
        for node in tree.body:
            if isinstance(node, ast.ClassDef) and node.name == cls:
                nodes = node.body
                break
        else:
            raise ExtractionError(f'class {cls} not found')
    for node in nodes:
        if isinstance(node, (ast.FunctionDef, ast.AsyncFunctionDef)) and node.name == name:
            return node
    raise ExtractionError(f'function {name} not found')


def const_str_tuple(node):
    """A tuple/list/set literal of string constants -> list of str."""
    if not isinstance(node, (ast.Tuple, ast.List, ast.Set)):
        raise ExtractionError(f'expected a literal tuple at line {node.lineno}')
    out = []
    for elt in node.elts:
        if not (isinstance(elt, ast.Constant) and isinstance(elt.value, str)):
            raise ExtractionError(f'expected string constants at line {node.lineno}')
        out.append(elt.value)
    return out


def span_sha(rel, node):
    src = read_source(rel).splitlines()
    text = '\n'.join(src[node.lineno - 1:node.end_lineno])
    return hashlib.sha256(text.encode()).hexdigest()[:16]


def write_if_changed(name, text):
    """Write lean/WpModel/Gen/<name>.lean only when its content changed. Returns True if changed."""
    GEN.mkdir(parents=True, exist_ok=True)
    path = GEN / f'{name}.lean'
    if path.exists() and path.read_text() == text:
        return False
    tmp = path.with_suffix('.lean.tmp')
    tmp.write_text(text)
    tmp.replace(path)
    return True


def lean_list(items):
    return '[' + ', '.join(items) + ']'


def lean_str(s):
    return '"' + s.replace('\\', '\\\\').replace('"', '\\"').replace('\n', '\\n') + '"'


def lean_rat(fr):
    """A fractions.Fraction as a Lean Rat term."""
    if fr.denominator == 1:
        return f'({fr.numerator} : Rat)'
    return f'(({fr.numerator} : Rat) / {fr.denominator})'
