"""Gen/TableWrapperProps.lean from weasyprint/css/properties.py and weasyprint/formatting_structure/build.py.

AST translator: the set literal `TABLE_WRAPPER_BOX_PROPERTIES` (properties of a table element that apply to the table
wrapper box) and the shape of the loop of `wrap_table` that moves them
    for name in properties.TABLE_WRAPPER_BOX_PROPERTIES:
        wrapper.style[name] = table.style[name]
        table.style[name] = properties.INITIAL_VALUES[name]
Graph translator: the real cascade + `build_formatting_structure` on a one-cell `display: table` element that has
break-before / break-after / break-inside, once per break value: (property, value written, value on the wrapper box,
value on the table box).
"""
import ast

from .break_table import VALUES, brk
from .common import ExtractionError, const_str_tuple, find_function, lean_list, lean_str, parse, span_sha, write_if_changed

REL_PROPS = 'weasyprint/css/properties.py'
REL_BUILD = 'weasyprint/formatting_structure/build.py'
BREAK_PROPS = ['break_before', 'break_after', 'break_inside']
INSIDE_VALUES = ['auto', 'avoid', 'avoid-page', 'avoid-column']


def ast_props():
    tree = parse(REL_PROPS)
    for node in tree.body:
        if (isinstance(node, ast.Assign) and len(node.targets) == 1 and isinstance(node.targets[0], ast.Name)
                and node.targets[0].id == 'TABLE_WRAPPER_BOX_PROPERTIES'):
            names = const_str_tuple(node.value)
            if len(set(names)) != len(names):
                raise ExtractionError('TABLE_WRAPPER_BOX_PROPERTIES lists a property twice')
            return sorted(names), span_sha(REL_PROPS, node)
    raise ExtractionError('TABLE_WRAPPER_BOX_PROPERTIES not found')


def ast_loop():
    """The moving loop of wrap_table must be exactly the three lines quoted above."""
    func = find_function(parse(REL_BUILD), 'wrap_table')

    def is_attr(node, base, attr):
        return (isinstance(node, ast.Attribute) and node.attr == attr and isinstance(node.value, ast.Name)
                and node.value.id == base)

    def style_item(node, box):
        return (isinstance(node, ast.Subscript) and is_attr(node.value, box, 'style')
                and isinstance(node.slice, ast.Name) and node.slice.id == 'name')
    loops = [n for n in ast.walk(func) if isinstance(n, ast.For)
             and is_attr(n.iter, 'properties', 'TABLE_WRAPPER_BOX_PROPERTIES')]
    if len(loops) != 1:
        raise ExtractionError('wrap_table: expected one loop over properties.TABLE_WRAPPER_BOX_PROPERTIES')
    loop = loops[0]
    ok = (isinstance(loop.target, ast.Name) and loop.target.id == 'name' and len(loop.body) == 2 and not loop.orelse
          and all(isinstance(s, ast.Assign) and len(s.targets) == 1 for s in loop.body)
          and style_item(loop.body[0].targets[0], 'wrapper') and style_item(loop.body[0].value, 'table')
          and style_item(loop.body[1].targets[0], 'table')
          and isinstance(loop.body[1].value, ast.Subscript)
          and is_attr(loop.body[1].value.value, 'properties', 'INITIAL_VALUES')
          and isinstance(loop.body[1].value.slice, ast.Name) and loop.body[1].value.slice.id == 'name')
    if not ok:
        raise ExtractionError('wrap_table: the loop is not `wrapper.style[name] = table.style[name]; '
                              'table.style[name] = properties.INITIAL_VALUES[name]`')
    return span_sha(REL_BUILD, loop)


def graph():
    """(property, written, on the wrapper, on the table box) from the real cascade and build."""
    import logging

    from weasyprint import DEFAULT_OPTIONS, HTML
    from weasyprint.css.counters import CounterStyle
    from weasyprint.document import Document
    from weasyprint.formatting_structure import boxes
    from weasyprint.formatting_structure.build import build_formatting_structure
    from weasyprint.text.fonts import FontConfiguration
    logger = logging.getLogger('weasyprint')
    level = logger.level
    logger.setLevel(logging.CRITICAL)
    out = []
    try:
        font_config = FontConfiguration()
        for prop in BREAK_PROPS:
            for value in (INSIDE_VALUES if prop == 'break_inside' else VALUES):
                css = f'{prop.replace("_", "-")}:{value}'
                html = HTML(string=f'<body><div style="display:table;{css}"><div style="display:table-cell">x</div></div>')
                counter_style = CounterStyle()
                context = Document._build_layout_context(html, font_config, counter_style, dict(DEFAULT_OPTIONS))
                root = build_formatting_structure(
                    html.etree_element, context.style_for, context.get_image_from_uri, html.base_url,
                    context.target_collector, counter_style, context.footnotes)
                wrappers = [b for b in root.descendants() if getattr(b, 'is_table_wrapper', False)]
                if len(wrappers) != 1:
                    raise ExtractionError(f'{css}: {len(wrappers)} table wrappers built')
                wrapper = wrappers[0]
                tables = [c for c in wrapper.children if isinstance(c, boxes.TableBox)]
                if len(tables) != 1:
                    raise ExtractionError(f'{css}: wrapper without exactly one table box')
                out.append((prop, value, wrapper.style[prop], tables[0].style[prop]))
    finally:
        logger.setLevel(level)
    return out


def generate():
    names, sha = ast_props()
    loop_sha = ast_loop()
    g = graph()
    rows = [f'({lean_str(p)}, {brk(v)}, {brk(w)}, {brk(t)})' for p, v, w, t in g]
    text = f'''/- GENERATED by py/extract/table_wrapper_props.py from {REL_PROPS} (span sha {sha}) and
{REL_BUILD} (loop of wrap_table, span sha {loop_sha}). Do not edit. -/
import WpModel.Model.BreakTypes
namespace Wp.Gen
open Wp

/-- `TABLE_WRAPPER_BOX_PROPERTIES` (AST, sorted): the properties `wrap_table` moves from the table box to its
anonymous wrapper box (the table box gets the initial value). -/
def wrapperProps : List String := {lean_list([lean_str(n) for n in names])}

/-- Graph of the real cascade + build on `<div style="display:table; P: V">`: (property P, value V written, value on
the wrapper box, value on the table box). -/
def wrapGraph : List (String × Brk × Brk × Brk) := {lean_list(rows)}

end Wp.Gen
'''
    changed = write_if_changed('TableWrapperProps', text)
    return {'name': 'TableWrapperProps', 'changed': changed, 'source': 'ast+graph', 'sha256_of_source_span': sha,
            'entries': len(names) + len(g)}
