"""Gen/ModuleState.lean: every place in weasyprint/ where code inside a function can change state that outlives a
render — the tie of C19 `fresh_state` to the source.

AST translator over all of weasyprint/**/*.py.  An entry `(file, name, how)` is emitted for
  * `global NAME` inside a function                                              how = `global@<function>`
  * a store / augmented store / `del` through a module-level name (`NAME[k] = v`, `NAME.attr = v`) inside a
    function, where NAME is bound at module level (assignment, import, class, def) and not shadowed locally
                                                                                   how = `store@<function>`
  * a mutating method call (`append add update setdefault pop clear extend insert remove popitem discard`) on such a
    name (directly or through subscripts / attributes)                             how = `call.<method>@<function>`
  * a module-level function or a method decorated with a memoising decorator (`cache`, `lru_cache`, `cached_property`
    is per-instance and not listed)                                                how = `memo@<function>`
The Lean side proves `∀ e ∈ Gen.moduleState, e ∈ whitelist` (import-time registries and one pure memo): a new cache or
a new store into module state breaks that proof.
"""
import ast

from vlib.paths import REPO

from .common import ExtractionError, lean_str, write_if_changed

MUTATORS = {'append', 'add', 'update', 'setdefault', 'pop', 'clear', 'extend', 'insert', 'remove', 'popitem',
            'discard', 'appendleft', 'sort', 'reverse'}


def _module_names(tree):
    names = set()
    for node in tree.body:
        if isinstance(node, ast.Assign):
            for target in node.targets:
                for sub in ast.walk(target):
                    if isinstance(sub, ast.Name):
                        names.add(sub.id)
        elif isinstance(node, (ast.AnnAssign, ast.AugAssign)) and isinstance(node.target, ast.Name):
            names.add(node.target.id)
        elif isinstance(node, (ast.Import, ast.ImportFrom)):
            for alias in node.names:
                names.add((alias.asname or alias.name).split('.')[0])
        elif isinstance(node, (ast.ClassDef, ast.FunctionDef, ast.AsyncFunctionDef)):
            names.add(node.name)
    return names


def _base(node):
    while isinstance(node, (ast.Subscript, ast.Attribute)):
        node = node.value
    return node


def _functions(tree):
    """(function node, qualified name, nested inside another function?)"""
    out = []

    def visit(node, prefix, nested):
        for child in ast.iter_child_nodes(node):
            if isinstance(child, (ast.FunctionDef, ast.AsyncFunctionDef)):
                out.append((child, prefix + child.name, nested))
                visit(child, prefix + child.name + '.', True)
            elif isinstance(child, ast.ClassDef):
                visit(child, prefix + child.name + '.', nested)
            else:
                visit(child, prefix, nested)
    visit(tree, '', False)
    return out


def _locals(fn):
    names = set()
    args = fn.args
    for arg in args.args + args.kwonlyargs + args.posonlyargs:
        names.add(arg.arg)
    if args.vararg:
        names.add(args.vararg.arg)
    if args.kwarg:
        names.add(args.kwarg.arg)
    declared_global = set()
    for node in ast.walk(fn):
        if isinstance(node, ast.Global):
            declared_global.update(node.names)
        elif isinstance(node, ast.Name) and isinstance(node.ctx, ast.Store):
            names.add(node.id)
        elif isinstance(node, (ast.FunctionDef, ast.AsyncFunctionDef, ast.ClassDef)) and node is not fn:
            names.add(node.name)
        elif isinstance(node, (ast.Import, ast.ImportFrom)):
            for alias in node.names:
                names.add((alias.asname or alias.name).split('.')[0])
    return names - declared_global, declared_global


def scan():
    root = REPO / 'weasyprint'
    if not root.is_dir():
        raise ExtractionError(f'{root} not found')
    entries = set()
    files = 0
    for path in sorted(root.rglob('*.py')):
        files += 1
        rel = str(path.relative_to(root))
        try:
            tree = ast.parse(path.read_text(encoding='utf-8'), filename=str(path))
        except SyntaxError as exc:
            raise ExtractionError(f'{rel}: {exc}')
        module_names = _module_names(tree)
        functions = _functions(tree)
        # enclosing function locals shadow module names for nested functions too
        for fn, qual, nested in functions:
            if not nested:
                for deco in fn.decorator_list:
                    text = ast.unparse(deco)
                    head = text.split('(')[0].split('.')[-1]
                    if head in ('cache', 'lru_cache'):
                        entries.add((rel, qual, f'memo@{qual}'))
            local, declared_global = _locals(fn)
            for name in declared_global:
                entries.add((rel, name, f'global@{qual}'))
            for node in ast.walk(fn):
                targets = []
                if isinstance(node, (ast.Assign, ast.Delete)):
                    targets = node.targets
                elif isinstance(node, (ast.AugAssign, ast.AnnAssign)):
                    targets = [node.target]
                for target in targets:
                    for sub in ([target] if not isinstance(target, (ast.Tuple, ast.List)) else target.elts):
                        base = _base(sub)
                        if (base is not sub and isinstance(base, ast.Name) and base.id in module_names and
                                base.id not in local):
                            entries.add((rel, base.id, f'store@{qual}'))
                if (isinstance(node, ast.Call) and isinstance(node.func, ast.Attribute) and
                        node.func.attr in MUTATORS):
                    base = _base(node.func.value)
                    if isinstance(base, ast.Name) and base.id in module_names and base.id not in local:
                        entries.add((rel, base.id, f'call.{node.func.attr}@{qual}'))
    if files < 50:
        raise ExtractionError(f'only {files} source files found under {root}')
    return sorted(entries), files


def generate():
    entries, files = scan()
    rows = [f'({lean_str(a)}, {lean_str(b)}, {lean_str(c)})' for a, b, c in entries]
    text = (
        '/- GENERATED by py/extract/module_state.py from weasyprint/**/*.py — do not edit. -/\n\n'
        'namespace Wp.Gen\n\n'
        '/-- `(file, module-level name, how)`: every site inside a function that can change module-level state, and\n'
        'every memoised module-level function / method. -/\n'
        'def moduleState : List (String × String × String) :=\n  [' + ',\n   '.join(rows) + ']\n\n'
        f'def moduleStateFiles : Nat := {files}\n\nend Wp.Gen\n')
    changed = write_if_changed('ModuleState', text)
    return {'table': 'Gen/ModuleState.lean', 'source': 'weasyprint/**/*.py', 'entries': len(rows), 'files': files,
            'changed': changed}
