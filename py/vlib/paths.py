"""Locations. Everything is derived from this file's place so that a snapshot of /verif works too."""
import os
from pathlib import Path

VERIF = Path(__file__).resolve().parents[2]
LEAN = VERIF / 'lean'
GEN = LEAN / 'WpModel' / 'Gen'
PROPS = LEAN / 'WpModel' / 'Props'
WITNESS = LEAN / 'WpModel' / 'Witness'
EVIDENCE = VERIF / 'evidence'
REPLAYS = VERIF / 'replays'
CORPUS = VERIF / 'corpus'
KNOWN_FINDINGS = VERIF / 'known_findings.txt'
REPO = Path(os.environ.get('VERIF_REPO', '/repo'))
GUARD = 'KOZEA_WEASYPRINT_VERIF'
