"""The check protocol of DESIGN.md §2.4, shared by all properties."""
import collections
import json
import os
import random
import sys
import time
import traceback

from . import findings, lean
from .paths import EVIDENCE, GUARD, REPLAYS, VERIF

os.environ.setdefault(GUARD, '1')

BASE_TRUSTED = [
    'Lean 4.33 kernel (theorems re-checked by `lake build`; thorough tier also by leanchecker)',
    'axioms allowed in property theorems: propext, Classical.choice, Quot.sound (audited with #print axioms each run)',
    'py/extract translators (source -> lean/WpModel/Gen/*.lean) and purity of the tabulated finite functions',
    'py/harness correspondence: the hand-written models in lean/WpModel/Model are tied to /repo only on the generated inputs of each run',
    'exact rational arithmetic on the model side; fractions.Fraction / dyadic floats on the implementation side',
]


class Section:
    """One correspondence family: protocol lines, implementation outputs, comparison."""

    def __init__(self, run, name, rule):
        self.run, self.name, self.rule = run, name, rule
        self.lines, self.impl, self.meta, self.nontrivial = [], [], [], []
        self.tags = collections.Counter()
        self.evaluations = 0
        self.distinct = set()
        self.samples = []
        self.disagreements = []

    def add(self, line, impl_out, meta=None, nontrivial=True, tags=()):
        self.lines.append(line)
        self.impl.append(impl_out)
        self.meta.append(meta)
        self.nontrivial.append(nontrivial)
        for tag in tags:
            self.tags[tag] += 1
        if len(self.lines) >= 20000:
            self.flush()

    def flush(self):
        if not self.lines:
            return
        outs = lean.run_driver(self.run.prop.driver, self.lines)
        for line, impl_out, model_out, meta, nontrivial in zip(
                self.lines, self.impl, outs, self.meta, self.nontrivial):
            self.evaluations += 1
            if nontrivial:
                self.distinct.add(hash(line))
            if len(self.samples) < 3 or (len(self.samples) < 8 and self.run.rng_samples.random() < 0.001):
                self.samples.append({'section': self.name, 'input': line[:400], 'impl': impl_out[:300],
                                     'model': model_out[:300]})
            if impl_out != model_out:
                self.disagreements.append({
                    'section': self.name, 'line': line, 'impl': impl_out, 'model': model_out, 'meta': meta})
        self.lines, self.impl, self.meta, self.nontrivial = [], [], [], []


class Run:
    def __init__(self, prop, tier, seed):
        self.prop, self.tier, self.seed = prop, tier, seed
        self.rng = random.Random(f'{prop.id}:{seed}')
        self.rng_samples = random.Random(seed)
        self.sections = []
        self.extra = {}
        self.search_stats = {'evaluations': 0, 'budget_s': 0.0}
        self.notes = []

    @property
    def thorough(self):
        return self.tier == 'thorough'

    def n(self, quick, thorough):
        return thorough if self.thorough else quick

    def section(self, name, rule):
        sec = Section(self, name, rule)
        self.sections.append(sec)
        return sec

    def disagreements(self):
        out = []
        for sec in self.sections:
            sec.flush()
            out.extend(sec.disagreements)
        return out


class PropCheck:
    id = None

    @property
    def driver(self):
        return f'driver_{self.id.lower()}'

    @property
    def driver_root(self):
        return f'Drivers.{self.id}'

    extractors = ()
    modules = ()
    trusted_base = ()
    assumptions = ()

    def correspondence(self, run):
        raise NotImplementedError

    def judge(self, disagreement):
        """Does the implementation's output on this input violate the property itself?  -> str | None"""
        return None

    def search(self, run, failures):
        """Wider search on the implementation for a failing input.  -> list of violation dicts."""
        return []

    def classify(self, disagreement):
        """Finding id (of known_findings.txt) that fully explains this disagreement, or None."""
        return None

    def finding_replays(self):
        """{finding id: callable() -> bool, True when the listed input still fails on the implementation}"""
        return {}

    def replay(self, data):
        """Replay a replay file's input on the implementation; -> str | None (what fails)."""
        return None


def write_replay(prop_id, seed, index, payload):
    REPLAYS.mkdir(exist_ok=True)
    path = REPLAYS / f'{prop_id}-seed{seed}-{index}.json'
    path.write_text(json.dumps(payload, indent=1, default=str))
    return path.relative_to(VERIF)


def run_check(prop, tier, seed):
    start = time.time()
    run = Run(prop, tier, seed)
    failures = []          # broken obligations / extraction / correspondence (not yet violations)
    violations = []        # concrete failing inputs
    infra_error = None

    # 1 regenerate Gen
    generated = []
    for extractor in prop.extractors:
        try:
            generated.append(extractor())
        except Exception as exc:  # ExtractionError or the source no longer importable
            failures.append({'kind': 'extraction', 'name': getattr(extractor, '__module__', str(extractor)),
                             'detail': f'{type(exc).__name__}: {exc}'})

    # 2 build obligations + driver
    modules = list(prop.modules)
    ok_props, out_props, build_s = lean.lake_build(modules)
    if not ok_props:
        failures.append({'kind': 'proof', 'name': ','.join(lean.failing_declarations(out_props)) or 'build',
                         'detail': out_props[-3000:]})
    ok_driver, out_driver, t = lean.lake_build([prop.driver])
    build_s += t
    if not ok_driver:
        failures.append({'kind': 'driver-build', 'name': prop.driver, 'detail': out_driver[-3000:]})

    # 3 audit
    theorems, audit_problems, token_hits = [], [], []
    token_hits = lean.forbidden_tokens(modules + [prop.driver_root])
    if ok_props:
        theorems, audit_problems = lean.audit(prop.id, modules)
    if token_hits or audit_problems:
        infra_error = f'audit: {token_hits + audit_problems}'
    checked_by_leanchecker = None
    if ok_props and tier == 'thorough' and os.environ.get('VERIF_SKIP_LEANCHECKER') != '1':
        ok_lc, out_lc = lean.leanchecker(modules)
        checked_by_leanchecker = ok_lc
        if not ok_lc:
            failures.append({'kind': 'leanchecker', 'name': 'leanchecker', 'detail': out_lc})

    # 4 correspondence
    disagreements = []
    if ok_driver:
        try:
            prop.correspondence(run)
            disagreements = run.disagreements()
        except Exception:
            infra_error = 'harness crashed: ' + traceback.format_exc()[-3000:]
    listed = findings.for_property(prop.id)
    listed_ids = {f['id'] for f in listed}
    known_hits = collections.Counter()
    unexplained = []
    for d in disagreements:
        try:
            fid = prop.classify(d)
        except Exception:
            fid = None
        if fid is not None and fid in listed_ids:
            known_hits[fid] += 1
        else:
            unexplained.append(d)
    for d in unexplained[:200]:
        failures.append({'kind': 'correspondence', 'name': d['section'], 'detail': d})

    # 5 known findings replayed on the implementation
    replays = prop.finding_replays()
    known_seen = []
    for f in listed:
        fn = replays.get(f['id'])
        if fn is None:
            if known_hits.get(f['id']):
                print(f'KNOWN-FINDING: property={prop.id} id={f["id"]} {f["what"]}')
                known_seen.append(f['id'])
            else:
                run.notes.append(f'known finding {f["id"]} has no replay function and was not met in this run')
            continue
        try:
            still = fn()
        except Exception:
            still = True
        if still:
            print(f'KNOWN-FINDING: property={prop.id} id={f["id"]} {f["what"]}')
            known_seen.append(f['id'])
    known_ids = {f['id'] for f in listed}

    # 6 failing-input search
    t_search = time.time()
    if failures:
        seen_sigs = set()
        for failure in failures:
            if failure['kind'] != 'correspondence':
                continue
            try:
                what = prop.judge(failure['detail'])
            except Exception:
                what = None
            run.search_stats['evaluations'] += 1
            if what:
                sig = failure['detail'].get('meta', {}).get('signature') if isinstance(
                    failure['detail'].get('meta'), dict) else None
                sig = sig or failure['detail']['line']
                if sig in seen_sigs:
                    continue
                seen_sigs.add(sig)
                violations.append({'what': what, 'input': failure['detail'], 'signature': sig})
            if len(violations) >= 5:
                break
        if not violations:
            try:
                found = prop.search(run, failures) or []
            except Exception:
                found = []
                run.notes.append('search crashed: ' + traceback.format_exc()[-1500:])
            violations.extend(found)
    run.search_stats['budget_s'] = round(time.time() - t_search, 2)
    violations = [v for v in violations if v.get('finding_id') not in known_ids]

    printed = 0
    if violations:
        for i, v in enumerate(violations[:5]):
            path = write_replay(prop.id, seed, i, {
                'property': prop.id, 'what': v['what'], 'input': v['input'],
                'broken': [{'kind': f['kind'], 'name': f['name']} for f in failures[:20]]})
            print(f'VIOLATION property={prop.id} replay={path}')
            print(f'  what: {str(v["what"])[:600]}')
            detail = v.get('input') or {}
            if isinstance(detail, dict):
                hint = detail.get('line') or (detail.get('meta') or {}).get('html') or detail.get('html') or ''
                if hint:
                    print(f'  input: {str(hint)[:1500]}')
            printed += 1
    elif failures:
        path = write_replay(prop.id, seed, 0, {
            'property': prop.id, 'what': 'proof obligation or correspondence no longer checks; no failing input found',
            'broken': [{'kind': f['kind'], 'name': f['name'],
                        'detail': f['detail'] if isinstance(f['detail'], str) else f['detail']}
                       for f in failures[:20]]})
        print(f'VIOLATION property={prop.id} replay={path} no-failing-input-found')
        printed += 1

    # 7 evidence
    all_thm = theorems
    obligations = len([t for mod in modules for t in lean.theorem_names(mod) if not t['private']])
    discharged = len([t for t in all_thm if t.get('axioms') is not None and
                      set(t['axioms']) <= lean.ALLOWED_AXIOMS]) if ok_props else 0
    evaluations = sum(s.evaluations for s in run.sections)
    distinct = sum(len(s.distinct) for s in run.sections)
    samples = [smp for s in run.sections for smp in s.samples][:12]
    if not samples:
        samples = [{'obligation': t['name']} for t in all_thm[:5]] or [{'note': 'no case explored'}]
    coverage = {
        'obligations': obligations,
        'discharged': discharged,
        'checker_cmd': f'cd lean && lake build {" ".join(modules)} {prop.driver} && lake env lean .audit/{prop.id}.lean',
        'trusted_base': BASE_TRUSTED + list(prop.trusted_base),
        'theorems': [{'name': t['name'], 'axioms': t.get('axioms')} for t in all_thm],
        'generated_tables': generated,
        'evaluations': evaluations,
        'distinct_nontrivial': distinct,
        'rule': ' | '.join(f'{s.name}: {s.rule}' for s in run.sections),
        'samples': samples,
        'correspondence': [{'section': s.name, 'evaluations': s.evaluations,
                            'distinct_nontrivial': len(s.distinct), 'disagreements': len(s.disagreements),
                            'branch_histogram': dict(s.tags.most_common(40))} for s in run.sections],
        'search': run.search_stats,
        'known_findings_seen': known_seen,
        'known_finding_hits': dict(known_hits),
        'broken': [{'kind': f['kind'], 'name': f['name']} for f in failures[:20]],
        'leanchecker_ok': checked_by_leanchecker,
        'build_s': round(build_s, 2),
        'exhaustive': bool(run.extra.get('exhaustive', False)),
    }
    coverage.update({k: v for k, v in run.extra.items() if k != 'exhaustive'})
    if run.notes:
        coverage['notes'] = run.notes
    evidence = {
        'property_id': prop.id, 'tier': tier, 'seed': seed, 'level': 'proof', 'coverage': coverage,
        'assumptions': list(prop.assumptions), 'wall_s': round(time.time() - start, 2),
        'violations': printed,
    }
    EVIDENCE.mkdir(exist_ok=True)
    (EVIDENCE / f'{prop.id}.json').write_text(json.dumps(evidence, indent=1, default=str))

    if printed:
        return 1
    if infra_error:
        print(f'INFRA-ERROR property={prop.id}: {infra_error}', file=sys.stderr)
        return 2
    print(f'OK property={prop.id} tier={tier} seed={seed} obligations={obligations} discharged={discharged} '
          f'correspondence={evaluations} wall={evidence["wall_s"]}s')
    return 0
