"""S-expression wire format shared with lean/WpModel/Model/Wire.lean."""
from fractions import Fraction
import math


def atom(x):
    """Render a Python scalar as an atom."""
    if x is None:
        return 'none'
    if x is True:
        return 'true'
    if x is False:
        return 'false'
    if isinstance(x, str):
        assert x and not any(c in x for c in ' ()\n\t\r'), repr(x)
        return x
    if isinstance(x, int):
        return str(x)
    if isinstance(x, Fraction):
        return str(x.numerator) if x.denominator == 1 else f'{x.numerator}/{x.denominator}'
    if isinstance(x, float):
        if math.isinf(x):
            return 'inf' if x > 0 else '-inf'
        if math.isnan(x):
            return 'nan'
        return atom(Fraction(x))
    raise TypeError(type(x))


def dumps(x):
    if isinstance(x, (list, tuple)):
        return '(' + ' '.join(dumps(y) for y in x) + ')'
    return atom(x)


def line(*items):
    """A protocol line: top-level items separated by spaces."""
    return ' '.join(dumps(i) for i in items)


def tokenize(s):
    out, cur = [], []
    for c in s:
        if c in '()':
            if cur:
                out.append(''.join(cur)); cur = []
            out.append(c)
        elif c in ' \n\t\r':
            if cur:
                out.append(''.join(cur)); cur = []
        else:
            cur.append(c)
    if cur:
        out.append(''.join(cur))
    return out


def loads_line(s):
    """Parse a line into a list of nested lists / atom strings."""
    stack, cur = [], []
    for t in tokenize(s):
        if t == '(':
            stack.append(cur); cur = []
        elif t == ')':
            top = stack.pop(); top.append(cur); cur = top
        else:
            cur.append(t)
    if stack:
        raise ValueError('unbalanced: ' + s)
    return cur


def rat(s):
    """Atom -> Fraction / 'auto' / inf."""
    if s == 'auto':
        return 'auto'
    if s == 'inf':
        return math.inf
    if s == '-inf':
        return -math.inf
    return Fraction(s)
