"""Lean side: locked lake builds, axiom audit, forbidden-token scan, driver process."""
import contextlib
import fcntl
import os
import re
import subprocess
import time

from .paths import LEAN

ALLOWED_AXIOMS = {'propext', 'Classical.choice', 'Quot.sound'}
FORBIDDEN = re.compile(
    r'\bsorry\b|\badmit\b|^\s*axiom\s|native_decide|bv_decide|implemented_by|\bunsafe\s|maxHeartbeats\s+0\b',
    re.M)


@contextlib.contextmanager
def lake_lock():
    """Serialise lake invocations of concurrent checks."""
    path = LEAN / '.lake-verif.lock'
    with open(path, 'w') as handle:
        fcntl.flock(handle, fcntl.LOCK_EX)
        try:
            yield
        finally:
            fcntl.flock(handle, fcntl.LOCK_UN)


def lake_build(targets, timeout=1500):
    """Return (ok, output, seconds)."""
    start = time.time()
    with lake_lock():
        proc = subprocess.run(
            ['lake', 'build', *targets], cwd=LEAN, capture_output=True, text=True, timeout=timeout)
    return proc.returncode == 0, proc.stdout + proc.stderr, time.time() - start


def failing_declarations(output):
    """Extract `file:line:col` of errors from lake output."""
    return sorted(set(re.findall(r'error: (WpModel/[\w/]+\.lean:\d+:\d+)', output)))


def strip_comments(text):
    text = re.sub(r'/-.*?-/', '', text, flags=re.S)
    return re.sub(r'--.*', '', text)


def module_path(module):
    return LEAN / (module.replace('.', '/') + '.lean')


def import_closure(modules):
    """All WpModel.* modules reachable from `modules` (source files inside the project)."""
    seen, todo = [], list(modules)
    while todo:
        mod = todo.pop()
        if mod in seen:
            continue
        path = module_path(mod)
        if not path.exists():
            continue
        seen.append(mod)
        for imp in re.findall(r'^import\s+(WpModel\.[\w.]+)', path.read_text(), flags=re.M):
            todo.append(imp)
    return seen


def forbidden_tokens(modules):
    """Hits of forbidden constructs outside comments, in the import closure."""
    hits = []
    for mod in import_closure(modules):
        text = strip_comments(module_path(mod).read_text())
        for match in FORBIDDEN.finditer(text):
            hits.append(f'{mod}: {match.group(0).strip()}')
    return hits


def theorem_names(module):
    """Fully qualified names of the `theorem`s declared in a module (namespaces tracked)."""
    path = module_path(module)
    if not path.exists():
        return []
    names, stack = [], []
    for line in strip_comments(path.read_text()).splitlines():
        m = re.match(r'\s*namespace\s+([\w.]+)', line)
        if m:
            stack.append(m.group(1))
            continue
        m = re.match(r'\s*end\s+([\w.]+)\s*$', line)
        if m and stack and stack[-1] == m.group(1):
            stack.pop()
            continue
        m = re.match(r'\s*(private\s+|protected\s+)?theorem\s+([\w.\']+)', line)
        if m:
            names.append({'name': '.'.join(stack + [m.group(2)]), 'private': bool(m.group(1) and 'private' in m.group(1)),
                          'module': module})
    return names


def audit(prop_id, modules):
    """`#print axioms` for every public theorem of the given modules.

    Returns (theorems, problems): theorems = [{name, module, axioms}], problems = [str].
    """
    theorems = [t for mod in modules for t in theorem_names(mod) if not t['private']]
    audit_dir = LEAN / '.audit'
    audit_dir.mkdir(exist_ok=True)
    path = audit_dir / f'{prop_id}.lean'
    lines = [f'import {mod}' for mod in modules if module_path(mod).exists()]
    lines += [f'#print axioms {t["name"]}' for t in theorems]
    path.write_text('\n'.join(lines) + '\n')
    with lake_lock():
        proc = subprocess.run(
            ['lake', 'env', 'lean', str(path)], cwd=LEAN, capture_output=True, text=True, timeout=900)
    out = proc.stdout + proc.stderr
    found = {}
    for m in re.finditer(r"'([^']+)' depends on axioms: \[([^\]]*)\]", out, flags=re.S):
        found[m.group(1)] = [a.strip() for a in m.group(2).replace('\n', ' ').split(',') if a.strip()]
    for m in re.finditer(r"'([^']+)' does not depend on any axioms", out):
        found[m.group(1)] = []
    problems = []
    for t in theorems:
        if t['name'] not in found:
            t['axioms'] = None
            problems.append(f'no axiom report for {t["name"]}')
        else:
            t['axioms'] = found[t['name']]
            extra = set(found[t['name']]) - ALLOWED_AXIOMS
            if extra:
                problems.append(f'{t["name"]} depends on {sorted(extra)}')
    if proc.returncode != 0 and not problems:
        problems.append('audit file failed: ' + out[-400:])
    return theorems, problems


def leanchecker(modules, timeout=1500):
    with lake_lock():
        proc = subprocess.run(
            ['lake', 'env', 'leanchecker', *modules], cwd=LEAN, capture_output=True, text=True,
            timeout=timeout)
    return proc.returncode == 0, (proc.stdout + proc.stderr)[-2000:]


def run_driver(exe, lines, timeout=900):
    """Pipe protocol lines to a compiled driver; one output line per input line."""
    if not lines:
        return []
    data = '\n'.join(lines) + '\n'
    path = LEAN / '.lake' / 'build' / 'bin' / exe
    proc = subprocess.run([str(path)], input=data, capture_output=True, text=True, timeout=timeout)
    if proc.returncode != 0:
        raise RuntimeError(f'driver exited {proc.returncode}: {proc.stderr[-500:]}')
    out = proc.stdout.split('\n')
    if out and out[-1] == '':
        out.pop()
    if len(out) != len(lines):
        raise RuntimeError(f'driver returned {len(out)} lines for {len(lines)} commands')
    return out
