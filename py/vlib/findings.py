"""known_findings.txt (committed, never written at run time).

  finding: property=C04 id=<slug> what="..."
  fixed:   property=C04 id=<slug> commit=<sha> what="..."
"""
import re

from .paths import KNOWN_FINDINGS


def load():
    out = []
    if not KNOWN_FINDINGS.exists():
        return out
    for line in KNOWN_FINDINGS.read_text().splitlines():
        line = line.strip()
        if not line or line.startswith('#'):
            continue
        m = re.match(r'(finding|fixed):\s+property=(\S+)\s+id=(\S+)\s+(?:commit=(\S+)\s+)?what="(.*)"$', line)
        if not m:
            raise ValueError(f'known_findings.txt: cannot parse {line!r}')
        out.append({'kind': m.group(1), 'property': m.group(2), 'id': m.group(3),
                    'commit': m.group(4), 'what': m.group(5)})
    return out


def for_property(prop_id, kind='finding'):
    return [f for f in load() if f['property'] == prop_id and f['kind'] == kind]
