#!/venv/bin/python
"""check.py Cxx --tier quick|thorough [--replay path]   (DESIGN.md §2.4)"""
import argparse
import importlib
import json
import os
import sys
from pathlib import Path

sys.path.insert(0, str(Path(__file__).resolve().parent))
sys.path.insert(0, os.environ.get('VERIF_REPO', '/repo'))


def main():
    parser = argparse.ArgumentParser()
    parser.add_argument('prop')
    parser.add_argument('--tier', default=os.environ.get('VERIF_TIER', 'quick'), choices=['quick', 'thorough'])
    parser.add_argument('--replay')
    args = parser.parse_args()
    seed = int(os.environ.get('VERIF_SEED', '0') or 0)
    import logging
    logging.getLogger('weasyprint').setLevel(logging.CRITICAL)
    logging.getLogger('fontTools').setLevel(logging.CRITICAL)
    module = importlib.import_module(f'props.{args.prop.lower()}')
    prop = module.PROP
    if args.replay:
        data = json.loads(Path(args.replay).read_text())
        what = prop.replay(data)
        if what:
            print(f'VIOLATION property={prop.id} replay={args.replay}')
            print(what)
            return 1
        print('replay: the input does not fail on the current tree')
        return 0
    from vlib.framework import run_check
    try:
        return run_check(prop, args.tier, seed)
    except Exception:
        import traceback
        traceback.print_exc()
        return 2


if __name__ == '__main__':
    sys.exit(main())
