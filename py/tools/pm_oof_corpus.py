"""pm_oof_corpus.py [write]: the committed documents of stage 2a (corpus/C01/oof_*.json) — the witness of the open
finding and the regression inputs of the repaired ones. Without argument: check that, on the current tree, the real
layout equals the `pmoof` model on each of them and equals the recorded pagination; with `write`: (re)write the files.
Run with VERIF_REPO=<scratch copy with a repair reverted> to see that the regression inputs catch the old defect."""
import json
import os
import pathlib
import subprocess
import sys
from fractions import Fraction

sys.path.insert(0, str(pathlib.Path(__file__).resolve().parents[1]))
sys.path.insert(0, os.environ.get('VERIF_REPO', '/repo'))
from harness import docs, pm, pm_oof, pm_oof_corr  # noqa: E402

ROOT = pathlib.Path(__file__).resolve().parents[2]


class Ids:
    def __init__(self, start):
        self.n = start - 1

    def __call__(self):
        self.n += 1
        return self.n


def para(nid, n, pos='static', clear=False, line_h=10, **st):
    return dict(kind='para', id=nid(), n=n, lineH=Fraction(line_h), st=pm.default_style(**st), kids=[], pos=pos,
                clear=clear)


def block(nid, kids, pos='static', clear=False, **st):
    return dict(kind='block', id=nid(), st=pm.default_style(**st), kids=kids, pos=pos, clear=clear)


def document(nid, page_h, kids):
    body = block(nid, kids)
    root = block(nid, [body], isRoot=True)
    return dict(pageH=Fraction(page_h), ltr=True, root=root)


def build():
    out = {}
    nid = Ids(1)
    out['oof_lost_at_end'] = dict(
        finding='out-of-flow-lost-at-document-end', witness='Witness.lost_at_document_end (docLostAbs)',
        doc=document(nid, 50, [para(nid, 2), para(nid, 6, 'abs')]))
    nid = Ids(5)
    out['oof_float_duplicated'] = dict(
        fixed='float-fragment-duplicated', commit='cdccac3', regression='Witness.float_fragment_not_duplicated',
        doc=document(nid, 50, [para(nid, 2), para(nid, 6, 'float'), para(nid, 2, brkBefore='avoid')]))
    nid = Ids(10)
    out['oof_abs_survives_abort'] = dict(
        fixed='absolute-placeholder-survives-abort', commit='e3ac9f0',
        regression='Witness.absolute_placeholder_removed_on_abort',
        doc=document(nid, 50, [para(nid, 2), block(nid, [
            para(nid, 6, 'abs'), para(nid, 1, brkAfter='avoid'), para(nid, 3, orphans=3)])]))
    for name in ('oof_abs_survives_abort',):
        # ids as first committed: p 10, abs 11, p 12, p 13, div 14 (the block is numbered after its children)
        d = out[name]['doc']
        div = d['root']['kids'][0]['kids'][1]
        for i, kid in enumerate(div['kids']):
            kid['id'] = 11 + i
        div['id'] = 14
    nid = Ids(20)
    out['oof_zero_height_float'] = dict(
        fixed='(C11) float with a zero-height border box sent to the page origin', commit='50ab141',
        regression='Witness.zero_height_float_stays',
        doc=document(nid, 50, [para(nid, 2), para(nid, 1, 'float', height=Fraction(0)), para(nid, 1)]))
    nid = Ids(30)
    out['oof_float_dropped_by_later_float'] = dict(
        fixed='float-fragment-duplicated', commit='cdccac3', regression='Witness.cut_float_dropped_by_later_float',
        doc=document(nid, 50, [para(nid, 2), para(nid, 6, 'float'), para(nid, 1, 'float', brkBefore='avoid'),
                               para(nid, 1)]))
    nid = Ids(40)
    out['oof_nested_abs_abort'] = dict(
        fixed='absolute-placeholder-survives-abort', commit='e3ac9f0',
        regression='Witness.nested_placeholder_removed_on_abort',
        doc=document(nid, 50, [para(nid, 2), block(nid, [
            block(nid, [para(nid, 6, 'abs'), para(nid, 1)]),
            para(nid, 1, brkBefore='avoid', brkAfter='avoid'), para(nid, 3, orphans=3)]), para(nid, 2)]))
    nid = Ids(50)
    inner = para(nid, 3, 'float')
    outer = block(nid, [inner], 'float', height=Fraction(30))
    first, second = para(nid, 3), para(nid, 2)
    out['oof_nested_float_postponed'] = dict(
        fixed='nested-out-of-flow-in-postponed-float', commit='0d665d0',
        regression='Witness.nested_float_in_postponed_float_not_duplicated',
        doc=document(nid, 70, [first, second, outer]))
    nid = Ids(60)
    out['oof_zero_height_float_inside'] = dict(
        fixed='(C11) zero-height-float-ignores-other-floats', commit='1bc67ce',
        regression='Witness.zero_height_float_avoids_floats',
        doc=document(nid, 50, [para(nid, 3, 'float'), block(nid, [], height=Fraction(10)),
                               para(nid, 1, 'float', height=Fraction(0))]))
    nid = Ids(70)
    kids = [para(nid, 2), para(nid, 1, 'abs'), para(nid, 3)]
    out['oof_earlier_break_cut_block'] = dict(
        fixed='(C03, stage 1) earlier-break-keeps-bottom-decoration', commit='24ce8bf',
        regression='Witness.earlier_break_cuts_bottom_decoration',
        doc=document(nid, 50, [block(nid, kids, pb=Fraction(5), mb=Fraction(3), brkAfter='avoid'), para(nid, 2)]))
    nid = Ids(80)
    inner = block(nid, [], mt=Fraction(20))
    wrapper = block(nid, [inner])
    first = para(nid, 2)
    out['oof_empty_wrapper_page'] = dict(
        finding='wrapper-of-empty-box-opens-empty-page (C03)', witness='Witness.wrapper_of_empty_box_opens_empty_page',
        doc=document(nid, 30, [first, wrapper]))
    return out


def model_lines(lines):
    driver = ROOT / 'lean/.lake/build/bin/driver_s2oof'
    return subprocess.run([str(driver)], input='\n'.join(lines) + '\n', capture_output=True,
                          text=True).stdout.split('\n')


def main():
    docs.quiet()
    write = len(sys.argv) > 1 and sys.argv[1] == 'write'
    entries = build()
    models = model_lines([pm_oof.doc_line(e['doc']) for e in entries.values()])
    bad = 0
    for (name, entry), model in zip(entries.items(), models):
        doc = entry['doc']
        real = pm_oof_corr.real_line(doc)
        path = ROOT / 'corpus' / 'C01' / f'{name}.json'
        old = json.loads(path.read_text()) if path.exists() else {}
        violation = pm_oof_corr.conservation_violation(doc, real) or pm_oof_corr.progress_violation(doc, real)
        dup = pm_oof_corr.duplication_violation(doc, real)
        status = 'ok' if real == model else 'REAL != MODEL'
        if old and old.get('implementation') != real:
            status += ' (pagination differs from the recorded one)'
        if real != model or (old and old.get('implementation') != real):
            bad += 1
        print(f'{name}: {status}; conservation: {violation}; duplication: {dup}')
        if real != model:
            print('  REAL ', real)
            print('  MODEL', model)
        if write:
            data = {k: v for k, v in entry.items() if k != 'doc'}
            data.update(doc=pm_oof_corr.doc_json(doc), html=pm_oof.doc_html(doc), line=pm_oof.doc_line(doc),
                        implementation=real, violation=violation)
            if 'fixed' in entry and old.get('finding'):
                data['violation_before_repair'] = old['violation']
                data['implementation_before_repair'] = old['implementation']
            elif old.get('violation_before_repair'):
                data['violation_before_repair'] = old['violation_before_repair']
                data['implementation_before_repair'] = old.get('implementation_before_repair')
            path.write_text(json.dumps(data, indent=1) + '\n')
    print('bad', bad, 'of', len(entries))
    return 1 if bad else 0


if __name__ == '__main__':
    sys.exit(main())
