#!/usr/bin/env python3
"""self_mutate.py <file with mutations> <props...>: apply each textual mutation to a scratch copy of /repo/weasyprint
(never to /repo), run the quick checks against it (VERIF_REPO), print which check caught it and how.

Mutation file: python literal list of (name, relative file, old text, new text)."""
import ast
import json
import os
import shutil
import subprocess
import sys
from concurrent.futures import ThreadPoolExecutor
from pathlib import Path
from queue import Queue

VERIF = Path(__file__).resolve().parents[2]
WORKERS = 4
pool = Queue()
for i in range(WORKERS):
    copy = Path(f'/tmp/lead/verif-{i}')
    copy.parent.mkdir(parents=True, exist_ok=True)
    subprocess.run(['rsync', '-a', '--delete', '--exclude', '.git', '--exclude', 'seeded', f'{VERIF}/', f'{copy}/'],
                   check=True)
    pool.put(copy)
mutations = ast.literal_eval(Path(sys.argv[1]).read_text())
props = sys.argv[2:]
only = os.environ.get('ONLY')


def one(mutation):
    name, rel, old, new = mutation
    scratch = Path(f'/tmp/lead/mut-{name}')
    shutil.rmtree(scratch, ignore_errors=True)
    scratch.mkdir(parents=True)
    shutil.copytree('/repo/weasyprint', scratch / 'weasyprint')
    shutil.copytree('/repo/tests', scratch / 'tests')
    path = scratch / rel
    text = path.read_text()
    if text.count(old) != 1:
        shutil.rmtree(scratch)
        return name, f'pattern occurs {text.count(old)} times'
    path.write_text(text.replace(old, new))
    out = {}
    copy = pool.get()
    try:
        for prop in props:
            env = dict(os.environ, VERIF_REPO=str(scratch))
            proc = subprocess.run(['/venv/bin/python', str(copy / 'py/check.py'), prop, '--tier', 'quick'],
                                  capture_output=True, text=True, env=env, cwd=copy)
            lines = [l for l in proc.stdout.splitlines() if l.startswith(('VIOLATION', '  what:'))]
            out[prop] = (proc.returncode, lines[:2])
    finally:
        pool.put(copy)
        shutil.rmtree(scratch)
    return name, out


with ThreadPoolExecutor(WORKERS) as ex:
    for name, out in ex.map(one, [m for m in mutations if not only or m[0] in only.split(',')]):
        if isinstance(out, str):
            print(f'{name}: {out}')
            continue
        caught = [p for p, (rc, _) in out.items() if rc == 1]
        print(f'{name}: caught by {caught or "NONE"}')
        for p, (rc, lines) in out.items():
            if rc not in (0, 1):
                print(f'   {p}: exit {rc}')
            for l in lines:
                print(f'   {p}: {l[:200]}')
        sys.stdout.flush()
