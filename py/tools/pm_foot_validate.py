"""pm_foot_validate.py <seed> <count> [show] — footnote pagination model vs the real layout."""
import collections
import pathlib
import random
import subprocess
import sys

sys.path.insert(0, str(pathlib.Path(__file__).resolve().parents[1]))
from harness import docs, pm_foot, pm_foot_corr  # noqa: E402

docs.quiet()
seed = int(sys.argv[1]) if len(sys.argv) > 1 else 0
n = int(sys.argv[2]) if len(sys.argv) > 2 else 20
show = int(sys.argv[3]) if len(sys.argv) > 3 else 1
rng = random.Random(seed)
ds, lines, reals = [], [], []
for _ in range(n):
    d = pm_foot.gen_doc(rng)
    ds.append(d)
    lines.append(pm_foot.doc_line(d))
    reals.append(pm_foot_corr.real_line(d))
exe = pathlib.Path(__file__).resolve().parents[2] / 'lean/.lake/build/bin/driver_s2foot'
out = subprocess.run([str(exe)], input='\n'.join(lines) + '\n', capture_output=True, text=True).stdout.split('\n')
bad = 0
judged = collections.Counter()
raised = collections.Counter()
for d, l, r, m in zip(ds, lines, reals, out):
    for name, judge in (('conservation', pm_foot_corr.conservation_violation),
                        ('progress', pm_foot_corr.progress_violation),
                        ('overlap', pm_foot_corr.overlap_violation)):
        v = judge(d, r)
        if v:
            judged[name + ': ' + v.split(' ')[0] + ' ' + ' '.join(v.split(' ')[1:3])[:30]] += 1
    if r.startswith('err:') and r != 'err:pagination':
        raised[r] += 1          # outside the modelled functions (left to C02, as in pm_corr.add_cases)
        continue
    if r != m:
        bad += 1
        if bad <= show:
            print('DOC', pm_foot.doc_html(d))
            print('LINE', l)
            print('REAL ', r)
            print('MODEL', m)
print('bad', bad, 'of', n - sum(raised.values()), '(implementation raised outside the model:', dict(raised), ')')
print(collections.Counter(r.split('@')[0] if r.startswith('err') else 'pages' for r in reals).most_common(6))
print(sorted(collections.Counter(r.count('(page') for r in reals).items()))
print('clause violations on the implementation output:', dict(judged))
