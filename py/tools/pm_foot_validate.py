"""pm_foot_validate.py <seed> <count> [show] — footnote pagination model vs the real layout.

The stored footnote documents (corpus) and the deterministic family come first, then <count> generated documents
(`VERIF_SEED`-independent: seeded by <seed>).  `VERIF_REPO=<tree>` runs the real layout of another tree (a seeded
regression): the tool then also says how many disagreements are judged clause violations (a concrete failing input).
"""
import collections
import os
import pathlib
import random
import subprocess
import sys

sys.path.insert(0, os.environ.get('VERIF_REPO', '/repo'))
sys.path.insert(0, str(pathlib.Path(__file__).resolve().parents[1]))
from harness import docs, pm_foot, pm_foot_corr  # noqa: E402

docs.quiet()
seed = int(sys.argv[1]) if len(sys.argv) > 1 else 0
n = int(sys.argv[2]) if len(sys.argv) > 2 else 20
show = int(sys.argv[3]) if len(sys.argv) > 3 else 1
rng = random.Random(seed)
names, ds, lines, reals = [], [], [], []
fixed = pm_foot_corr.corpus_docs() + pm_foot.family_docs(thorough=n >= 1000)
for index in range(len(fixed) + n):
    name, d = fixed[index] if index < len(fixed) else (None, pm_foot.gen_doc(rng))
    names.append(name)
    ds.append(d)
    lines.append(pm_foot.doc_line(d))
    reals.append(pm_foot_corr.real_line(d))
exe = pathlib.Path(__file__).resolve().parents[2] / 'lean/.lake/build/bin/driver_s2foot'
out = subprocess.run([str(exe)], input='\n'.join(lines) + '\n', capture_output=True, text=True).stdout.split('\n')
bad = 0
bad_fixed = []
judged = collections.Counter()
judged_bad = 0
raised = collections.Counter()
JUDGES = (('conservation', pm_foot_corr.conservation_violation), ('progress', pm_foot_corr.progress_violation),
          ('overlap', pm_foot_corr.overlap_violation))
for name, d, l, r, m in zip(names, ds, lines, reals, out):
    violations = []
    for jname, judge in JUDGES:
        v = judge(d, r)
        if v:
            violations.append(v)
            judged[jname + ': ' + v.split(' ')[0] + ' ' + ' '.join(v.split(' ')[1:3])[:30]] += 1
    if r.startswith('err:') and r != 'err:pagination':
        raised[r] += 1          # outside the modelled functions (left to C02, as in pm_corr.add_cases)
        continue
    if r != m:
        bad += 1
        judged_bad += bool(violations)
        if name is not None:
            bad_fixed.append(name)
        if bad <= show:
            print('DOC', name or '', pm_foot.doc_html(d))
            print('LINE', l)
            print('REAL ', r)
            print('MODEL', m)
            print('JUDGED', violations)
print('bad', bad, 'of', len(ds) - sum(raised.values()), '(implementation raised outside the model:', dict(raised), ')')
print('disagreements judged clause violations (concrete failing inputs):', judged_bad,
      '; among the', len(fixed), 'corpus/family documents:', bad_fixed[:12])
print(collections.Counter(r.split('@')[0] if r.startswith('err') else 'pages' for r in reals).most_common(6))
print(sorted(collections.Counter(r.count('(page') for r in reals).items()))
print('clause violations on the implementation output:', dict(judged))
