#!/usr/bin/env python3
"""merge_round.py <builder dir> <marker file>: copy into /verif every file the builder changed after <marker>
(mtime), refusing files that were also changed in /verif since then; union-merge the shared lists
(lean/WpModel.lean imports, lakefile exes, known_findings.txt lines)."""
import re
import shutil
import sys
from pathlib import Path

VERIF = Path('/verif')
src = Path(sys.argv[1])
marker = Path(sys.argv[2]).stat().st_mtime
SKIP_DIRS = {'.lake', 'evidence', 'replays', '__pycache__', '.audit', 'seeded', '.git', 'out'}
SHARED = {'lean/WpModel.lean', 'lean/lakefile.toml', 'known_findings.txt', 'MANIFEST.json', 'DESIGN.md',
          'py/registry.py', 'lean/lake-manifest.json'}

copied, conflicts = [], []
for path in sorted(src.rglob('*')):
    if not path.is_file() or SKIP_DIRS & set(path.relative_to(src).parts):
        continue
    rel = str(path.relative_to(src))
    if rel in SHARED or path.stat().st_mtime <= marker:
        continue
    dest = VERIF / rel
    if dest.exists() and dest.read_bytes() == path.read_bytes():
        continue
    if dest.exists() and dest.stat().st_mtime > marker and '--force' not in sys.argv:
        # changed on both sides since the marker?  compare with git HEAD at marker time is not available: report
        conflicts.append(rel)
        continue
    dest.parent.mkdir(parents=True, exist_ok=True)
    shutil.copy2(path, dest)
    copied.append(rel)

# imports
mine = (VERIF / 'lean/WpModel.lean').read_text()
theirs = (src / 'lean/WpModel.lean').read_text()
new_imports = [l for l in theirs.splitlines() if l.startswith('import ') and l not in mine.splitlines()]
if new_imports:
    (VERIF / 'lean/WpModel.lean').write_text(mine.rstrip('\n') + '\n' + '\n'.join(new_imports) + '\n')
# lakefile exes
mine = (VERIF / 'lean/lakefile.toml').read_text()
theirs = (src / 'lean/lakefile.toml').read_text()
for block in re.findall(r'\[\[lean_exe\]\]\nname = "([^"]+)"\nroot = "([^"]+)"', theirs):
    if f'name = "{block[0]}"' not in mine:
        mine += f'\n[[lean_exe]]\nname = "{block[0]}"\nroot = "{block[1]}"\n'
        print('new exe', block[0])
(VERIF / 'lean/lakefile.toml').write_text(mine)
# findings: three-way by (kind, property, id) against the list the builder started from (--base <file>, default: git HEAD)
def key(line):
    m = re.match(r'(finding|fixed):\s+property=(\S+) (?:id=(\S+))?', line)
    return (m.group(1), m.group(2), m.group(3)) if m else None
import subprocess
if '--base' in sys.argv:
    base_text = Path(sys.argv[sys.argv.index('--base') + 1]).read_text()
else:
    base_text = subprocess.run(['git', '-C', str(VERIF), 'show', 'HEAD:known_findings.txt'], capture_output=True, text=True).stdout
base = {key(l): l for l in base_text.splitlines() if key(l)}
theirs_k = {key(l): l for l in (src / 'known_findings.txt').read_text().splitlines() if key(l)}
mine_lines = (VERIF / 'known_findings.txt').read_text().splitlines()
added = changed = removed = 0
gone = {k for k in base if k not in theirs_k}
kept = []
for l in mine_lines:
    if key(l) in gone:
        removed += 1
        continue
    kept.append(l)
mine_lines = kept
index = {key(l): i for i, l in enumerate(mine_lines) if key(l)}
for k, line in theirs_k.items():
    if base.get(k) == line:
        continue
    if k in index:
        if mine_lines[index[k]] != line:
            mine_lines[index[k]] = line
            changed += 1
    else:
        mine_lines.append(line)
        added += 1
(VERIF / 'known_findings.txt').write_text('\n'.join(mine_lines) + '\n')
print(f'copied {len(copied)}:', *copied, sep='\n  ')
print(f'imports +{len(new_imports)}; findings +{added} ~{changed} -{removed}')
if conflicts:
    print('CONFLICTS (changed in /verif after the marker too; merge by hand or --force):', *conflicts, sep='\n  ')
