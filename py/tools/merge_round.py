#!/usr/bin/env python3
"""merge_round.py <builder dir> <marker file>: copy into /verif every file the builder changed after <marker>
(mtime), refusing files that were also changed in /verif since then; union-merge the shared lists
(lean/WpModel.lean imports, lakefile exes, known_findings.txt lines)."""
import re
import shutil
import sys
from pathlib import Path

VERIF = Path('/verif')
src = Path(sys.argv[1])
marker = Path(sys.argv[2]).stat().st_mtime
SKIP_DIRS = {'.lake', 'evidence', 'replays', '__pycache__', '.audit', 'seeded', '.git', 'out'}
SHARED = {'lean/WpModel.lean', 'lean/lakefile.toml', 'known_findings.txt', 'MANIFEST.json', 'DESIGN.md',
          'py/registry.py', 'lean/lake-manifest.json'}

copied, conflicts = [], []
for path in sorted(src.rglob('*')):
    if not path.is_file() or SKIP_DIRS & set(path.relative_to(src).parts):
        continue
    rel = str(path.relative_to(src))
    if rel in SHARED or path.stat().st_mtime <= marker:
        continue
    dest = VERIF / rel
    if dest.exists() and dest.read_bytes() == path.read_bytes():
        continue
    if dest.exists() and dest.stat().st_mtime > marker and '--force' not in sys.argv:
        # changed on both sides since the marker?  compare with git HEAD at marker time is not available: report
        conflicts.append(rel)
        continue
    dest.parent.mkdir(parents=True, exist_ok=True)
    shutil.copy2(path, dest)
    copied.append(rel)

# imports
mine = (VERIF / 'lean/WpModel.lean').read_text()
theirs = (src / 'lean/WpModel.lean').read_text()
new_imports = [l for l in theirs.splitlines() if l.startswith('import ') and l not in mine.splitlines()]
if new_imports:
    (VERIF / 'lean/WpModel.lean').write_text(mine.rstrip('\n') + '\n' + '\n'.join(new_imports) + '\n')
# lakefile exes
mine = (VERIF / 'lean/lakefile.toml').read_text()
theirs = (src / 'lean/lakefile.toml').read_text()
for block in re.findall(r'\[\[lean_exe\]\]\nname = "([^"]+)"\nroot = "([^"]+)"', theirs):
    if f'name = "{block[0]}"' not in mine:
        mine += f'\n[[lean_exe]]\nname = "{block[0]}"\nroot = "{block[1]}"\n'
        print('new exe', block[0])
(VERIF / 'lean/lakefile.toml').write_text(mine)
# findings: by (property, id)
def key(line):
    m = re.match(r'(finding|fixed): property=(\S+) (?:id=(\S+))?', line)
    return (m.group(1), m.group(2), m.group(3)) if m else None
mine_lines = (VERIF / 'known_findings.txt').read_text().splitlines()
index = {key(l): i for i, l in enumerate(mine_lines) if key(l)}
added = changed = 0
for line in (src / 'known_findings.txt').read_text().splitlines():
    k = key(line)
    if not k or k[0] != 'finding':
        continue
    if k in index:
        if mine_lines[index[k]] != line:
            mine_lines[index[k]] = line
            changed += 1
    else:
        mine_lines.append(line)
        added += 1
(VERIF / 'known_findings.txt').write_text('\n'.join(mine_lines) + '\n')
their_keys = {key(l) for l in (src / 'known_findings.txt').read_text().splitlines() if key(l)}
print(f'copied {len(copied)}:', *copied, sep='\n  ')
print(f'imports +{len(new_imports)}; findings +{added} ~{changed}')
if conflicts:
    print('CONFLICTS (changed in /verif after the marker too; merge by hand or --force):', *conflicts, sep='\n  ')
