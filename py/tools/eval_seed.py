#!/usr/bin/env python3
"""Evaluate a seeded change: eval_seed.py <dir with patch.diff, demo.py> <prop> [more props] [--suite] [--tier T]

Uses a scratch worktree of /repo (never /repo itself) and VERIF_REPO; removes the worktree afterwards.
"""
import json
import os
import shutil
import subprocess
import sys
import tempfile
from pathlib import Path

VERIF = Path(__file__).resolve().parents[2]
args = [a for a in sys.argv[1:] if not a.startswith('--')]
flags = [a for a in sys.argv[1:] if a.startswith('--')]
seed_dir = Path(args[0]).resolve()
props = args[1:]
tier = 'quick'
for f in flags:
    if f.startswith('--tier='):
        tier = f.split('=', 1)[1]
wt = Path(tempfile.mkdtemp(prefix='evalwt-', dir='/tmp'))
wt.rmdir()
result = {'seed': str(seed_dir), 'checks': {}}
try:
    subprocess.run(['git', '-C', '/repo', 'worktree', 'add', '--detach', str(wt), 'HEAD'], check=True,
                   capture_output=True)

    def demo():
        proc = subprocess.run(['/venv/bin/python', str(seed_dir / 'demo.py')], cwd=wt, capture_output=True,
                              text=True, timeout=600)
        return proc.returncode

    result['demo_clean'] = demo()
    ap = subprocess.run(['git', '-C', str(wt), 'apply', str(seed_dir / 'patch.diff')], capture_output=True, text=True)
    result['apply'] = ap.returncode
    if ap.returncode == 0:
        result['demo_mutated'] = demo()
        if '--suite' in flags:
            proc = subprocess.run(['/venv/bin/python', '/tmp/seed/tools/run_suite.py', str(wt)], capture_output=True,
                                  text=True, timeout=1800)
            result['suite'] = proc.stdout.strip().splitlines()[-1] if proc.returncode == 0 else proc.stdout[-600:]
        env = dict(os.environ, VERIF_REPO=str(wt))
        for prop in props:
            proc = subprocess.run(['/venv/bin/python', 'py/check.py', prop, '--tier', tier], cwd=VERIF, env=env,
                                  capture_output=True, text=True, timeout=3600)
            lines = [l for l in proc.stdout.splitlines() if l.startswith('VIOLATION')]
            what = None
            if lines and 'replay=' in lines[0]:
                rp = VERIF / lines[0].split('replay=')[1].split()[0]
                try:
                    what = json.loads(rp.read_text()).get('what')
                except Exception:
                    what = None
            result['checks'][prop] = {'exit': proc.returncode, 'violations': lines[:3], 'what': what,
                                      'stderr': proc.stderr[-300:] if proc.returncode == 2 else ''}
    else:
        result['apply_err'] = ap.stderr[-300:]
finally:
    subprocess.run(['git', '-C', '/repo', 'worktree', 'remove', '--force', str(wt)], capture_output=True)
    shutil.rmtree(wt, ignore_errors=True)
    # restore Gen tables to the real tree's
    subprocess.run(['/venv/bin/python', 'py/setup.py'], cwd=VERIF, capture_output=True)
print(json.dumps(result, indent=1))
