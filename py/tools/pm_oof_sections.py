"""pm_oof_sections.py <quick|thorough> <seed> [C01,C02,C03] [faithful|fast]: run only the pm-oof-* sections of C01,
C02, C03 the way check.py does (same Run object, same driver, same judges) and print disagreements and verdicts.
`faithful` (default for quick) first draws the stage-1 documents that precede the section in the property's
correspondence, so that `run.rng` is in the state it has in the real check; `fast` (default for thorough) skips that.
Exit 1 when a disagreement is judged a violation, 3 when there are disagreements without a judged violation."""
import os
import pathlib
import sys
import time

sys.path.insert(0, str(pathlib.Path(__file__).resolve().parents[1]))
sys.path.insert(0, os.environ.get('VERIF_REPO', '/repo'))     # a scratch copy with a mutation, for self-tests
from harness import docs, pm_corr, pm_oof_corr  # noqa: E402
from vlib import framework  # noqa: E402


class Dummy:
    """Section that swallows the stage-1 cases (only the random draws matter)."""
    def __init__(self):
        import collections
        self.tags = collections.Counter()

    def add(self, *args, **kwargs):
        pass


def main():
    tier = sys.argv[1] if len(sys.argv) > 1 else 'quick'
    seed = int(sys.argv[2]) if len(sys.argv) > 2 else 0
    pids = (sys.argv[3] if len(sys.argv) > 3 else 'C01,C02,C03').split(',')
    mode = sys.argv[4] if len(sys.argv) > 4 else ('faithful' if tier == 'quick' else 'fast')
    docs.quiet()
    status = 0
    for pid in pids:
        module = __import__(f'props.{pid.lower()}', fromlist=['PROP'])
        prop = module.PROP
        run = framework.Run(prop, tier, seed)
        start = time.time()
        if mode == 'faithful':
            if pid == 'C02':
                pm_corr.add_cases(run, Dummy(), run.n(120, 3000), skip_errors=False)
                pm_corr.add_cases(run, Dummy(), run.n(120, 3000), gen=module.adversarial_doc, skip_errors=False)
            else:
                pm_corr.add_cases(run, Dummy(), run.n(250, 6000))
        if pid == 'C02':
            sec = run.section('pm-oof-outcomes', '')
            pm_oof_corr.add_cases(run, sec, run.n(80, 2500), skip_errors=False)
        else:
            sec = run.section('pm-oof-documents', '')
            pm_oof_corr.add_cases(run, sec, run.n(120, 4000))
        disagreements = run.disagreements()
        judged = []
        for d in disagreements:
            if prop.classify(d):
                continue
            what = prop.judge(d)
            if what:
                judged.append((what, d))
        print(f'{pid} seed={seed} {tier}/{mode}: {sec.evaluations} cases, {len(sec.distinct)} non-trivial, '
              f'{len(disagreements)} disagreements, {len(judged)} judged violations, '
              f'{sec.tags["implementation raised (left to C02)"]} skipped errors, {time.time() - start:.1f}s')
        for what, d in judged[:3]:
            print('  VIOLATION', what[:300])
            print('   ', d['line'][:600])
        if disagreements and not judged:
            d = disagreements[0]
            print('  first disagreement (not judged a violation):', d['line'][:600])
            a, b = d['impl'].split(' (page '), d['model'].split(' (page ')
            for i, (x, y) in enumerate(zip(a, b)):
                if x != y:
                    print('   page', i, 'REAL ', x[:500])
                    print('   page', i, 'MODEL', y[:500])
                    break
            else:
                print('   REAL ', d['impl'][-400:])
                print('   MODEL', d['model'][-400:])
        if judged:
            status = 1
        elif disagreements and status == 0:
            status = 3
        tags = sec.tags
        print('  tags:', ', '.join(f'{k}={v}' for k, v in tags.most_common(60)))
    return status


if __name__ == '__main__':
    sys.exit(main())
