import sys, random, subprocess; sys.path.insert(0, str(__import__('pathlib').Path(__file__).resolve().parents[1]))
from harness import docs, pm
docs.quiet()
seed = int(sys.argv[1]) if len(sys.argv)>1 else 0
n = int(sys.argv[2]) if len(sys.argv)>2 else 20
rng = random.Random(seed)
lines=[]; reals=[]; ds=[]
for _ in range(n):
    d = pm.gen_doc(rng); ds.append(d)
    lines.append(pm.doc_line(d))
    try: reals.append(pm.run_real(d))
    except Exception as e:
        import traceback; reals.append('err:'+type(e).__name__+' '+str(e)[:100])
out = subprocess.run([str(__import__('pathlib').Path(__file__).resolve().parents[2] / 'lean/.lake/build/bin/driver_c01')], input='\n'.join(lines)+'\n', capture_output=True, text=True).stdout.split('\n')
bad=0
for d,l,r,m in zip(ds,lines,reals,out):
    if r!=m:
        bad+=1
        if bad<=int(sys.argv[3] if len(sys.argv)>3 else 1):
            print('DOC', pm.doc_html(d)); print('LINE', l); print('REAL ', r); print('MODEL', m)
print('bad', bad, 'of', n)
import collections
print(collections.Counter(r[:14] for r in reals).most_common(5))
print(collections.Counter(r.count('(page') for r in reals))
print(reals[3][:600])
