"""pm_oof_validate.py <seed> <count> [show] [mode]: the real layout against the `pmoof` model on generated documents."""
import collections
import os
import pathlib
import random
import subprocess
import sys

sys.path.insert(0, str(pathlib.Path(__file__).resolve().parents[1]))
sys.path.insert(0, os.environ.get('VERIF_REPO', '/repo'))     # a scratch copy with a mutation, for self-tests
from harness import docs, pm_oof, pm_oof_corr  # noqa: E402

docs.quiet()
seed = int(sys.argv[1]) if len(sys.argv) > 1 else 0
count = int(sys.argv[2]) if len(sys.argv) > 2 else 20
show = int(sys.argv[3]) if len(sys.argv) > 3 else 1
mode = sys.argv[4] if len(sys.argv) > 4 else 'mixed'
rng = random.Random(seed)
lines, reals, documents = [], [], []
for _ in range(count):
    doc = pm_oof.gen_doc(rng, mode=mode)
    documents.append(doc)
    lines.append(pm_oof.doc_line(doc))
    reals.append(pm_oof_corr.real_line(doc))
driver = pathlib.Path(__file__).resolve().parents[2] / 'lean/.lake/build/bin/driver_s2oof'
out = subprocess.run([str(driver)], input='\n'.join(lines) + '\n', capture_output=True, text=True).stdout.split('\n')
bad = 0
for doc, line, real, model in zip(documents, lines, reals, out):
    if real != model:
        bad += 1
        if bad <= show:
            print('DOC', pm_oof.doc_html(doc))
            print('LINE', line)
            a, b = real.split(' (page '), model.split(' (page ')
            for i, (x, y) in enumerate(zip(a, b)):
                if x != y:
                    print('first differing page', i)
                    print('REAL ', x)
                    print('MODEL', y)
                    break
            else:
                print('REAL ', real[-600:])
                print('MODEL', model[-600:])
print('bad', bad, 'of', count)
# the oracles on the implementation's own output (what they flag on the unchanged tree is a finding or noise)
flagged = collections.Counter()
for doc, real in zip(documents, reals):
    for name, oracle in (('fit', pm_oof_corr.fit_violation), ('progress', pm_oof_corr.progress_violation),
                         ('conservation', pm_oof_corr.conservation_violation)):
        what = oracle(doc, real)
        if what:
            flagged[name] += 1
            if flagged[name] <= (2 if name != 'conservation' else 0):
                print('ORACLE', name, what)
                print('  LINE', pm_oof.doc_line(doc))
print('oracles flag on the real outputs:', dict(flagged))
print(collections.Counter(r[:16] if r.startswith('err') else 'pages' for r in reals).most_common(6))
print('pages', sorted(collections.Counter(r.count('(page ') for r in reals).items()))
print('cut out-of-flow', sum('(bk (' in r for r in reals), 'ph', sum('(ph ' in r for r in reals))
