#!/usr/bin/env python3
"""Merge a builder's isolated copy (/tmp/w/Cxx/verif) into /verif: new files only, plus registry lines."""
import filecmp
import re
import shutil
import sys
from pathlib import Path

pid = sys.argv[1]
src = Path(f'/tmp/w/{pid}/verif')
dst = Path('/verif')
SKIP_DIRS = {'.lake', '.audit', '__pycache__', 'evidence', 'replays', '.git'}
conflicts, copied = [], []
for path in src.rglob('*'):
    if path.is_dir() or any(part in SKIP_DIRS for part in path.parts):
        continue
    rel = path.relative_to(src)
    if rel.as_posix() in ('lean/lakefile.toml', 'lean/WpModel.lean', 'py/registry.py', 'known_findings.txt',
                          'MANIFEST.json', 'lean/lake-manifest.json', 'lean/.lake-verif.lock') or rel.suffix in ('.pyc', '.tmp'):
        continue
    target = dst / rel
    if target.exists():
        if not filecmp.cmp(path, target, shallow=False):
            conflicts.append(rel.as_posix())
        continue
    target.parent.mkdir(parents=True, exist_ok=True)
    shutil.copy2(path, target)
    copied.append(rel.as_posix())

# lakefile: exe entries
lake_src = (src / 'lean/lakefile.toml').read_text()
lake_dst = (dst / 'lean/lakefile.toml').read_text()
for m in re.finditer(r'\[\[lean_exe\]\]\nname = "([^"]+)"\nroot = "([^"]+)"\n', lake_src):
    if f'name = "{m.group(1)}"' not in lake_dst:
        lake_dst += '\n' + m.group(0)
(dst / 'lean/lakefile.toml').write_text(lake_dst)
# root imports
root_src = (src / 'lean/WpModel.lean').read_text().splitlines()
root_dst = (dst / 'lean/WpModel.lean').read_text().splitlines()
for line in root_src:
    if line.startswith('import ') and line not in root_dst:
        root_dst.append(line)
(dst / 'lean/WpModel.lean').write_text('\n'.join(root_dst) + '\n')
# known findings of this property
kf_dst = (dst / 'known_findings.txt').read_text()
for line in (src / 'known_findings.txt').read_text().splitlines():
    if line.strip() and not line.startswith('#') and line not in kf_dst and f'property={pid} ' in line:
        kf_dst += line + '\n'
(dst / 'known_findings.txt').write_text(kf_dst)
# registry
reg = (dst / 'py/registry.py').read_text()
m = re.search(r"PROPS = \[(.*?)\]", reg)
props = [p.strip().strip("'") for p in m.group(1).split(',') if p.strip()]
if pid not in props:
    props = sorted(props + [pid])
    reg = reg.replace(m.group(0), 'PROPS = [' + ', '.join(repr(p) for p in props) + ']')
    (dst / 'py/registry.py').write_text(reg)
print('copied', len(copied))
for c in copied:
    print('  +', c)
print('CONFLICTS (existing file differs, left untouched):', conflicts)
