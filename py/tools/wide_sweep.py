"""Sweep the wide-grammar trace validation over many seeds; print unexplained rejections (development tool)."""
import collections
import random
import subprocess
import sys
from pathlib import Path
ROOT = Path(__file__).resolve().parents[1]
sys.path.insert(0, str(ROOT))
sys.path.insert(0, '/repo')
from harness import docs, wide_trace  # noqa: E402
docs.quiet()
seeds = range(int(sys.argv[1]), int(sys.argv[2]))
n = int(sys.argv[3])
driver = str(ROOT.parent / 'lean/.lake/build/bin/driver_c01')
total = collections.Counter()
for seed in seeds:
    rng = random.Random(f'sweep:{seed}')
    lines, metas = [], []
    for _ in range(n):
        line, meta, _ = wide_trace.conserve_case(rng)
        if line:
            lines.append(line); metas.append(meta)
        else:
            total['render-error ' + meta['error']] += 1
        for l, m, _ in wide_trace.fits_cases(rng):
            if l:
                lines.append(l); metas.append(m)
    out = subprocess.run([driver], input='\n'.join(lines) + '\n', capture_output=True, text=True).stdout.split('\n')
    for l, m, o in zip(lines, metas, out):
        kind = l.split()[0]
        if o == 'ok':
            total[kind + ' ok'] += 1
        elif kind == 'conserve':
            e = wide_trace.explain(m, o)
            total['conserve ' + str(e)] += 1
            if e is None:
                print('UNEXPLAINED seed', seed, o, wide_trace.conserve_violation(m, o)); print(m['html']); print(m['pages'])
        else:
            total['fits bad'] += 1
            print('FITS seed', seed, o, m['bottom'], m['items'][:8]); print(m['html'])
print(dict(total))
