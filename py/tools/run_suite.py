"""Run the pinned suite (guard off) and compare the passing set with BASELINE.json's stable_pass."""
import ast
import json
import os
import subprocess
import sys
import tempfile
import xml.etree.ElementTree as ET

base = json.load(open('/root/.vp/BASELINE.json'))
stable = base['stable_pass']
if isinstance(stable, str):
    stable = ast.literal_eval(stable)
stable = set(stable)
jobs = sys.argv[1] if len(sys.argv) > 1 else '12'
env = dict(os.environ)
env.pop('KOZEA_WEASYPRINT_VERIF', None)
with tempfile.TemporaryDirectory() as tmp:
    xml = os.path.join(tmp, 'junit.xml')
    cmd = ['/venv/bin/python', '-m', 'pytest', '-q', '-p', 'no:cacheprovider', '--timeout=900',
           '--continue-on-collection-errors', f'--junitxml={xml}', '-n', jobs]
    proc = subprocess.run(cmd, cwd='/repo', env=env, capture_output=True, text=True)
    print(proc.stdout.splitlines()[-1] if proc.stdout else proc.stderr[-500:])
    passed = set()
    for case in ET.parse(xml).getroot().iter('testcase'):
        if not any(child.tag in ('failure', 'error', 'skipped') for child in case):
            passed.add(f"{case.get('classname')}::{case.get('name')}")
missing = sorted(stable - passed)
print(f'stable={len(stable)} passed_now={len(passed)} stable_missing={len(missing)}')
for m in missing[:40]:
    print('  MISSING', m)
sys.exit(1 if missing else 0)
