"""pm_col_validate.py <seed> <count> [show] [mode] — the stage-2c model against the real layout, document by
document (exact string comparison). Prints `bad K of N` and the first `show` disagreements."""
import collections
import pathlib
import subprocess
import sys

sys.path.insert(0, str(pathlib.Path(__file__).resolve().parents[1]))
from harness import docs, pm_col, pm_col_corr  # noqa: E402

docs.quiet()
seed = int(sys.argv[1]) if len(sys.argv) > 1 else 0
n = int(sys.argv[2]) if len(sys.argv) > 2 else 20
show = int(sys.argv[3]) if len(sys.argv) > 3 else 1
mode = sys.argv[4] if len(sys.argv) > 4 and sys.argv[4] != '-' else None
do_shrink = len(sys.argv) > 5
import random  # noqa: E402
rng = random.Random(seed)
DRIVER = str(pathlib.Path(__file__).resolve().parents[2] / 'lean/.lake/build/bin/driver_s2col')


def model(lines):
    return subprocess.run([DRIVER], input='\n'.join(lines) + '\n', capture_output=True, text=True).stdout.split('\n')


ds = [pm_col.gen_doc(rng, mode=mode) for _ in range(n)]
lines = [pm_col.doc_line(d) for d in ds]
reals = [pm_col_corr.real_line(d) for d in ds]
out = model(lines)
bad = 0
tags = collections.Counter()
for d, l, r, m in zip(ds, lines, reals, out):
    for t in pm_col.features(d):
        tags[t] += 1
    if r != m:
        bad += 1
        if bad <= show:
            if do_shrink:
                def fails(c):
                    return pm_col_corr.real_line(c) != model([pm_col.doc_line(c)])[0]
                d = pm_col.shrink(d, fails)
                l, r = pm_col.doc_line(d), pm_col_corr.real_line(d)
                m = model([l])[0]
            print('DOC', pm_col.doc_html(d))
            print('LINE', l)
            print('REAL ', r)
            print('MODEL', m)
print('bad', bad, 'of', n)
print(collections.Counter(r[:24] if r.startswith('err') else 'ok' for r in reals).most_common(8))
print(sorted(collections.Counter(min(r.count('(page'), 10) for r in reals).items()))
print(dict(tags))
