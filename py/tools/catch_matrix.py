#!/usr/bin/env python3
"""Markdown table of the seeded changes (seeded/*/meta.json): which checks catch which change."""
import glob
import json
from pathlib import Path

rows = []
for f in sorted(glob.glob(str(Path(__file__).resolve().parents[2] / 'seeded' / '*' / 'meta.json'))):
    m = json.load(open(f))
    summary = (m.get('summary') or '').replace('|', '/').replace('\n', ' ')[:150]
    files = ', '.join(Path(x).name for x in (m.get('files') or []))[:60]
    by = ', '.join(p + ('' if p in m.get('detected_with_failing_input', []) else ' (no input)') for p in m.get('detected_by', [])) or '— missed'
    rows.append(f'| {m["id"]} | {files} | {summary} | {by} |')
print('| seed | file(s) | change | caught by (quick tier) |\n|---|---|---|---|')
print('\n'.join(rows))
