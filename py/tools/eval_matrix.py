#!/usr/bin/env python3
"""Evaluate seeded changes in parallel, each worker in its own copy of /verif (never in /verif itself).

eval_matrix.py <workers> <seed ids...>     results land in /verif/seeded/<id>/ (patch.diff, demo.py, meta.json)
"""
import json
import shutil
import subprocess
import sys
from concurrent.futures import ThreadPoolExecutor
from pathlib import Path
from queue import Queue

VERIF = Path('/verif')
OUT = Path('/tmp/seed/out')
RELATED = {
    'C01': ['C01', 'C03', 'C02'], 'C02': ['C02', 'C10', 'C11', 'C01'], 'C03': ['C03', 'C01', 'C10'],
    'C04': ['C04', 'C14', 'C01', 'C10'], 'C05': ['C05', 'C03'], 'C06': ['C06', 'C07'], 'C07': ['C07', 'C06'],
    'C08': ['C08', 'C10'], 'C09': ['C09'], 'C10': ['C10', 'C08'], 'C11': ['C11', 'C02'], 'C12': ['C12'],
    'C13': ['C13', 'C19'], 'C14': ['C14', 'C04'], 'C15': ['C15'], 'C16': ['C16', 'C17'], 'C17': ['C17', 'C16'],
    'C18': ['C18', 'C19'], 'C19': ['C19', 'C13', 'C18', 'C17'], 'C20': ['C20', 'C19'],
}
workers = int(sys.argv[1])
seeds = sys.argv[2:]
registered = json.loads((VERIF / 'MANIFEST.json').read_text())
have = {c['property_id'] for c in registered['checks']}
pool = Queue()
for i in range(workers):
    copy = Path(f'/tmp/evalverif-{i}')
    subprocess.run(['rsync', '-a', '--delete', '--exclude', '.git', '--exclude', 'seeded', f'{VERIF}/', f'{copy}/'],
                   check=True)
    pool.put(copy)


def run(seed):
    copy = pool.get()
    try:
        pid = seed.split('-')[0]
        props = [p for p in RELATED.get(pid, [pid]) if p in have]
        proc = subprocess.run(['/venv/bin/python', str(copy / 'py/tools/keep_seed.py'), str(OUT / seed), *props],
                              capture_output=True, text=True, timeout=7200)
        kept = copy / 'seeded' / seed
        if kept.exists():
            dest = VERIF / 'seeded' / seed
            if dest.exists():
                shutil.rmtree(dest)
            shutil.copytree(kept, dest)
            meta = json.loads((dest / 'meta.json').read_text())
            return f'{seed}: detected_by={meta["detected_by"]} with_input={meta["detected_with_failing_input"]}'
        return f'{seed}: NOT CONFIRMED {proc.stdout[-300:]}'
    except Exception as exc:  # noqa: BLE001
        return f'{seed}: error {exc}'
    finally:
        pool.put(copy)


with ThreadPoolExecutor(workers) as ex:
    for line in ex.map(run, seeds):
        print(line, flush=True)
