#!/usr/bin/env python3
"""Rewrite the generated parts of DESIGN.md §9 from what is on disk:

<!-- ASBUILT:BEGIN --> … <!-- ASBUILT:END -->   per-property table from evidence/*.json, py/props/*.py, known_findings.txt
<!-- CATCH:BEGIN --> … <!-- CATCH:END -->       seeded changes × checks, from seeded/*/meta.json

Run after the checks have written their evidence (`py/check.py Cxx`), before committing DESIGN.md."""
import importlib
import json
import re
import subprocess
import sys
from pathlib import Path

VERIF = Path(__file__).resolve().parents[2]
sys.path.insert(0, str(VERIF / 'py'))


def lean_lines(modules):
    total = 0
    for module in modules:
        path = VERIF / 'lean' / (module.replace('.', '/') + '.lean')
        if path.exists():
            total += sum(1 for _ in path.open())
    return total


def model_imports(modules):
    """Model/Gen/Lemmas files reachable from the property's modules (one level of `import` following, transitive)."""
    seen, todo = set(), list(modules)
    while todo:
        module = todo.pop()
        if module in seen or not module.startswith('WpModel.'):
            continue
        seen.add(module)
        path = VERIF / 'lean' / (module.replace('.', '/') + '.lean')
        if path.exists():
            todo += re.findall(r'^import (WpModel\.\S+)', path.read_text(), re.M)
    return seen


def asbuilt():
    registry = importlib.import_module('registry')
    findings = (VERIF / 'known_findings.txt').read_text().splitlines()
    rows = ['| Prop. | Lean models (lines) | lemma + theorem files (lines) | audited theorems | generated tables | '
            'correspondence sections (quick cases) | known findings / fixed |', '|---|---|---|---|---|---|---|']
    totals = [0, 0, 0, 0]
    for pid in registry.PROPS:
        module = importlib.import_module(f'props.{pid.lower()}')
        prop = module.PROP
        evidence_path = VERIF / 'evidence' / f'{pid}.json'
        ev = json.loads(evidence_path.read_text()) if evidence_path.exists() else {}
        cov = ev.get('coverage', {})
        reach = model_imports(prop.modules)
        models = sorted(m for m in reach if '.Model.' in m)
        gens = sorted(m for m in reach if '.Gen.' in m)
        proofs = sorted(m for m in reach if '.Props.' in m or '.Lemmas.' in m or '.Witness.' in m)
        sections = cov.get('correspondence', [])
        n_find = sum(1 for l in findings if l.startswith('finding:') and f'property={pid} ' in l)
        n_fixed = sum(1 for l in findings if l.startswith('fixed:') and f'property={pid} ' in l)
        names = ', '.join(m.split('.')[-1] for m in models)
        rows.append(
            f'| {pid} | {names} ({lean_lines(models)}) | {len(proofs)} files ({lean_lines(proofs)}) | '
            f'{cov.get("discharged", "?")}/{cov.get("obligations", "?")} | {len(gens)} | '
            f'{len(sections)} sections, {cov.get("evaluations", "?")} cases '
            f'({cov.get("distinct_nontrivial", "?")} distinct non-trivial) | {n_find} / {n_fixed} |')
        totals[0] += cov.get('obligations', 0) or 0
        totals[1] += cov.get('evaluations', 0) or 0
        totals[2] += n_find
        totals[3] += n_fixed
    lean_total = sum(sum(1 for _ in p.open()) for p in (VERIF / 'lean').rglob('*.lean') if '.lake' not in p.parts)
    fixes = subprocess.run(['git', '-C', '/repo', 'log', '--oneline', '--grep', '^fix:'], capture_output=True,
                           text=True).stdout.count('\n')
    rows.append('')
    rows.append(f'Totals: {lean_total} lines of Lean, {totals[0]} audited theorems (axioms ⊆ propext, Classical.choice, '
                f'Quot.sound), {totals[1]} correspondence cases per quick run, {totals[2]} known findings, '
                f'{fixes} `fix:` commits in /repo ({totals[3]} `fixed:` entries).')
    return '\n'.join(rows)


def catch():
    rows = ['| seed | file(s) | change | caught by (quick tier) |', '|---|---|---|---|']
    caught = with_input = total = neutral = 0
    for f in sorted((VERIF / 'seeded').glob('*/meta.json')):
        m = json.loads(f.read_text())
        summary = (m.get('summary') or '').replace('|', '/').replace('\n', ' ')[:160]
        files = ', '.join(Path(x).name for x in (m.get('files') or []))[:60]
        if m.get('neutralised_by'):
            neutral += 1
            rows.append(f'| {m["id"]} | {files} | {summary} | no longer a violation: its demonstration passes on the '
                        f'repaired tree ({m["neutralised_by"]}) |')
            continue
        by = ', '.join(p + ('' if p in m.get('detected_with_failing_input', []) else ' (no input)')
                       for p in m.get('detected_by', [])) or '— missed'
        rows.append(f'| {m["id"]} | {files} | {summary} | {by} |')
        total += 1
        caught += bool(m.get('detected_by'))
        with_input += bool(m.get('detected_with_failing_input'))
    rows.append('')
    rows.append(f'{total} seeded changes that break their property on the current tree ({neutral} more were made harmless '
                f'by later repairs); {caught} caught by the quick tier, {with_input} of them with a '
                f'concrete failing input in the replay file.')
    return '\n'.join(rows)


def _entries():
    import re
    out = []
    for line in (VERIF / 'known_findings.txt').read_text().splitlines():
        m = re.match(r'(finding|fixed):\s+property=(\S+) id=(\S+)(?: commit=([0-9a-f]+))?.*?what="(.*)"', line)
        if m:
            out.append(m.groups())
    return out


def repairs():
    import subprocess
    log = subprocess.run(['git', '-C', '/repo', 'log', '--reverse', '--format=%h\t%s'], capture_output=True, text=True).stdout
    fixed = {}
    for kind, prop, fid, commit, what in _entries():
        if kind == 'fixed' and commit:
            fixed.setdefault(commit[:7], []).append(f'{prop} `{fid}`')
    rows = ['| commit | what the repair does | finding(s) it closes |', '|---|---|---|']
    n = 0
    for line in log.splitlines():
        h, _, subject = line.partition('\t')
        if subject.startswith('fix:'):
            n += 1
            rows.append(f'| {h} | {subject[4:].strip()} | {"; ".join(fixed.get(h[:7], [])) or "—"} |')
    rows.append('')
    rows.append(f'{n} `fix:` commits, each minimal and unguarded; the pinned suite (2659 stable tests) was re-run after each.')
    return '\n'.join(rows)


def findings():
    rows = ['| property | id | what fails (abridged) |', '|---|---|---|']
    n = 0
    for kind, prop, fid, commit, what in sorted(_entries(), key=lambda e: (e[1], e[2])):
        if kind == 'finding':
            n += 1
            rows.append(f'| {prop} | `{fid}` | {what[:230].replace("|", "/")}{"…" if len(what) > 230 else ""} |')
    rows.append('')
    rows.append(f'{n} open findings (the full text, with the failing input, is in `known_findings.txt`; each has a replay function in its check).')
    return '\n'.join(rows)


def splice(text, tag, body):
    begin, end = f'<!-- {tag}:BEGIN -->', f'<!-- {tag}:END -->'
    if begin not in text:
        return text
    head, rest = text.split(begin, 1)
    _, tail = rest.split(end, 1)
    return f'{head}{begin}\n{body}\n{end}{tail}'


if __name__ == '__main__':
    design = VERIF / 'DESIGN.md'
    text = design.read_text()
    text = splice(text, 'ASBUILT', asbuilt())
    text = splice(text, 'CATCH', catch())
    text = splice(text, 'REPAIRS', repairs())
    text = splice(text, 'FINDINGS', findings())
    design.write_text(text)
    print('DESIGN.md updated')
