#!/usr/bin/env python3
"""keep_seed.py <seed dir> <prop> [extra props]: confirm a seeded change (demo fails with / passes without, suite
unchanged), run the checks against it, and store it under /verif/seeded/<id>/ with what was run."""
import json
import shutil
import subprocess
import sys
from pathlib import Path

VERIF = Path(__file__).resolve().parents[2]
seed = Path(sys.argv[1]).resolve()
props = sys.argv[2:]
proc = subprocess.run(['/venv/bin/python', str(VERIF / 'py/tools/eval_seed.py'), str(seed), *props, '--suite'],
                      capture_output=True, text=True)
result = json.loads(proc.stdout[proc.stdout.index('{'):])
suite = result.get('suite', '')
suite_ok = 'passed_now=2659' in suite and ('stable_missing=0' in suite or (
    'stable_missing=1' in suite and 'file:///repo/tests/resources/pattern.png' in suite))
confirmed = result.get('demo_clean') == 0 and result.get('demo_mutated') not in (0, None) and suite_ok
meta = json.loads((seed / 'meta.json').read_text()) if (seed / 'meta.json').exists() else {}
meta.update({
    'id': seed.name, 'property': props[0], 'confirmed': confirmed,
    'ran': ['demo.py on a clean worktree (exit %s)' % result.get('demo_clean'),
            'git apply patch.diff; demo.py (exit %s)' % result.get('demo_mutated'),
            'pinned suite in the mutated worktree: ' + suite.replace('\n', ' | ')[:300]
            + ' (the one path-dependent test id contains file:///repo and passes under its worktree id)',
            *[f'VERIF_REPO=<worktree> py/check.py {p} --tier quick -> exit {r["exit"]}: {r["what"] or r["violations"]}'
              for p, r in result['checks'].items()]],
    'detected_by': [p for p, r in result['checks'].items() if r['exit'] == 1],
    'detected_with_failing_input': [p for p, r in result['checks'].items()
                                    if r['exit'] == 1 and not any('no-failing-input-found' in v for v in r['violations'])],
})
print(json.dumps(meta, indent=1)[:1500])
if confirmed:
    dest = VERIF / 'seeded' / seed.name
    dest.mkdir(parents=True, exist_ok=True)
    for name in ('patch.diff', 'demo.py'):
        shutil.copy2(seed / name, dest / name)
    (dest / 'meta.json').write_text(json.dumps(meta, indent=1) + '\n')
    print('kept', dest)
else:
    print('NOT CONFIRMED')
