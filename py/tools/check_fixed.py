#!/usr/bin/env python3
"""check_fixed.py: every `fix:` commit of /repo has a `fixed:` line in known_findings.txt and vice versa; no id is
both `finding:` and `fixed:` for the same property.  Exit 1 and a list when the two disagree."""
import os
import re
import subprocess
import sys
from pathlib import Path

REPO = os.environ.get('VERIF_REPO_GIT', '/repo')
ROOT = Path(__file__).resolve().parents[2]

log = subprocess.run(['git', '-C', REPO, 'log', '--format=%h %s'], capture_output=True, text=True, check=True).stdout
commits = {}
for line in log.splitlines():
    h, _, subject = line.partition(' ')
    if subject.startswith('fix:'):
        commits[h] = subject
lines = (ROOT / 'known_findings.txt').read_text().splitlines()
fixed = {}
findings = set()
bad = []
for line in lines:
    m = re.match(r'(finding|fixed):\s+property=(\S+) id=(\S+)(?: commit=([0-9a-f]+))?', line)
    if not m:
        if line.strip() and not line.startswith('#'):
            bad.append(f'unparsed line: {line[:100]}')
        continue
    kind, prop, fid, commit = m.groups()
    if kind == 'fixed':
        if not commit:
            bad.append(f'fixed line without commit: {prop} {fid}')
        else:
            fixed.setdefault(commit[:7], []).append((prop, fid))
    else:
        findings.add((prop, fid))
for h, subject in commits.items():
    if h[:7] not in fixed:
        bad.append(f'fix commit without fixed: line: {h} {subject}')
for h, entries in fixed.items():
    if h not in {c[:7] for c in commits}:
        bad.append(f'fixed: line names a commit that is not a fix: commit of /repo: {h} {entries}')
    for entry in entries:
        if entry in findings:
            bad.append(f'{entry} is both finding: and fixed:')
print(f'{len(commits)} fix: commits, {sum(map(len, fixed.values()))} fixed: lines, {len(findings)} finding: lines')
for b in bad:
    print('  ' + b)
sys.exit(1 if bad else 0)
